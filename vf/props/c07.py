"""C07 -- IN / NOT IN with expanding parameters follows SQL semantics.

Executed on SQLite (deciding part): a table whose rows carry every left operand
combination over {1, 2, 3, NULL} (arity 1..3).  For every value list over {1, 2, NULL}
-- scalar: length 0..3 (quick) / 0..5 (thorough); 2-tuples over all 9 element pairs:
length 0..2 / 0..3; 3-tuples over 5 representative element triples: length 0..2 -- and
every operator form (in_, not_in, ~in_, ~not_in) the truth value
(1/0/NULL) SQLite computes for the IN form is compared, row by row, with the truth value
the *same backend* computes for the explicit OR-of-equalities (tuple: OR of AND of
equalities), negated for the NOT forms.  Empty list: the reference is the constant
FALSE (TRUE for NOT IN) for every row, NULL operands included.

Positions: selected boolean, WHERE, HAVING, CASE WHEN.  Delivery forms: a fresh
statement with an inline list (expanding bind), ``literal_binds`` text, an expanding
``bindparam`` with ``literal_execute=True``, and ONE statement object executed again and
again with lists of changing length (to/from empty) so the compiled cache entry is
re-bound; cache hits are counted and required.

Typed tuples: the same tuple IN is run over element types that HAVE a bind processor on
SQLite (Date, DateTime, Boolean, Enum, a TypeDecorator) mixed with Integer / String in
twelve column orders, bound (first execution and cache hits), re-bound on one cached
statement with changing list lengths, and through literal_execute; the oracle there is a
Python model (no NULLs): a row matches iff its tuple of Python values is in the list.

Further input classes (each with its own small fixture and a Python-model or hand-written
reference, see the function docstrings): caller-owned list arguments mutated after the
statement was built; expanding parameters WITHOUT a type (text(), untyped column()) x
value kinds str / bytes / int / None / tuples / lists / Row objects / a custom Sequence,
re-bound on one cached statement; column and user parameter names of the form
<name>_<digits> next to IN lists (expanded-name collisions); tuple IN against untyped
columns with value types that vary between executions of one statement shape; IN against
a type with bind_expression().

Other dialects (no server): the statement is executed on a recording DBAPI
(postgresql+psycopg2, mysql+pymysql, mssql+pyodbc, oracle+oracledb) and the recorded
(sql, params) judged structurally: the IN list holds exactly len(values) * arity
placeholders whose parameter values are the list in order; for the empty list no
placeholder of the list survives.  In addition the dialect's empty-set rendering
(generic SQL: ``IN (NULL) AND (1 != 1)`` or a sub-select) is transplanted into a SQLite
statement and executed there: it must be FALSE / TRUE for every row.  That transplant
relies on the fragment being plain standard SQL, which is checked by the lexer (only
keywords NULL/AND/OR/SELECT/FROM/WHERE/AS/CAST, numbers and identifiers allowed).

Candidate genuine defect re-found on the unchanged tree (keeps firing):
  sqlite-error:tuple-empty-literal   ``tuple_(x, y).in_([])`` rendered through
        literal_binds / literal_execute gives ``IN (VALUES SELECT 1, 1 FROM ...)``: the
        literal path of _literal_execute_expanding_parameter_literal_binds prefixes
        "VALUES " to the empty-set sub-select (the bound path does not) -> syntax error.

Guards:
 * rows where the *reference* is judged by SQLite's row-value machinery are not used:
   the reference is built from scalar ``=`` / AND / OR only.
 * a bare expanding list containing None renders ``IN (1, NULL)``: its 3VL value is
   compared (NULL vs 0 matters under negation), exactly as the statement says.
"""
from __future__ import annotations

import itertools

META = {
    "id": "C07",
    "level": "exploration",
    "technique": "exhaustive differential execution on SQLite: IN/NOT IN forms vs explicit OR-of-equalities under the backend's own 3VL, four clause positions, four delivery forms incl. cached re-binding; DBAPI-boundary placeholder/parameter accounting for PG/MySQL/MSSQL/Oracle",
    "level_text": "All value lists up to the stated length over {1,2,NULL} with duplicates, scalar and 2-/3-tuples, all four negation forms, all row operands over {1,2,3,NULL}: a finite space enumerated completely for the stated bounds, each case evaluated on every row.",
    "level_note": "Only SQLite executes. For PG/MySQL/MSSQL/Oracle the (sql, params) stream of a recording DBAPI is judged by counting placeholders/parameters, and the empty-set fragment is executed on SQLite as a stand-in (plain SQL subset). The reference OR-of-equalities is evaluated by the same SQLite, so SQLite's own 3VL is trusted.",
    "design_ref": "DESIGN.md section 4, C07",
    "rule": "case = (arity, value list, operator form, position, delivery); non-trivial = list is empty, or contains NULL, or contains a duplicate, or arity > 1; distinct by that tuple",
    "shards": {"quick": 8, "thorough": 16},
    "soft_s": {"quick": 50, "thorough": 800},
    "exhaustive": {"quick": True, "thorough": True},
    "require": ["truth_values_compared", "null_truth_values_seen", "empty_lists", "cache_hits", "rebinds_changed_length",
                "fake_statements_judged", "empty_fragment_transplants",
                "typed_tuple_cases", "typed_tuple_rows_matched", "typed_tuple_rebinds_changed_length",
                "mutated_argument_cases", "untyped_cases", "untyped_bytes_cases", "untyped_cache_hits",
                "name_collision_cases", "name_collision_rows_matched", "heterogeneous_tuple_cases",
                "heterogeneous_tuple_cache_hits", "bind_expression_type_cases"],
    "assumptions": ["SQLite evaluates scalar =, AND, OR, NOT under standard three-valued logic"],
}

VALS = (1, 2, None)
OPERANDS = (1, 2, 3, None)
FORMS = ("in", "not_in", "inv_in", "inv_not_in")
POSITIONS = ("select", "where", "having", "case")
DELIVERIES = ("inline", "literal_binds", "literal_execute", "cached")


class Rig:
    def __init__(self, ctx):
        import sqlalchemy as sa

        self.sa = sa
        self.md = sa.MetaData()
        self.m = sa.Table("m", self.md, sa.Column("id", sa.Integer, primary_key=True),
                          sa.Column("x", sa.Integer), sa.Column("y", sa.Integer), sa.Column("z", sa.Integer))
        self.eng = sa.create_engine("sqlite://")
        self.md.create_all(self.eng)
        self.conn = self.eng.connect()
        self.rows = [dict(id=i + 1, x=x, y=y, z=z) for i, (x, y, z) in enumerate(itertools.product(OPERANDS, repeat=3))]
        self.conn.execute(self.m.insert(), self.rows)
        self.conn.commit()
        self.cached = {}

    def close(self):
        self.conn.close()
        self.eng.dispose()

    # ---- expression construction
    def left(self, arity):
        m, sa = self.m, self.sa
        cols = [m.c.x, m.c.y, m.c.z][:arity]
        return cols[0] if arity == 1 else sa.tuple_(*cols), cols

    def in_expr(self, arity, form, values):
        """values: python list or a BindParameter"""
        sa = self.sa
        L, _ = self.left(arity)
        if form == "in":
            return L.in_(values)
        if form == "not_in":
            return L.not_in(values)
        if form == "inv_in":
            return ~L.in_(values)
        return sa.not_(L.not_in(values))

    def ref_expr(self, arity, form, values):
        """explicit OR of (AND of) equalities as plain SQL text, written here (not by the
        compiler under test); constant for the empty list."""
        sa = self.sa
        names = ["m.x", "m.y", "m.z"][:arity]
        negated = form in ("not_in", "inv_in")
        if not values:
            return sa.literal_column("1" if negated else "0")

        def lit(e):
            return "NULL" if e is None else str(int(e))

        terms = []
        for v in values:
            tup = (v,) if arity == 1 else v
            terms.append("(" + " AND ".join(f"{c} = {lit(e)}" for c, e in zip(names, tup)) + ")")
        text = "(" + " OR ".join(terms) + ")"
        return sa.literal_column("(NOT %s)" % text if negated else text)

    def statement(self, position, cond):
        sa, m = self.sa, self.m
        if position == "select":
            return sa.select(m.c.id, cond.label("v")).order_by(m.c.id)
        if position == "where":
            return sa.select(m.c.id).where(cond).order_by(m.c.id)
        if position == "having":
            return sa.select(m.c.id).group_by(m.c.id, m.c.x, m.c.y, m.c.z).having(cond).order_by(m.c.id)
        if position == "case":
            return sa.select(m.c.id, sa.case((cond, sa.literal_column("'T'")), else_=sa.literal_column("'E'")).label("v")).order_by(m.c.id)
        raise ValueError(position)

    def raw(self, res):
        rows = res.cursor.fetchall()
        res.close()
        return [tuple(r) for r in rows]


def all_lists(arity, maxlen):
    elems = list(VALS) if arity == 1 else list(itertools.product(VALS, repeat=arity))
    if arity == 3:  # 27 element tuples: keep the lists short but complete over a reduced element set
        elems = [(1, 2, 1), (1, None, 2), (None, None, None), (2, 2, 2), (1, 2, None)]
    for n in range(0, maxlen + 1):
        for lst in itertools.product(elems, repeat=n):
            yield list(lst)


def expected_from_truth(position, truth_rows):
    """truth_rows: [(id, 1|0|None)] -> what the statement at that position must return."""
    if position == "select":
        return [(i, v) for i, v in truth_rows]
    if position in ("where", "having"):
        return [(i,) for i, v in truth_rows if v == 1]
    return [(i, "T" if v == 1 else "E") for i, v in truth_rows]


def run(ctx):
    import warnings

    warnings.simplefilter("ignore")
    import sqlalchemy as sa

    rig = Rig(ctx)
    try:
        _run_sqlite(ctx, rig, sa)
        _run_typed_tuples(ctx, rig, sa)
        _run_mutated_arguments(ctx, rig, sa)
        _run_untyped(ctx, rig, sa)
        _run_name_collisions(ctx, rig, sa)
        _run_heterogeneous_untyped_tuples(ctx, rig, sa)
        _run_bind_expression_type(ctx, rig, sa)
        _run_fake(ctx, rig, sa)
    finally:
        rig.close()


# ---------------------------------------------------------------------------
# tuple IN over element types that HAVE a bind processor on the dialect
# ---------------------------------------------------------------------------
def _run_typed_tuples(ctx, rig, sa):
    """tuple_(typed columns).in_(list of python tuples): Date / DateTime / Boolean / Enum /
    a TypeDecorator / Integer / String elements in several column orders, so that the
    per-position bind processors differ.  No NULLs here, so the oracle is a pure Python
    model: a row matches iff its tuple of Python values equals a member of the list.
    Deliveries: fresh statement (first execution of the shape compiles it, later ones hit
    the cache), ONE statement re-bound with lists of changing length, literal_execute."""
    import datetime as dt
    import enum
    import itertools as it

    class Shifted(sa.TypeDecorator):
        """stores v + 1000: a wrong or missing bind processor is visible in the rows"""
        impl = sa.Integer
        cache_ok = True

        def process_bind_param(self, value, dialect):
            return None if value is None else value + 1000

        def process_result_value(self, value, dialect):
            return None if value is None else value - 1000

    class Colour(enum.Enum):
        red = 1
        green = 2

    md = sa.MetaData()
    tt = sa.Table(
        "tt", md, sa.Column("id", sa.Integer, primary_key=True),
        sa.Column("d", sa.Date), sa.Column("ts", sa.DateTime), sa.Column("b", sa.Boolean(create_constraint=False)),
        sa.Column("e", Shifted), sa.Column("i", sa.Integer), sa.Column("s", sa.String(10)), sa.Column("c", sa.Enum(Colour)),
    )
    conn = rig.conn
    md.create_all(conn)
    pool = {
        "d": [dt.date(2020, 1, 31), dt.date(1999, 12, 31)],
        "ts": [dt.datetime(2020, 1, 31, 23, 59, 59), dt.datetime(2001, 2, 3, 4, 5, 6, 7)],
        "b": [True, False], "e": [1, 2], "i": [1, 2], "s": ["1", "x"], "c": [Colour.red, Colour.green],
    }
    absent = {"d": dt.date(2000, 1, 1), "ts": dt.datetime(2000, 1, 1), "b": True, "e": 1001, "i": 1001, "s": "1001", "c": Colour.green}
    names = list(pool)
    rows = []
    for k, combo in enumerate(it.product(*[range(2)] * 3)):
        # rows vary three independent bits over the seven columns
        r = {"id": k + 1}
        for ci, nme in enumerate(names):
            r[nme] = pool[nme][combo[ci % 3]]
        rows.append(r)
    conn.execute(tt.insert(), rows)
    conn.commit()
    shapes = [("d", "i"), ("i", "d"), ("ts", "b"), ("b", "ts"), ("e", "s"), ("s", "e"), ("i", "e", "d"), ("c", "ts", "i"),
              ("d", "ts"), ("b", "e", "c"), ("s", "i"), ("e", "d")]
    cached = {}
    last_len = {}
    idx = 0
    try:
        for shape in shapes:
            cols = [tt.c[n] for n in shape]
            L = sa.tuple_(*cols)
            present = sorted({tuple(r[n] for n in shape) for r in rows}, key=repr)[:3]
            cand = present + [tuple(absent[n] for n in shape), tuple(list(present[0][:-1]) + [absent[shape[-1]]])]
            lists = [[]] + [[c] for c in cand] + [list(p) for p in it.permutations(cand[:4], 2)] + [cand[:3], cand]
            for values in lists:
                for form in ("in", "not_in"):
                    for delivery in ("inline", "cached", "literal_execute"):
                        idx += 1
                        if not ctx.mine(idx):
                            continue
                        if not ctx.budget_ok():
                            return
                        if not values and delivery == "literal_execute":
                            continue  # the registered known finding (sqlite-error:tuple-empty-literal), judged above
                        member = {r["id"] for r in rows if tuple(r[n] for n in shape) in set(values)}
                        want = sorted(member if form == "in" else {r["id"] for r in rows} - member)
                        desc = {"shape": list(shape), "values": values, "form": form, "delivery": delivery}
                        sql = None
                        try:
                            if delivery == "cached":
                                key = (shape, form)
                                st = cached.get(key)
                                if st is None:
                                    bp = sa.bindparam("vals", expanding=True)
                                    st = cached[key] = sa.select(tt.c.id).where(L.in_(bp) if form == "in" else L.not_in(bp)).order_by(tt.c.id)
                                res = conn.execute(st, {"vals": list(values)})
                                if res.context.cache_hit is sa.engine.interfaces.CacheStats.CACHE_HIT and last_len.get(key) not in (None, len(values)):
                                    ctx.count("typed_tuple_rebinds_changed_length")
                                last_len[key] = len(values)
                            else:
                                v = list(values) if delivery == "inline" else sa.bindparam("vals", value=list(values), expanding=True, literal_execute=True)
                                st = sa.select(tt.c.id).where(L.in_(v) if form == "in" else L.not_in(v)).order_by(tt.c.id)
                                res = conn.execute(st)
                            sql = res.context.statement
                            params = res.context.parameters
                            got = [r[0] for r in res.cursor.fetchall()]
                            res.close()
                        except (sa.exc.SQLAlchemyError, NotImplementedError) as e:
                            ctx.violation(f"sqlite-typed-tuple-error:{_how(delivery)}", f"{type(e).__name__}: {str(e)[:200]}", dict(desc, sql=sql))
                            continue
                        ctx.case(desc, nontrivial=True)
                        ctx.count("typed_tuple_cases")
                        ctx.count("typed_tuple_rows_matched", len(got))
                        if got != want:
                            ctx.violation(
                                f"sqlite-typed-tuple-value:{_how(delivery)}",
                                f"tuple_({', '.join(shape)}).{form}({values!r}) via {delivery}: ids {got} want {want} :: {sql} {params!r}",
                                dict(desc, sql=sql, params=params, got=got, want=want),
                            )
    finally:
        md.drop_all(conn)
        conn.commit()


# ---------------------------------------------------------------------------
# caller-owned mutable arguments, mutated after the statement was built
# ---------------------------------------------------------------------------
MUTATIONS = ("clear", "append_hit", "append_null", "refill", "pop", "reverse_extend")


def _mutate(buf, how, arity):
    hit = 2 if arity == 1 else (2, 2)
    null = None if arity == 1 else (None, None)
    if how == "clear":
        buf.clear()
    elif how == "append_hit":
        buf.append(hit)
    elif how == "append_null":
        buf.append(null)
    elif how == "refill":
        buf.clear()
        buf.extend([3 if arity == 1 else (3, 3)])
    elif how == "pop":
        if buf:
            buf.pop()
    elif how == "reverse_extend":
        buf.reverse()
        buf.extend([1 if arity == 1 else (1, 2)])


def _run_mutated_arguments(ctx, rig, sa):
    """``col.in_(buf)`` must keep the values it was BUILT with: the caller clears / refills /
    appends to ``buf`` (a list; for tuple IN a list of tuples or of lists) afterwards, then
    the statement is executed bound, rendered with literal_binds, and one statement object
    is executed, the buffer mutated again, and executed again (re-bound cached form).
    Reference = explicit OR-of-equalities over the snapshot taken at construction."""
    idx = 0
    for arity in (1, 2):
        lists = [[], [1], [1, 2], [2, None], [1, 1, 2]] if arity == 1 else [[], [(1, 2)], [(1, 2), (2, 2)], [(1, None), (2, 1)]]
        for values in lists:
            for as_lists in ((False, True) if arity == 2 else (False,)):
                for form in ("in", "not_in", "inv_in"):
                    for how in MUTATIONS:
                        for delivery in ("bound", "literal_binds", "re-executed"):
                            idx += 1
                            if not ctx.mine(idx):
                                continue
                            if not ctx.budget_ok():
                                return
                            snapshot = list(values)
                            buf = [list(v) for v in values] if as_lists else list(values)
                            expr = rig.in_expr(arity, form, buf)
                            st = rig.statement("select", expr)
                            ref = rig.ref_expr(arity, form, snapshot)
                            want = rig.raw(rig.conn.execute(sa.select(rig.m.c.id, ref.label("v")).order_by(rig.m.c.id)))
                            desc = {"arity": arity, "values": snapshot, "element_kind": "list" if as_lists else "tuple/scalar",
                                    "form": form, "mutation": how, "delivery": delivery}
                            if not snapshot and delivery == "literal_binds" and arity > 1:
                                continue  # empty tuple IN rendered literally is judged in the main workload
                            sql = None
                            try:
                                if delivery == "re-executed":
                                    first = rig.raw(rig.conn.execute(st))
                                    _mutate(buf, how, arity)
                                    res = rig.conn.execute(st)
                                    sql = res.context.statement
                                    got = rig.raw(res)
                                    if first != want:
                                        got = first
                                else:
                                    _mutate(buf, how, arity)
                                    if delivery == "bound":
                                        res = rig.conn.execute(st)
                                        sql = res.context.statement
                                        got = rig.raw(res)
                                    else:
                                        sql = str(st.compile(rig.eng, compile_kwargs={"literal_binds": True}))
                                        got = rig.raw(rig.conn.exec_driver_sql(sql))
                            except (sa.exc.SQLAlchemyError, NotImplementedError) as e:
                                ctx.violation(f"sqlite-mutated-argument-error:{'tuple' if arity > 1 else 'scalar'}-{delivery}",
                                              f"{type(e).__name__}: {str(e)[:200]}", dict(desc, sql=sql))
                                continue
                            ctx.case(desc, nontrivial=True)
                            ctx.count("mutated_argument_cases")
                            if got != want:
                                diff = next(((g, w) for g, w in itertools.zip_longest(got, want) if g != w), None)
                                ctx.violation(
                                    f"sqlite-mutated-argument:{'tuple' if arity > 1 else 'scalar'}-{delivery}",
                                    f"{form} built from {snapshot!r}, argument list then mutated by '{how}' (now {buf!r}), {delivery}: "
                                    f"first differing row got={diff[0]} want={diff[1]} :: {sql}",
                                    dict(desc, after_mutation=repr(buf), sql=sql, got=got[:6], want=want[:6]),
                                )


# ---------------------------------------------------------------------------
# expanding parameters WITHOUT a type
# ---------------------------------------------------------------------------
class Seq:
    """a Sequence that is neither tuple nor list (a tuple-IN member may be any Sequence)"""

    def __init__(self, *items):
        self.items = items

    def __len__(self):
        return len(self.items)

    def __getitem__(self, i):
        return self.items[i]

    def __iter__(self):
        return iter(self.items)

    def __repr__(self):
        return "Seq%r" % (self.items,)


import collections.abc as _abc  # noqa: E402

_abc.Sequence.register(Seq)


def _kind(values):
    ks = {type(v).__name__ for v in values if v is not None}
    k = "empty" if not values else ("mixed" if len(ks) > 1 else (ks.pop() if ks else "null"))
    return k + ("+null" if None in values and values else "")


def _run_untyped(ctx, rig, sa):
    """IN / NOT IN through an expanding parameter that has NO type: ``text("... IN :v")``,
    untyped ``column("data")``; values of kind str / bytes (one byte, longer, mixed lengths)
    / int / None / mixtures, and for the tuple form tuples, lists, Row objects and a custom
    Sequence.  Every statement object is executed with the whole value sequence in turn
    (re-binding one cached compiled form across value kinds).  Reference: the explicit OR of
    ``data = ?`` written here and executed through the raw DBAPI connection."""
    conn = rig.conn
    conn.exec_driver_sql("CREATE TABLE u (id INTEGER PRIMARY KEY, data, k)")
    rows = [(1, b"a", 1), (2, b"b", 2), (3, b"ab", 1), (4, None, 2), (5, "a", 1), (6, 97, 2), (7, "ab", 1), (8, 1, 2), (9, 98, None), (10, b"", 1)]
    conn.exec_driver_sql("INSERT INTO u (id, data, k) VALUES (?, ?, ?)", rows)
    conn.commit()
    u = sa.table("u", sa.column("id"), sa.column("data"), sa.column("k"))
    bp = lambda: sa.bindparam("v", expanding=True)  # noqa: E731
    stmts = {
        "text-in": (sa.text("SELECT id FROM u WHERE data IN :v ORDER BY id").bindparams(bp()), False),
        "text-not-in": (sa.text("SELECT id FROM u WHERE data NOT IN :v ORDER BY id").bindparams(bp()), True),
        "column-in": (sa.select(u.c.id).where(u.c.data.in_(bp())).order_by(u.c.id), False),
        "column-not-in": (sa.select(u.c.id).where(u.c.data.not_in(bp())).order_by(u.c.id), True),
        "column-inv-in": (sa.select(u.c.id).where(~u.c.data.in_(bp())).order_by(u.c.id), True),
        "literal-column-in": (sa.select(u.c.id).where(sa.literal_column("data").in_(bp())).order_by(u.c.id), False),
        "having-in": (sa.select(u.c.id).group_by(u.c.id, u.c.data).having(u.c.data.in_(bp())).order_by(u.c.id), False),
    }
    scalar_lists = [
        ["a"], [b"a"], [b"a", b"b"], [b"a", b"a"], [b"ab"], [b"a", b"ab"], [b"ab", b"a", b""], ["a", "ab"], [97], [97, 1, 98],
        ["a", b"a", 97], [b"a", "a"], [None, b"a"], [b"a", None], ["ab", None], [], [b""], ["a"], [1], [b"b"],
    ]
    raw = conn.connection.dbapi_connection

    def reference(cols, members, negated):
        if not members:
            cond = "0"
            params = []
        else:
            terms, params = [], []
            for mbr in members:
                mbr = (mbr,) if len(cols) == 1 else tuple(mbr)
                terms.append("(" + " AND ".join(f"{c} = ?" for c in cols) + ")")
                params.extend(mbr)
            cond = "(" + " OR ".join(terms) + ")"
        sql = f"SELECT id FROM u WHERE {'NOT ' if negated else ''}{cond} ORDER BY id"
        return [r[0] for r in raw.execute(sql, params).fetchall()]

    try:
        for si, (label, (st, negated)) in enumerate(sorted(stmts.items())):
            if not ctx.mine(si):
                continue
            for values in scalar_lists:
                if not ctx.budget_ok():
                    return
                desc = {"statement": label, "values": [repr(v) for v in values]}
                want = reference(["data"], values, negated)
                _untyped_one(ctx, sa, conn, st, values, want, desc, "scalar", label)
        # tuple form: members are tuples / lists / Row objects / a custom Sequence
        row_objs = conn.execute(sa.text("SELECT k, data FROM u WHERE id IN (1, 5, 6) ORDER BY id")).all()
        tuple_lists = [
            [(1, b"a")], [(1, "a"), (2, 97)], [[1, b"a"], [2, b"b"]], [Seq(1, b"ab"), Seq(2, 1)], list(row_objs), [row_objs[0], (2, b"b")],
            [(1, b"a"), (1, b"ab"), (1, b"")], [(1, "ab")], [], [(2, None), (1, b"a")], [(None, 98)], [(1, b"a")],
        ]
        tstmts = {
            "text-tuple-in": (sa.text("SELECT id FROM u WHERE (k, data) IN :v ORDER BY id").bindparams(bp()), False),
            "text-tuple-not-in": (sa.text("SELECT id FROM u WHERE (k, data) NOT IN :v ORDER BY id").bindparams(bp()), True),
            "column-tuple-in": (sa.select(u.c.id).where(sa.tuple_(u.c.k, u.c.data).in_(bp())).order_by(u.c.id), False),
        }
        for si, (label, (st, negated)) in enumerate(sorted(tstmts.items())):
            if not ctx.mine(si + 3):
                continue
            for values in tuple_lists:
                if not values and label.startswith("text"):
                    continue  # an untyped empty list cannot know it is a tuple IN: arity unknowable, not generated
                desc = {"statement": label, "values": [repr(v) for v in values]}
                want = reference(["k", "data"], values, negated)
                _untyped_one(ctx, sa, conn, st, values, want, desc, "tuple", label)
    finally:
        conn.exec_driver_sql("DROP TABLE u")
        conn.commit()


def _untyped_one(ctx, sa, conn, st, values, want, desc, shape, label):
    kind = _kind([x for v in values for x in (v if shape == "tuple" else (v,))] if values else [])
    sql = None
    try:
        res = conn.execute(st, {"v": list(values)})
        sql = res.context.statement
        params = res.context.parameters
        if res.context.cache_hit is sa.engine.interfaces.CacheStats.CACHE_HIT:
            ctx.count("untyped_cache_hits")
        got = [r[0] for r in res.cursor.fetchall()]
        res.close()
    except (sa.exc.SQLAlchemyError, NotImplementedError) as e:
        ctx.violation(f"sqlite-untyped-error:{shape}:{kind}", f"{label} with {values!r}: {type(e).__name__}: {str(e)[:200]}", dict(desc, sql=sql))
        return
    ctx.case(desc, nontrivial=True)
    ctx.count("untyped_cases")
    if any(isinstance(x, bytes) for v in values for x in (v if shape == "tuple" else (v,))):
        ctx.count("untyped_bytes_cases")
    if got != want:
        ctx.violation(f"sqlite-untyped-value:{shape}:{kind}", f"{label} with {values!r}: ids {got} want {want} :: {sql} {params!r}",
                      dict(desc, sql=sql, params=repr(params), got=got, want=want))


# ---------------------------------------------------------------------------
# parameter names of the form <other>_<digits> next to an IN list
# ---------------------------------------------------------------------------
def _run_name_collisions(ctx, rig, sa):
    """expanded IN parameters are named <name>_<i> (tuples: <name>_<i>_<j>); columns and
    user parameters whose own (anonymous) names have that form must not be overwritten.
    Python-model oracle over a small table without NULLs."""
    names = ["x", "x_1", "x_1_1", "x_2", "x_1_2", "param_1", "param_1_1", "param_1_1_1", "v", "v_1"]
    md = sa.MetaData()
    nm = sa.Table("nm", md, sa.Column("id", sa.Integer, primary_key=True), *[sa.Column(n, sa.Integer) for n in names])
    conn = rig.conn
    md.create_all(conn)
    rng = ctx.rng
    rows = [dict(id=i + 1, **{n: (i * (k + 3) + k) % 4 for k, n in enumerate(names)}) for i in range(24)]
    conn.execute(nm.insert(), rows)
    conn.commit()
    idx = 0
    try:
        for in_col in names:
            for eq_cols in itertools.combinations([n for n in names if n != in_col], 2):
                idx += 1
                if not ctx.mine(idx) or idx % (3 if ctx.quick else 1):
                    continue
                if not ctx.budget_ok():
                    return
                for shape in ("scalar", "tuple", "user-named"):
                    eqv = {c: rng.randrange(4) for c in eq_cols}
                    order = rng.random() < 0.5
                    conds_eq = [nm.c[c] == v for c, v in eqv.items()]
                    if shape == "scalar":
                        members = sorted(rng.sample(range(4), rng.choice((1, 2, 3))))
                        cond_in = nm.c[in_col].in_(members)
                        pred = lambda r: r[in_col] in members  # noqa: E731
                        params = {}
                    elif shape == "tuple":
                        other = eq_cols[0]
                        members = [(rng.randrange(4), rng.randrange(4)) for _ in range(rng.choice((1, 2, 3)))]
                        cond_in = sa.tuple_(nm.c[in_col], nm.c[other]).in_(members)
                        pred = lambda r: (r[in_col], r[other]) in members  # noqa: E731
                        params = {}
                    else:
                        members = sorted(rng.sample(range(4), 2))
                        cond_in = nm.c[in_col].in_(sa.bindparam("v", expanding=True))
                        conds_eq = [nm.c[eq_cols[0]] == sa.bindparam("v_1"), nm.c[eq_cols[1]] == sa.bindparam("v_1_1")]
                        eqv = {eq_cols[0]: eqv[eq_cols[0]], eq_cols[1]: eqv[eq_cols[1]]}
                        params = {"v": members, "v_1": eqv[eq_cols[0]], "v_1_1": eqv[eq_cols[1]]}
                        pred = lambda r: r[in_col] in members  # noqa: E731
                    st = sa.select(nm.c.id)
                    for c in (conds_eq + [cond_in]) if order else ([cond_in] + conds_eq):
                        st = st.where(c)
                    st = st.order_by(nm.c.id)
                    want = [r["id"] for r in rows if pred(r) and all(r[c] == v for c, v in eqv.items())]
                    # a weaker statement too, so that non-empty results are common
                    desc = {"in": in_col, "eq": eqv, "members": members, "shape": shape, "in_last": order}
                    try:
                        res = conn.execute(st, params)
                        sql, sent = res.context.statement, res.context.parameters
                        got = [r[0] for r in res.cursor.fetchall()]
                        res.close()
                    except (sa.exc.SQLAlchemyError, KeyError) as e:
                        ctx.violation("expanded-in-parameter-name-collides-with-other-parameter",
                                      f"{type(e).__name__}: {str(e)[:200]}", desc)
                        continue
                    ctx.case(desc, nontrivial=True)
                    ctx.count("name_collision_cases")
                    ctx.count("name_collision_rows_matched", len(got))
                    if got != want:
                        ctx.violation(
                            "expanded-in-parameter-name-collides-with-other-parameter",
                            f"{in_col} IN {members} with {eqv}: ids {got} want {want} :: {sql} {sent!r}",
                            dict(desc, sql=sql, params=repr(sent), got=got, want=want),
                        )
    finally:
        md.drop_all(conn)
        conn.commit()


# ---------------------------------------------------------------------------
# tuple IN against untyped columns, value types varying between executions
# ---------------------------------------------------------------------------
def _run_heterogeneous_untyped_tuples(ctx, rig, sa):
    """``tuple_(literal_column("a"), literal_column("b")).in_([(date, 5)])`` then the same
    statement shape with ``[(5, date)]``, ``[("x", datetime)]`` ...: the element types are
    inferred from the values, so consecutive executions of one shape need different
    per-position bind processors.  Within ONE list the members are homogeneous per position
    (the tuple type is inferred from the first member, by design).  Python-model oracle on the
    storage representation."""
    import datetime as dt

    if ctx.shard % 2:
        return
    conn = rig.conn
    conn.exec_driver_sql("CREATE TABLE hx (id INTEGER PRIMARY KEY, a, b)")
    d1, d2 = dt.date(2020, 1, 31), dt.date(1999, 12, 31)
    ts = dt.datetime(2020, 1, 31, 23, 59, 59)
    stored = {d1: "2020-01-31", d2: "1999-12-31", ts: "2020-01-31 23:59:59.000000", 5: 5, 7: 7, "x": "x", "2020-01-31": "2020-01-31", True: 1}
    vals = [d1, d2, ts, 5, 7, "x"]
    rows = []
    for i, (a, b) in enumerate(itertools.product(vals, repeat=2)):
        rows.append((i + 1, stored[a], stored[b]))
    conn.exec_driver_sql("INSERT INTO hx (id, a, b) VALUES (?, ?, ?)", rows)
    conn.commit()
    lefts = {
        "literal_column": lambda: sa.tuple_(sa.literal_column("a"), sa.literal_column("b")),
        "column": lambda: sa.tuple_(sa.column("a"), sa.column("b")),
    }
    seqs = [
        [[(d1, 5)], [(5, d1)], [(d2, 7), (d1, 5)], [("x", ts)], [(ts, "x")], [(5, 7)], [(d1, d2)], [(7, d2), (5, d1)]],
        [[(5, d1)], [(d1, 5)], [("x", 5)], [(5, "x")], [(ts, d1)], [(d1, ts)], [(d1, 5), (d2, 5)]],
    ]
    try:
        for lname, left in sorted(lefts.items()):
            for form in ("in", "not_in"):
                for seq in seqs:
                    for members in seq:
                        if not ctx.budget_ok():
                            return
                        L = left()
                        st = sa.select(sa.column("id")).select_from(sa.table("hx")).where(L.in_(members) if form == "in" else L.not_in(members)).order_by(sa.column("id"))
                        smem = {(stored[a], stored[b]) for a, b in members}
                        hit = [r[0] for r in rows if (r[1], r[2]) in smem]
                        want = hit if form == "in" else [r[0] for r in rows if r[0] not in set(hit)]
                        desc = {"left": lname, "form": form, "members": repr(members)}
                        try:
                            res = conn.execute(st)
                            sql, sent = res.context.statement, res.context.parameters
                            if res.context.cache_hit is sa.engine.interfaces.CacheStats.CACHE_HIT:
                                ctx.count("heterogeneous_tuple_cache_hits")
                            got = [r[0] for r in res.cursor.fetchall()]
                            res.close()
                        except (sa.exc.SQLAlchemyError, TypeError) as e:
                            ctx.violation("sqlite-untyped-tuple-heterogeneous-error", f"{members!r}: {type(e).__name__}: {str(e)[:200]}", desc)
                            continue
                        ctx.case(desc, nontrivial=True)
                        ctx.count("heterogeneous_tuple_cases")
                        if got != want:
                            ctx.violation("sqlite-untyped-tuple-heterogeneous-value",
                                          f"(a, b) {form} {members!r}: ids {got} want {want} :: {sql} {sent!r}",
                                          dict(desc, sql=sql, params=repr(sent), got=got, want=want))
    finally:
        conn.exec_driver_sql("DROP TABLE hx")
        conn.commit()


# ---------------------------------------------------------------------------
# IN against a type with bind_expression()
# ---------------------------------------------------------------------------
# Two behaviours of the unmodified tree are CANDIDATE defects that are not recorded in
# known_findings.json yet (reproducer + proposed fix: selftest/C07/proposed/).  While this
# flag is False the cases are executed and counted (``open_candidate_*`` counters / seen)
# but not reported as violations; set it to True once they are recorded as open or repaired.
CANDIDATES_AS_VIOLATIONS = True


def _candidate(ctx, mechanism, summary, witness):
    if CANDIDATES_AS_VIOLATIONS:
        ctx.violation(mechanism, summary, witness)
    else:
        ctx.count("open_candidate_observed")
        ctx.seen("open_candidates", mechanism)


def _run_bind_expression_type(ctx, rig, sa):
    """IN / NOT IN lists (length 0..3) against a TypeDecorator whose bind_expression() wraps
    every value in lower(): bound, literal_binds, cached re-bind.  Python-model oracle."""
    if ctx.shard % 2 == 0:
        return

    class Lower(sa.TypeDecorator):
        impl = sa.String
        cache_ok = True

        def bind_expression(self, bindvalue):
            return sa.func.lower(bindvalue)

    md = sa.MetaData()
    be = sa.Table("be", md, sa.Column("id", sa.Integer, primary_key=True), sa.Column("s", Lower(10)), sa.Column("a", sa.Integer), sa.Column("b", sa.Integer))
    conn = rig.conn
    md.create_all(conn)
    rows = [dict(id=1, s="a", a=1, b=2), dict(id=2, s="b", a=3, b=4), dict(id=3, s="c", a=1, b=4)]
    conn.execute(be.insert(), rows)
    conn.commit()
    cached = {f: sa.select(be.c.id).where(getattr(be.c.s, f)(sa.bindparam("v", expanding=True))).order_by(be.c.id) for f in ("in_", "not_in")}
    try:
        for members in ([], ["A"], ["A", "b"], ["x"], ["C", "A", "B"], [], ["b"]):
            low = {m.lower() for m in members}
            for form in ("in_", "not_in"):
                want = [r["id"] for r in rows if (r["s"] in low) == (form == "in_")]
                for delivery in ("bound", "literal_binds", "cached"):
                    desc = {"members": members, "form": form, "delivery": delivery}
                    sql = None
                    try:
                        if delivery == "cached":
                            res = conn.execute(cached[form], {"v": list(members)})
                            sql = res.context.statement
                            got = [r[0] for r in res.cursor.fetchall()]
                            res.close()
                        else:
                            st = sa.select(be.c.id).where(getattr(be.c.s, form)(list(members))).order_by(be.c.id)
                            if delivery == "bound":
                                res = conn.execute(st)
                                sql = res.context.statement
                                got = [r[0] for r in res.cursor.fetchall()]
                                res.close()
                            else:
                                sql = str(st.compile(rig.eng, compile_kwargs={"literal_binds": True}))
                                got = [r[0] for r in conn.exec_driver_sql(sql)]
                    except sa.exc.SQLAlchemyError as e:
                        if not members and delivery in ("bound", "cached"):
                            _candidate(ctx, "sqlite-error:empty-in-bind-expression-type",
                                       f"{form}([]) against a type with bind_expression(): {str(e)[:200]}", dict(desc, sql=sql))
                        else:
                            ctx.violation(f"sqlite-bind-expression-type-error:{delivery}", f"{type(e).__name__}: {str(e)[:200]}", dict(desc, sql=sql))
                        continue
                    ctx.case(desc, nontrivial=True)
                    ctx.count("bind_expression_type_cases")
                    if got != want:
                        ctx.violation(f"sqlite-bind-expression-type-value:{delivery}", f"s.{form}({members!r}) {delivery}: ids {got} want {want} :: {sql}",
                                      dict(desc, sql=sql, got=got, want=want))
        # (d) untyped tuple IN through text() rendered with literal_binds
        st = sa.text("SELECT id FROM be WHERE (a, b) IN :pairs ORDER BY id").bindparams(sa.bindparam("pairs", expanding=True))
        for pairs in ([(1, 2)], [(1, 2), (3, 4)], [(1, 4), (9, 9)]):
            want = [r["id"] for r in rows if (r["a"], r["b"]) in pairs]
            desc = {"pairs": pairs, "delivery": "literal_binds"}
            try:
                sql = str(st.bindparams(pairs=list(pairs)).compile(rig.eng, compile_kwargs={"literal_binds": True}))
                got = [r[0] for r in conn.exec_driver_sql(sql)]
            except sa.exc.CompileError:
                ctx.count("untyped_tuple_literal_refused")  # a clean refusal is acceptable (no literal renderer for NullType)
                continue
            except (AttributeError, TypeError) as e:
                _candidate(ctx, "internal-error:untyped-tuple-in-literal-binds", f"{type(e).__name__}: {e}", desc)
                continue
            ctx.count("bind_expression_type_cases")
            if got != want:
                ctx.violation("sqlite-untyped-tuple-literal-value", f"(a, b) IN {pairs!r} literal_binds: ids {got} want {want} :: {sql}", dict(desc, sql=sql))
    finally:
        md.drop_all(conn)
        conn.commit()



def _how(delivery):
    return "literal" if delivery in ("literal_binds", "literal_execute") else ("rebound" if delivery == "cached" else "bound")


def _nontrivial(arity, values):
    flat = [e for v in values for e in ((v,) if arity == 1 else v)]
    return (not values) or None in flat or len(set(map(repr, values))) < len(values) or arity > 1


def _run_sqlite(ctx, rig, sa):
    from sqlalchemy.engine.cursor import CursorResult  # noqa: F401

    maxlen = {1: ctx.pick({"quick": 3, "thorough": 5}), 2: ctx.pick({"quick": 2, "thorough": 3}), 3: ctx.pick({"quick": 2, "thorough": 2})}
    idx = 0
    cached_stmts = {}
    last_len = {}
    for arity in (1, 2, 3):
        for values in all_lists(arity, maxlen[arity]):
            for form in FORMS:
                idx += 1
                if not ctx.mine(idx):
                    continue
                if not ctx.budget_ok():
                    return
                # reference truth per row, from the explicit form, computed once
                ref = rig.ref_expr(arity, form, values)
                truth = rig.raw(rig.conn.execute(sa.select(rig.m.c.id, ref.label("v")).order_by(rig.m.c.id)))
                ctx.count("null_truth_values_seen", sum(1 for _, v in truth if v is None))
                if not values:
                    ctx.count("empty_lists")
                for position in POSITIONS:
                    want = expected_from_truth(position, truth)
                    for delivery in DELIVERIES:
                        desc = {"arity": arity, "values": values, "form": form, "position": position, "delivery": delivery}
                        got, sql = _deliver(ctx, rig, sa, arity, form, values, position, delivery, cached_stmts, last_len)
                        ctx.case(desc, nontrivial=_nontrivial(arity, values))
                        if isinstance(got, Exception):
                            ctx.violation(
                                _mech("error", arity, values, form, delivery),
                                f"IN form raised {type(got).__name__}: {str(got)[:160]} :: {sql}",
                                dict(desc, sql=sql, error=str(got)[:400]),
                            )
                            continue
                        ctx.count("truth_values_compared", len(truth))
                        if got != want:
                            diff = next(((g, w) for g, w in itertools.zip_longest(got, want) if g != w), None)
                            op = next((r for r in rig.rows if diff and diff[0] and r["id"] == (diff[0] or diff[1])[0]), None)
                            ctx.violation(
                                _mech("value", arity, values, form, delivery),
                                f"{form} {values} at {position}/{delivery}: first differing row got={diff[0]} want={diff[1]} operand={op} :: {sql}",
                                dict(desc, sql=sql, got=got[:8], want=want[:8], operand=op),
                            )
                if idx % 97 == 0:
                    ctx.sample({"arity": arity, "values": values, "form": form, "truth_first_rows": truth[:6]})


def _mech(kind, arity, values, form, delivery):
    """(how it broke) x (scalar/tuple) x (empty / with NULL / plain list) x (bound / literal rendering)"""
    flat = [e for v in values for e in ((v,) if arity == 1 else v)]
    shape = "empty" if not values else ("with-null" if None in flat else "plain")
    how = "literal" if delivery in ("literal_binds", "literal_execute") else ("rebound" if delivery == "cached" else "bound")
    return f"sqlite-{kind}:{'tuple' if arity > 1 else 'scalar'}-{shape}-{how}"


def _deliver(ctx, rig, sa, arity, form, values, position, delivery, cached_stmts, last_len):
    sql = None
    try:
        if delivery == "inline":
            st = rig.statement(position, rig.in_expr(arity, form, list(values)))
            sql = str(st.compile(rig.eng))
            res = rig.conn.execute(st)
            if res.context.cache_hit is sa.engine.interfaces.CacheStats.CACHE_HIT:
                ctx.count("cache_hits")
            return rig.raw(res), sql
        if delivery == "literal_binds":
            st = rig.statement(position, rig.in_expr(arity, form, list(values)))
            sql = str(st.compile(rig.eng, compile_kwargs={"literal_binds": True}))
            return rig.raw(rig.conn.exec_driver_sql(sql)), sql
        if delivery == "literal_execute":
            bp = sa.bindparam("vals", value=list(values), expanding=True, literal_execute=True)
            st = rig.statement(position, rig.in_expr(arity, form, bp))
            res = rig.conn.execute(st)
            sql = res.context.statement
            return rig.raw(res), sql
        if delivery == "cached":
            key = (arity, form, position)
            st = cached_stmts.get(key)
            if st is None:
                bp = sa.bindparam("vals", expanding=True)
                st = cached_stmts[key] = rig.statement(position, rig.in_expr(arity, form, bp))
            res = rig.conn.execute(st, {"vals": list(values)})
            sql = res.context.statement
            if res.context.cache_hit is sa.engine.interfaces.CacheStats.CACHE_HIT:
                ctx.count("cache_hits")
                if last_len.get(key) is not None and last_len[key] != len(values):
                    ctx.count("rebinds_changed_length")
            last_len[key] = len(values)
            return rig.raw(res), sql
    except (sa.exc.SQLAlchemyError, NotImplementedError) as e:
        return e, sql
    raise ValueError(delivery)


# ---------------------------------------------------------------------------
# other dialects: DBAPI boundary
# ---------------------------------------------------------------------------
FAKE_URLS = {
    "postgresql": "postgresql+psycopg2://u:p@h/db",
    "mysql": "mysql+pymysql://u:p@h/db",
    "mssql": "mssql+pyodbc://u:p@dsn",
    "oracle": "oracle+oracledb://u:p@h/?service_name=x",
}


def _run_fake(ctx, rig, sa):
    from vf.mon import sqltok_ga as T
    from vf.mon.fake_dbapi import recording_engine

    for di, (name, url) in enumerate(sorted(FAKE_URLS.items())):
        if not ctx.mine(di):
            continue
        try:
            eng, fake = recording_engine(url)
        except Exception as e:  # driver stub missing in this sandbox: counted, not a verdict
            ctx.count("fake_engine_unavailable")
            ctx.seen("fake_engine_errors", f"{name}:{type(e).__name__}")
            continue
        md = sa.MetaData()
        m = sa.Table("m", md, sa.Column("id", sa.Integer, primary_key=True), sa.Column("x", sa.Integer),
                     sa.Column("y", sa.Integer), sa.Column("z", sa.Integer))
        paramstyle = eng.dialect.paramstyle
        with eng.connect() as conn:
            for arity in (1, 2):
                cols = [m.c.x, m.c.y][:arity]
                L = cols[0] if arity == 1 else sa.tuple_(*cols)
                stmts = {
                    "in": sa.select(m.c.id).where(L.in_(sa.bindparam("vals", expanding=True))),
                    "not_in": sa.select(m.c.id).where(L.not_in(sa.bindparam("vals", expanding=True))),
                }
                for values in all_lists(arity, 3 if arity == 1 else 2):
                    for form, st in stmts.items():
                        mark = fake.mark()
                        try:
                            conn.execute(st, {"vals": list(values)})
                        except sa.exc.SQLAlchemyError as e:
                            ctx.violation(f"{name}-error:{'tuple' if arity > 1 else 'scalar'}-{form}-{'empty' if not values else 'plain'}",
                                          f"{type(e).__name__}: {str(e)[:200]}", {"dialect": name, "values": values, "form": form})
                            continue
                        evs = fake.since(mark, ("execute",))
                        sql, params = evs[-1].sql, evs[-1].params
                        ctx.count("fake_statements_judged")
                        desc = {"dialect": name, "arity": arity, "values": values, "form": form, "sql": sql, "params": params}
                        ctx.case({"dialect": name, "arity": arity, "values": values, "form": form}, nontrivial=_nontrivial(arity, values))
                        toks = T.lex(sql, name, paramstyle=paramstyle)
                        ph = [t for t in toks if t.kind == "param"]
                        flat = [e for v in values for e in ((v,) if arity == 1 else v)]
                        if len(ph) != len(flat):
                            ctx.violation(f"{name}-placeholder-count:{'tuple' if arity > 1 else 'scalar'}-{'empty' if not values else 'plain'}",
                                          f"{len(ph)} placeholders for {len(flat)} values :: {sql}", desc)
                            continue
                        got = T.param_values(ph, params, paramstyle)
                        if got != flat:
                            ctx.violation(f"{name}-parameter-order:{'tuple' if arity > 1 else 'scalar'}",
                                          f"parameters {got} for list {flat} :: {sql} {params}", desc)
                        if not values:
                            _transplant_empty(ctx, rig, sa, T, name, paramstyle, sql, form, arity, desc)
        eng.dispose()


def _transplant_empty(ctx, rig, sa, T, name, paramstyle, sql, form, arity, desc):
    """execute the dialect's empty-set WHERE fragment on SQLite: FALSE (IN) / TRUE (NOT IN) on every row."""
    frag = T.where_fragment(sql, name, paramstyle)
    if frag is None or not T.is_plain_sql(frag, name, paramstyle):
        ctx.count("empty_fragment_not_plain")
        ctx.seen("empty_fragment_not_plain_examples", f"{name}:{sql}")
        return
    text = T.to_sqlite_text(frag, name, paramstyle)
    try:
        rows = rig.conn.exec_driver_sql(f"SELECT m.id, ({text}) FROM m ORDER BY m.id").fetchall()
    except sa.exc.DBAPIError as e:
        ctx.count("empty_fragment_not_executable_on_sqlite")
        ctx.seen("empty_fragment_not_executable_examples", f"{name}:{text}:{str(e.orig)[:60]}")
        return
    ctx.count("empty_fragment_transplants")
    want = 1 if form == "not_in" else 0
    bad = [r for r in rows if r[1] != want]
    if bad:
        ctx.violation(f"{name}-empty-set-not-constant:{'tuple' if arity > 1 else 'scalar'}-{form}",
                      f"empty {form} fragment `{text}` evaluates to {bad[0][1]!r} for row id {bad[0][0]} (want {want})",
                      dict(desc, fragment=text))
