"""C08 -- LIKE-based string operators with autoescape match literal semantics.

Executed on SQLite (deciding part).  Table ``h`` holds every string over the alphabet
``a B % _ / \\ ' " [ ^`` up to length 3 (quick) / 4 (thorough) plus a NULL.  For every
needle up to length 2 (quick) / 3 (thorough) over the same alphabet (plus seeded random
longer ones), every operator (contains / startswith / endswith and the i-variants) and
their six ``not_`` forms -- each written in three spellings that rotate over the
needles: the method (``col.contains(x)`` / ``~col.contains(x)``), the operator function
(``operators.not_iendswith_op(col, x, autoescape=True)``) and ``col.operate(fn, x, ...)`` --
and three escape configurations

  auto      ``autoescape=True``                        (default escape ``/``)
  auto+esc  ``autoescape=True, escape=<one of / \\ ^ #>``
  manual    ``escape=<c>`` with the needle escaped here by the documented rule
            (c before ``%``, ``_`` and c)

the set of matched ids must equal the set computed with Python ``in`` / ``startswith`` /
``endswith`` (ASCII-lower-cased on both sides for the i-variants).  Needles are delivered
bound and through ``literal_binds``.  Case-sensitive operators run on a connection with
``PRAGMA case_sensitive_like=ON`` (the statement asks for the case-sensitive
configuration); the i-variants run under both settings.  The negated spellings
(``~x.contains(...)``) are exercised on a sample and must return the complement among the
non-NULL rows.

Other dialects (no server): the operator is executed on a recording DBAPI; the pattern
is reconstructed from the recorded (sql, params) with the dialect's lexer (string
literals + placeholders between LIKE and ESCAPE), the ESCAPE character is read from the
statement, and a reference LIKE matcher (standard LIKE..ESCAPE semantics; T-SQL ``[set]``
wildcards for mssql) must accept exactly the haystacks the Python predicate accepts.

Guards: the escape character is never ``%`` or ``_``; non-ASCII is not generated (the
statement restricts case folding to ASCII); for Oracle the empty haystack is skipped
('' is NULL there).  A needle given as a column expression cannot be combined with
autoescape (the API raises TypeError by design) and is not part of the workload.
"""
from __future__ import annotations

import itertools

META = {
    "id": "C08",
    "level": "exploration",
    "technique": "exhaustive execution on SQLite of contains/startswith/endswith (+i-variants) with autoescape / explicit escape against Python substring predicates; reference LIKE matcher on the recorded pattern for PG/MySQL/MSSQL/Oracle",
    "level_text": "All (haystack, needle) pairs over a 10-character alphabet rich in wildcard, escape and quote characters within the stated length bounds, six operators, three escape configurations with four escape characters, two delivery forms; the needle space is enumerated completely for the bound, each query is judged on every haystack row.",
    "level_note": "Only SQLite executes. For PG/MySQL/MSSQL/Oracle the pattern handed to the driver is decoded with the token model and judged by a reference LIKE matcher (trusted: standard LIKE/ESCAPE semantics, T-SQL bracket sets). ASCII only.",
    "design_ref": "DESIGN.md section 4, C08",
    "rule": "case = (operator, escape config, escape char, needle, delivery); non-trivial = needle contains %, _, the escape character, a quote or a backslash; distinct by that tuple",
    "shards": {"quick": 8, "thorough": 16},
    "soft_s": {"quick": 50, "thorough": 800},
    "exhaustive": {"quick": True, "thorough": True},
    "require": ["queries_judged", "pairs_judged", "rows_matched", "needles_with_wildcards", "needles_with_escape_char",
                "spelling_method", "spelling_function", "spelling_operate",
                "fake_patterns_judged", "case_sensitive_pragma_verified"],
    "assumptions": ["SQLite LIKE implements standard % / _ / ESCAPE semantics (ASCII)"],
}

ALPHABET = ["a", "B", "%", "_", "/", "\\", "'", '"', "[", "^"]
OPS = ("contains", "startswith", "endswith", "icontains", "istartswith", "iendswith")
# the twelve operator functions of sqlalchemy.sql.operators: the six above and their not_ forms
OPS12 = OPS + tuple("not_" + o for o in OPS)
SPELLINGS = ("method", "function", "operate")
ESCAPES = ("/", "\\", "^", "#")


def strings(maxlen):
    for n in range(0, maxlen + 1):
        for tup in itertools.product(ALPHABET, repeat=n):
            yield "".join(tup)


def split_op(op):
    """'not_iendswith' -> (True, 'iendswith')"""
    return (True, op[4:]) if op.startswith("not_") else (False, op)


def py_pred(op, hay, needle):
    neg, op = split_op(op)
    if neg:
        return not py_pred(op, hay, needle)
    if op.startswith("i"):
        op, hay, needle = op[1:], hay.lower(), needle.lower()
    if op == "contains":
        return needle in hay
    if op == "startswith":
        return hay.startswith(needle)
    return hay.endswith(needle)


def manual_escape(needle, esc):
    return needle.replace(esc, esc + esc).replace("%", esc + "%").replace("_", esc + "_")


def feature(needle, esc):
    if esc in needle:
        return "escape-char-in-needle"
    for ch, nm in (("%", "percent"), ("_", "underscore"), ("\\", "backslash"), ("'", "quote"), ('"', "dquote"), ("[", "bracket")):
        if ch in needle:
            return nm
    return "plain"


def coarse(needle, esc):
    """value class used in mechanism names: one defect -> few names"""
    f = feature(needle, esc)
    if f == "escape-char-in-needle":
        return "escape-char"
    if f in ("percent", "underscore"):
        return "wildcard"
    return "other"


def build(col, op, config, esc, needle, spelling="method"):
    """three spellings of the same operator:
      method    col.contains(x, ...)            (not_ forms: ~col.contains(x, ...))
      function  operators.contains_op(col, x, ...)   / operators.not_contains_op(col, x, ...)
      operate   col.operate(operators.contains_op, x, ...)
    """
    from sqlalchemy.sql import operators

    if config == "auto":
        arg, kw = needle, {"autoescape": True}
    elif config == "auto+esc":
        arg, kw = needle, {"autoescape": True, "escape": esc}
    else:
        arg, kw = manual_escape(needle, esc), {"escape": esc}
    neg, base = split_op(op)
    if spelling == "method":
        e = getattr(col, base)(arg, **kw)
        return ~e if neg else e
    fn = getattr(operators, op + "_op")
    if spelling == "function":
        return fn(col, arg, **kw)
    return col.operate(fn, arg, **kw)


def run(ctx):
    import warnings

    warnings.simplefilter("ignore")
    import sqlalchemy as sa

    md = sa.MetaData()
    h = sa.Table("h", md, sa.Column("id", sa.Integer, primary_key=True), sa.Column("s", sa.String(20)))
    eng = sa.create_engine("sqlite://", poolclass=sa.pool.StaticPool)
    hay = list(strings(ctx.pick({"quick": 3, "thorough": 4})))
    if ctx.thorough:
        # 11111 rows per query is too slow for the full needle space: all strings up to 3
        # plus a seeded sample of the length-4 ones
        base = [s for s in hay if len(s) <= 3]
        four = [s for s in hay if len(s) == 4]
        hay = base + ctx.rng.sample(four, 1500)
    rows = [dict(id=i + 1, s=s) for i, s in enumerate(hay)]
    rows.append(dict(id=len(rows) + 1, s=None))
    nonnull_ids = {r["id"] for r in rows if r["s"] is not None}
    conn = eng.connect()
    try:
        md.create_all(conn)
        conn.execute(h.insert(), rows)
        conn.commit()
        _run_sqlite(ctx, sa, conn, h, rows, nonnull_ids)
    finally:
        conn.close()
        eng.dispose()
    _run_fake(ctx, sa, [r["s"] for r in rows if r["s"] is not None and len(r["s"]) <= 2])


def _set_pragma(ctx, conn, on):
    conn.exec_driver_sql("PRAGMA case_sensitive_like=%s" % ("ON" if on else "OFF"))
    got = conn.exec_driver_sql("SELECT 'a' LIKE 'A'").scalar()
    if got != (0 if on else 1):
        raise RuntimeError("case_sensitive_like pragma did not take effect")
    ctx.count("case_sensitive_pragma_verified")


def sp(spelling):
    return "" if spelling == "method" else ":" + spelling


def _run_sqlite(ctx, sa, conn, h, rows, nonnull_ids):
    rng = ctx.rng
    needles = list(strings(ctx.pick({"quick": 2, "thorough": 3})))
    extra = ctx.pick({"quick": 40, "thorough": 400})
    for _ in range(extra):
        needles.append("".join(rng.choice(ALPHABET) for _ in range(rng.randint(3, 6))))
    idx = 0
    pragma_state = None
    for cs in (True, False):
        for ni, needle in enumerate(needles):
            for oi, op in enumerate(OPS12):
                insensitive = split_op(op)[1].startswith("i")
                if not cs and (not insensitive or ni % 2):
                    continue
                # every (operator, spelling) pair is reached: the spelling rotates with the needle
                spelling = SPELLINGS[(ni + oi) % 3]
                for config in ("auto", "auto+esc", "manual"):
                    idx += 1
                    if not ctx.mine(idx):
                        continue
                    if not ctx.budget_ok():
                        return
                    if pragma_state != cs:
                        _set_pragma(ctx, conn, cs)
                        pragma_state = cs
                    esc = "/" if config == "auto" else ESCAPES[(idx // 7) % len(ESCAPES)]
                    literal = (idx // 3) % 2 == 1
                    negate = idx % 11 == 0
                    desc = {"op": op, "spelling": spelling, "config": config, "escape": esc, "needle": needle, "literal": literal, "cs": cs, "negated": negate}
                    expr = build(h.c.s, op, config, esc, needle, spelling)
                    ctx.count("spelling_" + spelling)
                    if negate:
                        expr = ~expr
                    st = sa.select(h.c.id).where(expr)
                    try:
                        if literal:
                            sql = str(st.compile(conn.engine, compile_kwargs={"literal_binds": True}))
                            got = {r[0] for r in conn.exec_driver_sql(sql)}
                        else:
                            sql = str(st.compile(conn.engine))
                            got = {r[0] for r in conn.execute(st)}
                    except sa.exc.SQLAlchemyError as e:
                        ctx.violation(f"sqlite-like-error:{op}{sp(spelling)}:{coarse(needle, esc)}",
                                      f"{type(e).__name__}: {str(e)[:200]}", desc)
                        continue
                    want = {r["id"] for r in rows if r["s"] is not None and py_pred(op, r["s"], needle)}
                    if negate:
                        want = nonnull_ids - want
                    nt = feature(needle, esc) != "plain"
                    ctx.case(desc, nontrivial=nt)
                    ctx.count("queries_judged")
                    ctx.count("pairs_judged", len(rows))
                    ctx.count("rows_matched", len(got))
                    if "%" in needle or "_" in needle:
                        ctx.count("needles_with_wildcards")
                    if esc in needle:
                        ctx.count("needles_with_escape_char")
                    ctx.seen("op_config", f"{op}/{spelling}/{config}/{esc}/{'lit' if literal else 'bound'}")
                    if got != want:
                        extra_ids = sorted(got - want)[:3]
                        missing = sorted(want - got)[:3]
                        byid = {r["id"]: r["s"] for r in rows}
                        ctx.violation(
                            f"sqlite-like:{op}{sp(spelling)}:{coarse(needle, esc)}",
                            f"{op}({needle!r}, {config}, escape={esc!r}) spelled as {spelling}, {'literal' if literal else 'bound'}: "
                            f"wrongly matched {[byid[i] for i in extra_ids]} missed {[byid[i] for i in missing]} :: {sql}",
                            dict(desc, sql=sql, wrongly_matched=[byid[i] for i in extra_ids], missed=[byid[i] for i in missing]),
                        )
                    if idx % 501 == 0:
                        ctx.sample(dict(desc, sql=sql, matched=len(got)))


FAKE_URLS = {
    "postgresql": "postgresql+psycopg2://u:p@h/db",
    "mysql": "mysql+pymysql://u:p@h/db",
    "mssql": "mssql+pyodbc://u:p@dsn",
    "oracle": "oracle+oracledb://u:p@h/?service_name=x",
}


def decode_like(T, sql, params, dialect, paramstyle):
    """-> (pattern, escape, casefold, negated) reconstructed from the WHERE clause of
    the recorded statement."""
    toks = T.where_tokens(sql, dialect, paramstyle)
    li = next(i for i, t in enumerate(toks) if t.kind == "kw" and t.text in ("LIKE", "ILIKE"))
    negated = li > 0 and toks[li - 1].kind == "kw" and toks[li - 1].text == "NOT"
    casefold = toks[li].text == "ILIKE" or any(t.kind == "ident" and t.text.lower() == "lower" for t in toks[:li])
    ei = next((i for i, t in enumerate(toks) if t.kind == "kw" and t.text == "ESCAPE"), None)
    pat_toks = toks[li + 1: ei if ei is not None else len(toks)]
    parts = []
    for t in pat_toks:
        if t.kind == "string":
            parts.append(t.value)
        elif t.kind == "param":
            parts.append(T.param_values([t], params, paramstyle)[0])
        elif t.kind == "ident" and t.text.lower() in ("lower", "concat"):
            continue
        elif (t.kind == "op" and t.text in ("||", "+")) or (t.kind == "punct" and t.text in "(),"):
            continue
        else:
            raise ValueError(f"unexpected token in LIKE pattern: {t!r}")
    esc = None
    if ei is not None:
        et = toks[ei + 1]
        if et.kind != "string" or len(et.value) != 1:
            raise ValueError(f"ESCAPE operand is not a one-character literal: {et!r}")
        esc = et.value
    return "".join(parts), esc, casefold, negated


def _run_fake(ctx, sa, haystacks):
    from vf.mon import sqltok_ga as T
    from vf.mon.fake_dbapi import recording_engine

    rng = ctx.rng
    needles = list(strings(2))
    md = sa.MetaData()
    h = sa.Table("h", md, sa.Column("id", sa.Integer, primary_key=True), sa.Column("s", sa.String(20)))
    jobs = list(sorted(FAKE_URLS.items()))
    for di, (name, url) in enumerate(jobs):
        if not ctx.mine(di):
            continue
        eng, fake = recording_engine(url)
        paramstyle = eng.dialect.paramstyle
        hays = [s for s in haystacks if not (name == "oracle" and s == "")]
        k = 0
        with eng.connect() as conn:
            for ni, needle in enumerate(needles):
                for oi, op in enumerate(OPS12):
                    spelling = SPELLINGS[(ni + oi) % 3]
                    for config in ("auto", "auto+esc", "manual"):
                        k += 1
                        if ctx.quick and (ni + (k % 3)) % 3 != ctx.seed % 3:
                            continue
                        if not ctx.budget_ok():
                            return
                        esc = "/" if config == "auto" else ESCAPES[(k // 5) % len(ESCAPES)]
                        desc = {"dialect": name, "op": op, "spelling": spelling, "config": config, "escape": esc, "needle": needle}
                        st = sa.select(h.c.id).where(build(h.c.s, op, config, esc, needle, spelling))
                        mark = fake.mark()
                        conn.execute(st)
                        ev = fake.since(mark, ("execute",))[-1]
                        try:
                            pattern, e2, casefold, negated = decode_like(T, ev.sql, ev.params, name, paramstyle)
                            items = T.like_compile(pattern, e2, name)
                        except (ValueError, T.LexError, StopIteration) as e:
                            ctx.violation(f"{name}-like-undecodable:{coarse(needle, esc)}",
                                          f"{type(e).__name__}: {e} :: {ev.sql} {ev.params!r}", dict(desc, sql=ev.sql, params=ev.params))
                            continue
                        ctx.count("fake_patterns_judged")
                        ctx.case(desc, nontrivial=feature(needle, esc) != "plain")
                        insensitive = split_op(op)[1].startswith("i")
                        if insensitive != casefold:
                            ctx.violation(f"{name}-like-case-handling:{op}{sp(spelling)}", f"casefold={casefold} for {op} :: {ev.sql}", dict(desc, sql=ev.sql))
                            continue
                        bad = [s for s in hays if (T.like_match(items, s, casefold) != negated) != py_pred(op, s, needle)]
                        if bad:
                            ctx.violation(
                                f"{name}-like:{op}{sp(spelling)}:{coarse(needle, esc)}",
                                f"{op}({needle!r},{config},escape={esc!r}) on {name}: pattern {pattern!r} ESCAPE {e2!r} disagrees with Python on {bad[:3]} :: {ev.sql} {ev.params!r}",
                                dict(desc, sql=ev.sql, params=ev.params, pattern=pattern, disagree=bad[:5]),
                            )
        eng.dispose()
