"""C08 -- LIKE-based string operators with autoescape match literal semantics.

Executed on SQLite (deciding part).  Table ``h`` holds every string over the alphabet
``a B % _ / \\ ' " [ ^`` up to length 3 (quick) / 4 (thorough) plus a NULL.  For every
needle up to length 2 (quick) / 3 (thorough) over the same alphabet (plus seeded random
longer ones), every operator (contains / startswith / endswith and the i-variants) and
their six ``not_`` forms -- each written in three spellings that rotate over the
needles: the method (``col.contains(x)`` / ``~col.contains(x)``), the operator function
(``operators.not_iendswith_op(col, x, autoescape=True)``) and ``col.operate(fn, x, ...)`` --
and three escape configurations

  auto      ``autoescape=True``                        (default escape ``/``)
  auto+esc  ``autoescape=True, escape=<one of / \\ ^ #>``
  manual    ``escape=<c>`` with the needle escaped here by the documented rule
            (c before ``%``, ``_`` and c)

the set of matched ids must equal the set computed with Python ``in`` / ``startswith`` /
``endswith`` (ASCII-lower-cased on both sides for the i-variants).  Needles are delivered
bound and through ``literal_binds``.  Case-sensitive operators run on a connection with
``PRAGMA case_sensitive_like=ON`` (the statement asks for the case-sensitive
configuration); the i-variants run under both settings.  The negated spellings
(``~x.contains(...)``) are exercised on a sample and must return the complement among the
non-NULL rows.

The alphabet holds both cases of one letter (a / A), so rows and operands differ in ASCII
case only: the i-variants must still match them under ``case_sensitive_like=ON``
(counter ``insensitive_under_case_sensitive_pragma``).  Plain ``like`` / ``ilike`` /
``not_like`` / ``not_ilike`` with a caller-built prefix pattern (manually escaped needle +
``%``, or no ESCAPE at all for needles free of ``% _ \\``) complete the sixteen operator
functions.  Multi-predicate statements: 2-4 LIKE-family predicates in ONE statement,
mixing operators, spellings, escape characters, autoescape on/off and like() without
ESCAPE, combined by AND / OR / AND NOT / nested / CASE; each predicate must declare and use
its own ESCAPE (model: the Python predicates combined the same way; on the recording
DBAPIs conjunctions are split at the top-level ANDs and every conjunct is decoded).

Other dialects (no server): the operator is executed on a recording DBAPI; the pattern
is reconstructed from the recorded (sql, params) with the dialect's lexer (string
literals + placeholders between LIKE and ESCAPE), the ESCAPE character is read from the
statement, and a reference LIKE matcher (standard LIKE..ESCAPE semantics; T-SQL ``[set]``
wildcards for mssql) must accept exactly the haystacks the Python predicate accepts.

Guards: the escape character is never ``%`` or ``_``; non-ASCII is not generated (the
statement restricts case folding to ASCII); for Oracle the empty haystack is skipped
('' is NULL there).  A needle given as a column expression cannot be combined with
autoescape (the API raises TypeError by design) and is not part of the workload.
"""
from __future__ import annotations

import itertools

META = {
    "id": "C08",
    "level": "exploration",
    "technique": "exhaustive execution on SQLite of contains/startswith/endswith (+i-variants) with autoescape / explicit escape against Python substring predicates; reference LIKE matcher on the recorded pattern for PG/MySQL/MSSQL/Oracle",
    "level_text": "All (haystack, needle) pairs over a 10-character alphabet rich in wildcard, escape and quote characters within the stated length bounds, six operators, three escape configurations with four escape characters, two delivery forms; the needle space is enumerated completely for the bound, each query is judged on every haystack row.",
    "level_note": "Only SQLite executes. For PG/MySQL/MSSQL/Oracle the pattern handed to the driver is decoded with the token model and judged by a reference LIKE matcher (trusted: standard LIKE/ESCAPE semantics, T-SQL bracket sets). ASCII only.",
    "design_ref": "DESIGN.md section 4, C08",
    "rule": "case = (operator, escape config, escape char, needle, delivery); non-trivial = needle contains %, _, the escape character, a quote or a backslash; distinct by that tuple",
    "shards": {"quick": 8, "thorough": 16},
    "soft_s": {"quick": 50, "thorough": 800},
    "exhaustive": {"quick": True, "thorough": True},
    "require": ["queries_judged", "pairs_judged", "rows_matched", "needles_with_wildcards", "needles_with_escape_char",
                "spelling_method", "spelling_function", "spelling_operate", "insensitive_under_case_sensitive_pragma",
                "multi_predicate_statements", "multi_predicate_mixed_escapes", "fake_multi_predicate_statements",
                "fake_patterns_judged", "case_sensitive_pragma_verified"],
    "assumptions": ["SQLite LIKE implements standard % / _ / ESCAPE semantics (ASCII)"],
}

# both cases of one letter ("a" / "A") so that rows and operands can differ in ASCII case only
ALPHABET = ["a", "A", "B", "%", "_", "/", "\\", "'", '"', "[", "^"]
OPS = ("contains", "startswith", "endswith", "icontains", "istartswith", "iendswith")
# the twelve operator functions of sqlalchemy.sql.operators: the six above and their not_ forms
OPS12 = OPS + tuple("not_" + o for o in OPS)
# plain like()/ilike() and their negations with a caller-built prefix pattern
# (escaped needle + "%"): the remaining four LIKE-family operator functions
LIKE_OPS = ("like", "ilike", "not_like", "not_ilike")
ALL_OPS = OPS12 + LIKE_OPS
SPELLINGS = ("method", "function", "operate")
ESCAPES = ("/", "\\", "^", "#")


def strings(maxlen):
    for n in range(0, maxlen + 1):
        for tup in itertools.product(ALPHABET, repeat=n):
            yield "".join(tup)


def split_op(op):
    """'not_iendswith' -> (True, 'iendswith')"""
    return (True, op[4:]) if op.startswith("not_") else (False, op)


def py_pred(op, hay, needle):
    neg, op = split_op(op)
    if neg:
        return not py_pred(op, hay, needle)
    if op.startswith("i"):
        op, hay, needle = op[1:], hay.lower(), needle.lower()
    if op == "contains":
        return needle in hay
    if op in ("startswith", "like"):
        return hay.startswith(needle)
    return hay.endswith(needle)


def manual_escape(needle, esc):
    return needle.replace(esc, esc + esc).replace("%", esc + "%").replace("_", esc + "_")


def feature(needle, esc):
    if esc in needle:
        return "escape-char-in-needle"
    for ch, nm in (("%", "percent"), ("_", "underscore"), ("\\", "backslash"), ("'", "quote"), ('"', "dquote"), ("[", "bracket")):
        if ch in needle:
            return nm
    return "plain"


def coarse(needle, esc):
    """value class used in mechanism names: one defect -> few names"""
    f = feature(needle, esc)
    if f == "escape-char-in-needle":
        return "escape-char"
    if f in ("percent", "underscore"):
        return "wildcard"
    return "other"


def configs_for(op, needle):
    if split_op(op)[1] in ("like", "ilike"):
        # without an ESCAPE clause only needles free of wildcards qualify (and free of the
        # backslash, which is the default escape character of PostgreSQL / MySQL)
        return ("manual",) if any(c in needle for c in "%_\\") else ("manual", "noescape")
    return ("auto", "auto+esc", "manual")


def build(col, op, config, esc, needle, spelling="method"):
    """three spellings of the same operator:
      method    col.contains(x, ...)            (not_ forms: ~col.contains(x, ...))
      function  operators.contains_op(col, x, ...)   / operators.not_contains_op(col, x, ...)
      operate   col.operate(operators.contains_op, x, ...)
    """
    from sqlalchemy.sql import operators

    neg, base = split_op(op)
    if base in ("like", "ilike"):
        # the caller builds the pattern: literal needle as a prefix
        if config == "noescape":
            assert "%" not in needle and "_" not in needle
            arg, kw = needle + "%", {}
        else:
            arg, kw = manual_escape(needle, esc) + "%", {"escape": esc}
    elif config == "auto":
        arg, kw = needle, {"autoescape": True}
    elif config == "auto+esc":
        arg, kw = needle, {"autoescape": True, "escape": esc}
    else:
        arg, kw = manual_escape(needle, esc), {"escape": esc}
    if spelling == "method":
        e = getattr(col, base)(arg, **kw)
        return ~e if neg else e
    fn = getattr(operators, op + "_op")
    if spelling == "function":
        return fn(col, arg, **kw)
    return col.operate(fn, arg, **kw)


def run(ctx):
    import warnings

    warnings.simplefilter("ignore")
    import sqlalchemy as sa

    md = sa.MetaData()
    h = sa.Table("h", md, sa.Column("id", sa.Integer, primary_key=True), sa.Column("s", sa.String(20)))
    eng = sa.create_engine("sqlite://", poolclass=sa.pool.StaticPool)
    hay = list(strings(ctx.pick({"quick": 3, "thorough": 4})))
    if ctx.thorough:
        # 11111 rows per query is too slow for the full needle space: all strings up to 3
        # plus a seeded sample of the length-4 ones
        base = [s for s in hay if len(s) <= 3]
        four = [s for s in hay if len(s) == 4]
        hay = base + ctx.rng.sample(four, 1500)
    rows = [dict(id=i + 1, s=s) for i, s in enumerate(hay)]
    rows.append(dict(id=len(rows) + 1, s=None))
    nonnull_ids = {r["id"] for r in rows if r["s"] is not None}
    conn = eng.connect()
    try:
        md.create_all(conn)
        conn.execute(h.insert(), rows)
        conn.commit()
        _run_sqlite(ctx, sa, conn, h, rows, nonnull_ids)
        _run_multi(ctx, sa, conn, h, rows)
    finally:
        conn.close()
        eng.dispose()
    _run_fake(ctx, sa, [r["s"] for r in rows if r["s"] is not None and len(r["s"]) <= 2])


def _set_pragma(ctx, conn, on):
    conn.exec_driver_sql("PRAGMA case_sensitive_like=%s" % ("ON" if on else "OFF"))
    got = conn.exec_driver_sql("SELECT 'a' LIKE 'A'").scalar()
    if got != (0 if on else 1):
        raise RuntimeError("case_sensitive_like pragma did not take effect")
    ctx.count("case_sensitive_pragma_verified")


def sp(spelling):
    return "" if spelling == "method" else ":" + spelling


def _run_sqlite(ctx, sa, conn, h, rows, nonnull_ids):
    rng = ctx.rng
    needles = list(strings(ctx.pick({"quick": 2, "thorough": 3})))
    extra = ctx.pick({"quick": 40, "thorough": 400})
    for _ in range(extra):
        needles.append("".join(rng.choice(ALPHABET) for _ in range(rng.randint(3, 6))))
    idx = 0
    pragma_state = None
    for cs in (True, False):
        for ni, needle in enumerate(needles):
            for oi, op in enumerate(ALL_OPS):
                insensitive = split_op(op)[1].startswith("i")
                if not cs and (not insensitive or ni % 2):
                    continue
                # every (operator, spelling) pair is reached: the spelling rotates with the needle
                spelling = SPELLINGS[(ni + oi) % 3]
                for config in configs_for(op, needle):
                    idx += 1
                    if not ctx.mine(idx):
                        continue
                    if not ctx.budget_ok():
                        return
                    if pragma_state != cs:
                        _set_pragma(ctx, conn, cs)
                        pragma_state = cs
                    esc = "/" if config == "auto" else ESCAPES[(idx // 7) % len(ESCAPES)]
                    if needle.lower() != needle or needle.upper() != needle:
                        ctx.count("needles_with_letters")
                        if insensitive and cs:
                            ctx.count("insensitive_under_case_sensitive_pragma")
                    literal = (idx // 3) % 2 == 1
                    negate = idx % 11 == 0
                    desc = {"op": op, "spelling": spelling, "config": config, "escape": esc, "needle": needle, "literal": literal, "cs": cs, "negated": negate}
                    expr = build(h.c.s, op, config, esc, needle, spelling)
                    ctx.count("spelling_" + spelling)
                    if negate:
                        expr = ~expr
                    st = sa.select(h.c.id).where(expr)
                    try:
                        if literal:
                            sql = str(st.compile(conn.engine, compile_kwargs={"literal_binds": True}))
                            got = {r[0] for r in conn.exec_driver_sql(sql)}
                        else:
                            sql = str(st.compile(conn.engine))
                            got = {r[0] for r in conn.execute(st)}
                    except sa.exc.SQLAlchemyError as e:
                        ctx.violation(f"sqlite-like-error:{op}{sp(spelling)}:{coarse(needle, esc)}",
                                      f"{type(e).__name__}: {str(e)[:200]}", desc)
                        continue
                    want = {r["id"] for r in rows if r["s"] is not None and py_pred(op, r["s"], needle)}
                    if negate:
                        want = nonnull_ids - want
                    nt = feature(needle, esc) != "plain"
                    ctx.case(desc, nontrivial=nt)
                    ctx.count("queries_judged")
                    ctx.count("pairs_judged", len(rows))
                    ctx.count("rows_matched", len(got))
                    if "%" in needle or "_" in needle:
                        ctx.count("needles_with_wildcards")
                    if esc in needle:
                        ctx.count("needles_with_escape_char")
                    ctx.seen("op_config", f"{op}/{spelling}/{config}/{esc}/{'lit' if literal else 'bound'}")
                    if got != want:
                        extra_ids = sorted(got - want)[:3]
                        missing = sorted(want - got)[:3]
                        byid = {r["id"]: r["s"] for r in rows}
                        ctx.violation(
                            f"sqlite-like:{op}{sp(spelling)}:{coarse(needle, esc)}",
                            f"{op}({needle!r}, {config}, escape={esc!r}) spelled as {spelling}, {'literal' if literal else 'bound'}: "
                            f"wrongly matched {[byid[i] for i in extra_ids]} missed {[byid[i] for i in missing]} :: {sql}",
                            dict(desc, sql=sql, wrongly_matched=[byid[i] for i in extra_ids], missed=[byid[i] for i in missing]),
                        )
                    if idx % 501 == 0:
                        ctx.sample(dict(desc, sql=sql, matched=len(got)))


# ---------------------------------------------------------------------------
# several LIKE-family predicates in ONE statement
# ---------------------------------------------------------------------------
def random_predicate(rng, needles):
    op = rng.choice(ALL_OPS)
    needle = rng.choice(needles)
    config = rng.choice(configs_for(op, needle))
    esc = "/" if config == "auto" else rng.choice(ESCAPES)
    return {"op": op, "needle": needle, "config": config, "escape": None if config == "noescape" else esc,
            "spelling": rng.choice(SPELLINGS)}


def build_pred(col, p):
    return build(col, p["op"], p["config"], p["escape"] or "/", p["needle"], p["spelling"])


COMBINERS = ("and", "or", "and-not", "nested", "case", "and4")


def combine(sa, how, exprs):
    if how == "and":
        return sa.and_(*exprs[:2])
    if how == "or":
        return sa.or_(*exprs[:2])
    if how == "and-not":
        return sa.and_(exprs[0], sa.not_(exprs[1]))
    if how == "nested":
        return sa.or_(sa.and_(exprs[0], exprs[1]), exprs[2])
    if how == "case":
        return sa.case((exprs[0], exprs[1]), else_=exprs[2])
    return sa.and_(sa.or_(exprs[0], exprs[1]), sa.or_(exprs[2], exprs[3]))


def combine_py(how, b):
    if how == "and":
        return b[0] and b[1]
    if how == "or":
        return b[0] or b[1]
    if how == "and-not":
        return b[0] and not b[1]
    if how == "nested":
        return (b[0] and b[1]) or b[2]
    if how == "case":
        return b[1] if b[0] else b[2]
    return (b[0] or b[1]) and (b[2] or b[3])


NPRED = {"and": 2, "or": 2, "and-not": 2, "nested": 3, "case": 3, "and4": 4}


def _run_multi(ctx, sa, conn, h, rows):
    """2-4 LIKE-family predicates in one statement, mixing operators, spellings, escape
    characters, autoescape on/off and a plain like() without ESCAPE, combined with AND / OR /
    NOT / CASE: every predicate must declare and use its own ESCAPE.  SQLite, bound and
    literal_binds; model = the Python predicates combined the same way (the NULL row never
    matches: every predicate is NULL there)."""
    rng = ctx.rng
    needles = [n for n in strings(2)] + ["a%", "%_", "/a", "^%", "a^", "A/", "\\_", "#a", "a_B"]
    _set_pragma(ctx, conn, True)
    n = ctx.pick({"quick": 110, "thorough": 1500})
    for k in range(n):
        if not ctx.budget_ok():
            return
        how = COMBINERS[k % len(COMBINERS)]
        preds = [random_predicate(rng, needles) for _ in range(NPRED[how])]
        if k % 2 == 0:  # force two different escape declarations into the statement
            preds[0]["config"], preds[0]["escape"] = ("manual", "^") if split_op(preds[0]["op"])[1] in ("like", "ilike") else ("auto+esc", "^")
            if split_op(preds[1]["op"])[1] not in ("like", "ilike"):
                preds[1]["config"], preds[1]["escape"] = "auto", "/"
        escapes = {p["escape"] for p in preds}
        literal = k % 3 == 0
        desc = {"combiner": how, "predicates": preds, "literal": literal}
        st = sa.select(h.c.id).where(combine(sa, how, [build_pred(h.c.s, p) for p in preds])).order_by(h.c.id)
        try:
            if literal:
                sql = str(st.compile(conn.engine, compile_kwargs={"literal_binds": True}))
                got = [r[0] for r in conn.exec_driver_sql(sql)]
            else:
                sql = str(st.compile(conn.engine))
                got = [r[0] for r in conn.execute(st)]
        except sa.exc.SQLAlchemyError as e:
            ctx.violation(f"sqlite-like-multi-error:{how}", f"{type(e).__name__}: {str(e)[:200]}", desc)
            continue
        want = [r["id"] for r in rows if r["s"] is not None
                and combine_py(how, [py_pred(p["op"], r["s"], p["needle"]) for p in preds])]
        ctx.case(desc, nontrivial=len(escapes) > 1)
        ctx.count("multi_predicate_statements")
        ctx.count("rows_matched", len(got))
        if len(escapes) > 1:
            ctx.count("multi_predicate_mixed_escapes")
        if got != want:
            byid = {r["id"]: r["s"] for r in rows}
            extra = [byid[i] for i in sorted(set(got) - set(want))[:3]]
            missed = [byid[i] for i in sorted(set(want) - set(got))[:3]]
            ctx.violation(
                f"sqlite-like-multi:{how}:{'mixed-escapes' if len(escapes) > 1 else 'one-escape'}",
                f"{how} of {[(p['op'], p['needle'], p['config'], p['escape']) for p in preds]}: wrongly matched {extra} missed {missed} :: {sql}",
                dict(desc, sql=sql, wrongly_matched=extra, missed=missed),
            )
        if k < 2:
            ctx.sample(dict(desc, sql=sql, matched=len(got)))


def _fake_multi(ctx, sa, T, conn, fake, name, paramstyle, h, hays):
    """conjunctions of 2-4 predicates on the recording DBAPI: the WHERE clause is split at
    its top-level ANDs, every conjunct is decoded and judged on its own."""
    rng = ctx.rng
    needles = [n for n in strings(1)] + ["a%", "/a", "^_", "A^", "a/B"]
    for k in range(ctx.pick({"quick": 40, "thorough": 300})):
        preds = [random_predicate(rng, needles) for _ in range(2 + k % 3)]
        if k % 2 == 0 and split_op(preds[0]["op"])[1] not in ("like", "ilike") and split_op(preds[1]["op"])[1] not in ("like", "ilike"):
            preds[0]["config"], preds[0]["escape"] = "auto+esc", "^"
            preds[1]["config"], preds[1]["escape"] = "auto", "/"
        st = sa.select(h.c.id).where(sa.and_(*[build_pred(h.c.s, p) for p in preds]))
        mark = fake.mark()
        conn.execute(st)
        ev = fake.since(mark, ("execute",))[-1]
        desc = {"dialect": name, "predicates": preds, "sql": ev.sql, "params": repr(ev.params)}
        try:
            toks = T.where_tokens(ev.sql, name, paramstyle)
            parts, cur, depth = [], [], 0
            for t in toks:
                if t.kind == "punct" and t.text == "(":
                    depth += 1
                elif t.kind == "punct" and t.text == ")":
                    depth -= 1
                if depth == 0 and t.kind == "kw" and t.text == "AND":
                    parts.append(cur)
                    cur = []
                else:
                    cur.append(t)
            parts.append(cur)
            if len(parts) != len(preds):
                raise ValueError(f"{len(parts)} conjuncts for {len(preds)} predicates")
            decoded = [decode_like(T, ev.sql, ev.params, name, paramstyle, toks=part) for part in parts]
        except (ValueError, T.LexError, StopIteration) as e:
            ctx.violation(f"{name}-like-multi-undecodable", f"{type(e).__name__}: {e} :: {ev.sql}", desc)
            continue
        ctx.count("fake_multi_predicate_statements")
        ctx.case({"dialect": name, "predicates": preds}, nontrivial=len({p["escape"] for p in preds}) > 1)
        for p, (pattern, e2, casefold, negated) in zip(preds, decoded):
            if e2 != p["escape"]:
                ctx.violation(f"{name}-like-multi:escape-clause-of-another-predicate",
                              f"{p['op']}({p['needle']!r}, {p['config']}, escape={p['escape']!r}) declares ESCAPE {e2!r} :: {ev.sql} {ev.params!r}", desc)
                break
            try:
                items = T.like_compile(pattern, e2, name)
            except ValueError as e:
                ctx.violation(f"{name}-like-multi-undecodable", f"{e} :: {ev.sql}", desc)
                break
            bad = [x for x in hays if (T.like_match(items, x, casefold) != negated) != py_pred(p["op"], x, p["needle"])]
            if bad:
                ctx.violation(f"{name}-like-multi:predicate-disagrees", f"{p} pattern {pattern!r} ESCAPE {e2!r} disagrees on {bad[:3]} :: {ev.sql}", desc)
                break


FAKE_URLS = {
    "postgresql": "postgresql+psycopg2://u:p@h/db",
    "mysql": "mysql+pymysql://u:p@h/db",
    "mssql": "mssql+pyodbc://u:p@dsn",
    "oracle": "oracle+oracledb://u:p@h/?service_name=x",
}


def decode_like(T, sql, params, dialect, paramstyle, toks=None):
    """-> (pattern, escape, casefold, negated) reconstructed from the WHERE clause of
    the recorded statement (or from the given slice of its tokens)."""
    if toks is None:
        toks = T.where_tokens(sql, dialect, paramstyle)
    li = next(i for i, t in enumerate(toks) if t.kind == "kw" and t.text in ("LIKE", "ILIKE"))
    negated = li > 0 and toks[li - 1].kind == "kw" and toks[li - 1].text == "NOT"
    casefold = toks[li].text == "ILIKE" or any(t.kind == "ident" and t.text.lower() == "lower" for t in toks[:li])
    ei = next((i for i, t in enumerate(toks) if t.kind == "kw" and t.text == "ESCAPE"), None)
    pat_toks = toks[li + 1: ei if ei is not None else len(toks)]
    parts = []
    for t in pat_toks:
        if t.kind == "string":
            parts.append(t.value)
        elif t.kind == "param":
            parts.append(T.param_values([t], params, paramstyle)[0])
        elif t.kind == "ident" and t.text.lower() in ("lower", "concat"):
            continue
        elif (t.kind == "op" and t.text in ("||", "+")) or (t.kind == "punct" and t.text in "(),"):
            continue
        else:
            raise ValueError(f"unexpected token in LIKE pattern: {t!r}")
    esc = None
    if ei is not None:
        et = toks[ei + 1]
        if et.kind != "string" or len(et.value) != 1:
            raise ValueError(f"ESCAPE operand is not a one-character literal: {et!r}")
        esc = et.value
    return "".join(parts), esc, casefold, negated


def _run_fake(ctx, sa, haystacks):
    from vf.mon import sqltok_ga as T
    from vf.mon.fake_dbapi import recording_engine

    rng = ctx.rng
    needles = list(strings(2))
    md = sa.MetaData()
    h = sa.Table("h", md, sa.Column("id", sa.Integer, primary_key=True), sa.Column("s", sa.String(20)))
    jobs = list(sorted(FAKE_URLS.items()))
    for di, (name, url) in enumerate(jobs):
        if not ctx.mine(di):
            continue
        eng, fake = recording_engine(url)
        paramstyle = eng.dialect.paramstyle
        hays = [s for s in haystacks if not (name == "oracle" and s == "")]
        k = 0
        with eng.connect() as conn:
            for ni, needle in enumerate(needles):
                for oi, op in enumerate(ALL_OPS):
                    spelling = SPELLINGS[(ni + oi) % 3]
                    for config in configs_for(op, needle):
                        k += 1
                        if ctx.quick and (ni + (k % 3)) % 3 != ctx.seed % 3:
                            continue
                        if not ctx.budget_ok():
                            return
                        esc = "/" if config == "auto" else ESCAPES[(k // 5) % len(ESCAPES)]
                        desc = {"dialect": name, "op": op, "spelling": spelling, "config": config, "escape": esc, "needle": needle}
                        st = sa.select(h.c.id).where(build(h.c.s, op, config, esc, needle, spelling))
                        mark = fake.mark()
                        conn.execute(st)
                        ev = fake.since(mark, ("execute",))[-1]
                        try:
                            pattern, e2, casefold, negated = decode_like(T, ev.sql, ev.params, name, paramstyle)
                            items = T.like_compile(pattern, e2, name)
                        except (ValueError, T.LexError, StopIteration) as e:
                            ctx.violation(f"{name}-like-undecodable:{coarse(needle, esc)}",
                                          f"{type(e).__name__}: {e} :: {ev.sql} {ev.params!r}", dict(desc, sql=ev.sql, params=ev.params))
                            continue
                        ctx.count("fake_patterns_judged")
                        ctx.case(desc, nontrivial=feature(needle, esc) != "plain")
                        insensitive = split_op(op)[1].startswith("i")
                        if insensitive != casefold:
                            ctx.violation(f"{name}-like-case-handling:{op}{sp(spelling)}", f"casefold={casefold} for {op} :: {ev.sql}", dict(desc, sql=ev.sql))
                            continue
                        bad = [s for s in hays if (T.like_match(items, s, casefold) != negated) != py_pred(op, s, needle)]
                        if bad:
                            ctx.violation(
                                f"{name}-like:{op}{sp(spelling)}:{coarse(needle, esc)}",
                                f"{op}({needle!r},{config},escape={esc!r}) on {name}: pattern {pattern!r} ESCAPE {e2!r} disagrees with Python on {bad[:3]} :: {ev.sql} {ev.params!r}",
                                dict(desc, sql=ev.sql, params=ev.params, pattern=pattern, disagree=bad[:5]),
                            )
        with eng.connect() as conn:
            _fake_multi(ctx, sa, T, conn, fake, name, paramstyle, h, hays)
        eng.dispose()
