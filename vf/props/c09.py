"""C09 -- column types round-trip values; TypeDecorator processing applied exactly once.

Part A (SQLite, executed): one wide table with a column per type - Integer family,
Numeric(p,s) / Numeric(asdecimal=False) / Numeric() / Float / Double / Float(asdecimal),
String/Text/Unicode/UnicodeText, Boolean, Date, DateTime, DateTime(timezone=True), Time,
Interval, LargeBinary, Enum (PEP-435 class, non-native, plain strings, values_callable),
JSON (incl. JSON.NULL and nested None), Uuid (as_uuid both ways), PickleType, and SQLite's
own DATETIME/DATE/TIME with truncate_microseconds / custom storage_format+regexp.  Rows
carry the boundary values of every type first (int64 limits, subnormal / max floats,
0001-01-01 .. 9999-12-31, microsecond 1 / 999999, negative intervals down to year 1, empty
and astral unicode, empty bytes / all 256 byte values, 2**63 in JSON ...), then seeded
random values, plus an all-NULL row.  Delivery: single INSERT, executemany, executemany
with sorted RETURNING (returned values judged too), ORM add_all.  Retrieval through 16
contexts: plain, label, subquery, nested labelled subqueries, CTE, UNION ALL (direct and as
a subquery), text().columns(), type_coerce, scalar subqueries, self-join alias, CASE,
COALESCE, ORM entity, ORM aliased entity, ORM Bundle, UPDATE..RETURNING,
DELETE..RETURNING.

Part B (exactly once): *tagging* TypeDecorators - ``Tag`` (String: bind wraps in one
``B[..]`` layer, result in one ``R[..]``), ``ITag`` (Integer, digit layers), ``Outer(Tag)``
(decorator over decorator), ``JTag`` (over JSON), ``SqlTag`` (bind_expression /
column_expression, the SQL-level pair).  A value that went through 0 or 2 layers is
visible in the value itself; per-hook call counters must equal the number of values bound
/ cells fetched.  Contexts: the ones above plus literal() of the decorated type, WHERE
comparison and IN (bind side), INSERT..FROM SELECT (no Python processing), UPDATE SET,
keyword-form ``text("SELECT * ..").columns(name=type)`` (name-matched result columns) executed
repeatedly as one statement object and as equal fresh statements while the table / view
underneath is re-created with another column order,
text().columns, func/case results typed by the decorator, ORM loads incl. Bundle and
aliased subquery entities, repeated access to the same Row (no re-processing).

Part C (no server): for postgresql/mysql/mssql/oracle/sqlite dialect objects, the types
whose wire format is symmetric and that have both a bind and a result processor
(Interval, Enum, JSON, Uuid, PickleType, Boolean, ARRAY of those on PostgreSQL) satisfy
``result_processor(bind_processor(v)) == v``.

Names and paramstyles: every Part A column (hence every generated bind parameter) has a name
drawn from patterns that need quoting / bind-name escaping (space . : % ( ) [ ]), shifted per
shard; Part A and Part B engines rotate through qmark / named / numeric / numeric_dollar; Part B
adds a table of tagging decorators under such names plus an explicitly named hostile
``bindparam``.  Typed wrappers: ``label(name, expr, type_=T)`` / ``type_coerce`` / ``cast`` whose
type differs from the inner expression's, consumed directly and through 1-3 levels of derived
selectables (Part A: every type over the untyped raw column; Part B: tagging decorators over plain
columns).

Part D (recording fake DBAPI): the same hostile names under pyformat / format / qmark of the
PostgreSQL / MySQL / MariaDB drivers - the recorded parameters must be bind-processed exactly once.

Modes: cext and purepy (``_processors_cy`` str_to_date/datetime/time, int_to_boolean,
to_decimal_processor_factory; ``_row_cy`` processor application).

Guards: Numeric values are generated already quantised to the column's scale and within 15
significant digits (SQLite stores Decimal as float - documented); NaN/inf not generated
(SQLite turns NaN into NULL); DateTime(timezone=True) on SQLite stores no offset
(documented) - aware UTC values are compared on their naive fields; CAST is not used for
temporal types (SQLite CAST changes affinity); lone surrogates and NUL characters in
strings are not generated (driver level); top-level JSON *numbers* are limited to small
ints / 1.5 because the SQLite "JSON" column has NUMERIC affinity (-0.0 -> 0, 2**63 -> float),
big and special numbers travel inside lists / dicts instead.
"""
from __future__ import annotations

META = {
    "id": "C09",
    "level": "exploration",
    "technique": "boundary+random value round trips through 16 retrieval contexts; layer-tagging TypeDecorators with per-hook call counters",
    "level_text": "Every type's boundary values and seeded random values are inserted by four delivery paths and read back through 16 nesting contexts (Core and ORM) on real SQLite in both cext and purepy modes; tagging TypeDecorators make a skipped or doubled processor visible in the value and in the hook counters.",
    "level_note": "Execution only on SQLite. Other dialects: only bind/result processor symmetry of types with a symmetric wire format, on dialect objects without a server. literal_binds delivery belongs to C05 and is not repeated here. ARRAY only at processor level.",
    "design_ref": "DESIGN.md section 4, C09",
    "rule": "case = one compared cell; distinct by (type, context, delivery, value class = boundary index | random | null); non-trivial = boundary value or nesting depth >= 2 (part B: one case per tagging context and round, non-trivial = depth >= 2)",
    "shards": {"quick": 4, "thorough": 8},   # x 2 modes
    "modes": ["cext", "purepy"],
    "soft_s": {"quick": 50, "thorough": 800},
    "exhaustive": {"quick": False, "thorough": False},
    "require": ["cells_compared", "boundary_cells", "tag_cells_checked", "bind_hook_calls", "result_hook_calls",
                "returning_cells", "orm_cells", "processor_pairs_checked", "sqltag_cells_checked",
                "name_matched_executions", "typed_wrapper_cells", "hostile_name_rows",
                "fake_bind_values_checked"],
    "assumptions": ["type-specific comparators encode only documented precision limits (see Guards)"],
}


# ======================================================================================
# Part A
# ======================================================================================
def build_specs(sa, rng):
    """[(name, type, boundary values, random generator, comparator)]"""
    import datetime as dt
    import decimal
    import enum
    import struct
    import uuid

    from sqlalchemy.dialects import sqlite

    D = decimal.Decimal

    class Color(enum.Enum):
        red = 1
        green = 2
        blue = "b"

    eq = lambda a, b: type(a) is type(b) and a == b  # noqa: E731

    def eq_float(a, b):
        # guard: SQLite NUMERIC affinity hands an integral float back as int (0.0 -> 0); the
        # property asks for equality, not for the float type
        return isinstance(b, (int, float)) and not isinstance(b, bool) and (a == b)

    def eq_dec(a, b):
        # Decimal quantised to the scale of the value that went in (documented: SQLite stores
        # Decimal as float; the result processor formats with the column's / default scale)
        return isinstance(b, D) and b.quantize(D(1).scaleb(a.as_tuple().exponent)) == a

    def rand_str():
        n = rng.choice([0, 1, 3, 10, 60])
        alphabet = "abcXYZ 09_%'\"\\:?[]$\u00e9\u00df\u4e2d\u65e5\U0001d11e\u0301\n\t"
        return "".join(rng.choice(alphabet) for _ in range(n))

    def rand_float():
        while True:
            f = struct.unpack("<d", struct.pack("<Q", rng.getrandbits(64)))[0]
            if f == f and f not in (float("inf"), float("-inf")):
                return f

    def rand_dec(prec, scale):
        digits = rng.randint(1, min(prec, 15))
        i = rng.randint(-(10 ** digits) + 1, 10 ** digits - 1)
        return D(i).scaleb(-scale)

    epoch = dt.datetime(1970, 1, 1)
    dmin, dmax = dt.datetime.min, dt.datetime.max

    def rand_dt():
        return dmin + dt.timedelta(microseconds=rng.randrange((dmax - dmin) // dt.timedelta(microseconds=1)))

    def rand_json(depth=0):
        r = rng.random()
        if depth > 3 or r < 0.35:
            big = [2 ** 53 + 1, -2.25e-7] if depth else [7]   # guard: a top-level JSON number meets SQLite's NUMERIC affinity
            return rng.choice([None, True, False, 0, -1, 1.5, "", "s\u00e9\u4e2d'\"\\", rand_str()] + big)
        if r < 0.65:
            return [rand_json(depth + 1) for _ in range(rng.randint(0, 3))]
        return {rand_str() or "k": rand_json(depth + 1) for _ in range(rng.randint(0, 3))}

    def eq_json(a, b):
        if a is sa.JSON.NULL:
            return b is None
        return a == b and _same_json_types(a, b)

    i64 = [0, 1, -1, 2 ** 31 - 1, -2 ** 31, 2 ** 31, 2 ** 63 - 1, -2 ** 63]
    utc = dt.timezone.utc
    specs = [
        ("int", sa.Integer(), i64, lambda: rng.randint(-2 ** 63, 2 ** 63 - 1), eq),
        ("bigint", sa.BigInteger(), i64, lambda: rng.randint(-2 ** 63, 2 ** 63 - 1), eq),
        ("smallint", sa.SmallInteger(), [0, 32767, -32768], lambda: rng.randint(-32768, 32767), eq),
        ("num_10_2", sa.Numeric(10, 2), [D("0.00"), D("-0.01"), D("99999999.99"), D("-99999999.99"), D("0.10"), D("1.01")],
         lambda: rand_dec(10, 2), eq_dec),
        ("num_15_6", sa.Numeric(15, 6), [D("0.000001"), D("-0.000001"), D("999999999.999999"), D("123456789.000001")],
         lambda: rand_dec(15, 6), eq_dec),
        ("num_12_0", sa.Numeric(12, 0), [D("0"), D("999999999999"), D("-999999999999")], lambda: rand_dec(12, 0), eq_dec),
        ("num_plain", sa.Numeric(), [D("0"), D("0.0000000001"), D("12345.6789012345"), D("-1.5")],
         lambda: rand_dec(15, rng.randint(0, 10)), eq_dec),
        ("num_float", sa.Numeric(12, 4, asdecimal=False), [0.0, 0.0001, -99999999.9999], lambda: float(rand_dec(12, 4)), eq_float),
        ("float", sa.Float(), [0.0, -0.0, 5e-324, -5e-324, 2.2250738585072014e-308, 1.7976931348623157e308,
                              -1.7976931348623157e308, 0.1, 1 / 3, 1e-7, 123456789.12345679, 1e22, 9007199254740993.0],
         rand_float, eq_float),
        ("double", sa.Double(), [0.0, 5e-324, 1.7976931348623157e308, 0.30000000000000004], rand_float, eq_float),
        ("float_dec", sa.Float(asdecimal=True, decimal_return_scale=6), [D("0.000001"), D("-1.5"), D("1234.125")],
         lambda: rand_dec(9, 6), eq_dec),
        ("str", sa.String(300), ["", " ", "a", "\u00e9", "\u65e5\u672c\u8a9e", "\U0001d11e", "x" * 300,
                                 "O'Reilly \"q\" \\ % _ : ? [ ] $ -- /* */ ;", "\n\t\r", "e\u0301", "NULL", "\ufeff", "%s %(x)s {} :1 ?"],
         rand_str, eq),
        ("text", sa.Text(), ["", "t" * 5000, "\u4e2d" * 1000], rand_str, eq),
        ("unicode", sa.Unicode(100), ["", "\U0001f600\U0001f1e6\U0001f1fa", "\u200b"], rand_str, eq),
        ("unitext", sa.UnicodeText(), ["", "\u0000".replace("\u0000", "nul-free"), "\U0010ffff"], rand_str, eq),
        ("bool", sa.Boolean(), [True, False], lambda: rng.random() < 0.5, eq),
        ("date", sa.Date(), [dt.date.min, dt.date.max, dt.date(1970, 1, 1), dt.date(2000, 2, 29), dt.date(1, 12, 31), dt.date(999, 1, 1)],
         lambda: dt.date.fromordinal(rng.randint(1, dt.date.max.toordinal())), eq),
        ("datetime", sa.DateTime(), [dmin, dmax, epoch, dt.datetime(2024, 2, 29, 23, 59, 59, 1), dt.datetime(1, 1, 1, 0, 0, 0, 1),
                                    dt.datetime(2000, 1, 1, 0, 0, 0, 999999), dt.datetime(999, 12, 31, 23, 59, 59, 100000),
                                    dt.datetime(2001, 2, 3, 4, 5, 6, 0)], rand_dt, eq),
        ("datetime_tz", sa.DateTime(timezone=True), [dmin.replace(tzinfo=utc), dmax.replace(tzinfo=utc),
                                                    dt.datetime(2020, 5, 17, 1, 2, 3, 456789, tzinfo=utc)],
         lambda: rand_dt().replace(tzinfo=utc), lambda a, b: isinstance(b, dt.datetime) and b.replace(tzinfo=None) == a.replace(tzinfo=None)),
        ("time", sa.Time(), [dt.time.min, dt.time.max, dt.time(12, 0, 0, 1), dt.time(23, 59, 59), dt.time(0, 0, 0, 999999)],
         lambda: (dmin + dt.timedelta(microseconds=rng.randrange(86400 * 10 ** 6))).time(), eq),
        ("interval", sa.Interval(), [dt.timedelta(0), dt.timedelta(microseconds=1), dt.timedelta(microseconds=-1),
                                    dt.timedelta(days=-1), dt.timedelta(days=-1, microseconds=1), dt.timedelta(days=365000),
                                    dmin - epoch, dmax - epoch, dt.timedelta(seconds=86399, microseconds=999999)],
         lambda: rand_dt() - epoch, eq),
        ("binary", sa.LargeBinary(), [b"", b"\x00", b"\x00\xff" * 10, bytes(range(256)), b"'\"\\%"],
         lambda: bytes(rng.getrandbits(8) for _ in range(rng.choice([0, 1, 7, 64]))), eq),
        ("enum_py", sa.Enum(Color), list(Color), lambda: rng.choice(list(Color)), lambda a, b: a is b),
        ("enum_nn", sa.Enum(Color, native_enum=False, length=20), list(Color), lambda: rng.choice(list(Color)), lambda a, b: a is b),
        ("enum_str", sa.Enum("a", "b c", "\u00e9'", "", name="estr"), ["a", "b c", "\u00e9'", ""], lambda: rng.choice(["a", "b c", "\u00e9'"]), eq),
        ("enum_vals", sa.Enum(Color, values_callable=lambda x: [str(e.value) for e in x]), list(Color),
         lambda: rng.choice(list(Color)), lambda a, b: a is b),
        ("json", sa.JSON(), [{}, [], {"a": None}, [None], [[], {}], "str", "", 0, 1.5, True, False, [2 ** 63, -2 ** 63],
                             {"k": [1, {"n": None, "u": "\u00e9\U0001d11e"}], "e": ""}, sa.JSON.NULL, [1e100, -0.0, 5e-324],
                             {"\u00e9": 1, "": 2, "a b": {"'": "\""}}],
         rand_json, eq_json),
        ("json_nan", sa.JSON(none_as_null=True), [{}, [None], {"a": None}], rand_json, eq_json),
        ("uuid", sa.Uuid(), [uuid.UUID(int=0), uuid.UUID(int=2 ** 128 - 1), uuid.UUID("12345678-1234-5678-1234-567812345678")],
         lambda: uuid.UUID(int=rng.getrandbits(128)), eq),
        ("uuid_str", sa.Uuid(as_uuid=False), [str(uuid.UUID(int=0)), str(uuid.UUID(int=2 ** 128 - 1))],
         lambda: str(uuid.UUID(int=rng.getrandbits(128))), eq),
        ("pickle", sa.PickleType(), [{}, {"a": (1, 2)}, {1, 2}, [None], b"b\x00", 1.5, "s", frozenset([1]), (), {"n": {"m": [D("1.10")]}},
                                    dt.datetime(2020, 1, 1, tzinfo=utc)],
         lambda: rand_json(), eq),
        ("lite_dt_trunc", sqlite.DATETIME(truncate_microseconds=True), [dmin, dmax.replace(microsecond=0), epoch],
         lambda: rand_dt().replace(microsecond=0), eq),
        ("lite_dt_custom", sqlite.DATETIME(
            storage_format="%(year)04d/%(month)02d/%(day)02d %(hour)02d-%(minute)02d-%(second)02d-%(microsecond)06d",
            regexp=r"(\d+)/(\d+)/(\d+) (\d+)-(\d+)-(\d+)-(\d+)"), [dmin, dmax, epoch], rand_dt, eq),
        ("lite_date_custom", sqlite.DATE(storage_format="%(month)02d/%(day)02d/%(year)04d",
                                         regexp=r"(?P<month>\d+)/(?P<day>\d+)/(?P<year>\d+)"),
         [dt.date.min, dt.date.max], lambda: dt.date.fromordinal(rng.randint(1, dt.date.max.toordinal())), eq),
        ("lite_time_trunc", sqlite.TIME(truncate_microseconds=True), [dt.time.min, dt.time(23, 59, 59)],
         lambda: (dmin + dt.timedelta(seconds=rng.randrange(86400))).time(), eq),
    ]
    return specs


def _same_json_types(a, b):
    """bool vs int and int vs float must not be confused by == (True == 1, 1 == 1.0)"""
    if isinstance(a, bool) or isinstance(b, bool):
        return isinstance(a, bool) and isinstance(b, bool)
    if isinstance(a, dict):
        return isinstance(b, dict) and all(_same_json_types(a[k], b[k]) for k in a)
    if isinstance(a, list):
        return isinstance(b, list) and len(a) == len(b) and all(_same_json_types(x, y) for x, y in zip(a, b))
    if isinstance(a, (int, float)):
        return type(a) is type(b)
    return True


# column / bind parameter names that need quoting and, for the non-positional paramstyles,
# escaping of the bind name: space . : % ( ) [ ]
NAME_PATTERNS = ("{}", "{} sp", "{}.dot", "{}:col", "{}%pc", "{}(p)", "{}[b]")


def hostile(base, i):
    return NAME_PATTERNS[i % len(NAME_PATTERNS)].format(base)


def qn(name):
    """SQLite quoted identifier"""
    return '"' + name.replace('"', '""') + '"'


def contexts(sa, orm, t, cls, names):
    """name -> (depth, builder) ; builder(conn_or_session) -> list of (id, {name: value})"""
    cols = [t.c[n] for n in names]

    def rows_of(res):
        return [(r[0], dict(zip(names, r[1:]))) for r in res]

    def core(stmt_fn, depth):
        return (depth, lambda c, s: rows_of(c.execute(stmt_fn())))

    out = {}
    out["plain"] = core(lambda: sa.select(t.c.id, *cols), 1)
    out["label"] = core(lambda: sa.select(t.c.id.label("i"), *[c.label("L_" + c.name) for c in cols]), 1)

    def sub():
        sq = sa.select(t).subquery()
        return sa.select(sq.c.id, *[sq.c[n] for n in names])

    out["subquery"] = core(sub, 2)

    def nested():
        s1 = sa.select(t.c.id.label("i1"), *[c.label("a_" + c.name) for c in cols]).subquery("s1")
        s2 = sa.select(s1.c.i1.label("i2"), *[s1.c["a_" + n].label("b_" + n) for n in names]).subquery("s2")
        return sa.select(s2.c.i2, *[s2.c["b_" + n] for n in names])

    out["nested_labels"] = core(nested, 3)

    def cte():
        c1 = sa.select(t).cte("c1")
        c2 = sa.select(c1).cte("c2")
        return sa.select(c2.c.id, *[c2.c[n] for n in names])

    out["cte"] = core(cte, 3)
    out["union_direct"] = core(lambda: sa.union_all(sa.select(t.c.id, *cols).where(t.c.id % 2 == 0),
                                                    sa.select(t.c.id, *cols).where(t.c.id % 2 == 1)), 2)

    def union_sub():
        u = sa.union_all(sa.select(t.c.id, *cols).where(t.c.id % 2 == 0),
                         sa.select(t.c.id, *cols).where(t.c.id % 2 == 1)).subquery("u")
        return sa.select(u.c.id, *[u.c[n] for n in names])

    out["union_subquery"] = core(union_sub, 3)
    out["text_columns"] = core(lambda: sa.text(
        "SELECT id, %s FROM %s" % (", ".join(qn(n).replace(":", "\\:") for n in names), t.name)).columns(
        sa.column("id", sa.Integer), *[sa.column(n, t.c[n].type) for n in names]), 1)

    def raw(n):   # the column without any type information
        return sa.literal_column(f"{t.name}.{qn(n)}")

    out["type_coerce"] = core(lambda: sa.select(t.c.id, *[sa.type_coerce(raw(n), t.c[n].type).label(n) for n in names]), 1)
    # typed wrappers whose type differs from the inner expression's, consumed directly and through
    # 1-3 levels of derived selectables
    wrappers = {
        "typed_label": lambda n: sa.label("w_" + n, raw(n), type_=t.c[n].type),
        "type_coerce_label": lambda n: sa.type_coerce(raw(n), t.c[n].type).label("w_" + n),
    }
    for wname, wrap in wrappers.items():
        def base(wrap=wrap):
            return sa.select(t.c.id.label("wid"), *[wrap(n) for n in names])

        def w_sub(base=base):
            sq = base().subquery()
            return sa.select(sq.c.wid, *[sq.c["w_" + n] for n in names])

        def w_cte(base=base):
            c1 = base().cte("wc")
            return sa.select(c1.c.wid, *[c1.c["w_" + n] for n in names])

        def w_nested(base=base):
            s1 = base().subquery("ws1")
            s2 = sa.select(s1.c.wid.label("wid2"), *[s1.c["w_" + n].label("v_" + n) for n in names]).subquery("ws2")
            s3 = sa.select(s2).subquery("ws3")
            return sa.select(s3.c.wid2, *[s3.c["v_" + n] for n in names])

        def w_union(base=base):
            u = sa.union_all(base().where(t.c.id % 2 == 0), base().where(t.c.id % 2 == 1)).subquery("wu")
            return sa.select(u.c.wid, *[u.c["w_" + n] for n in names])

        out[f"{wname}_direct"] = core(base, 1)
        out[f"{wname}_subquery"] = core(w_sub, 2)
        out[f"{wname}_cte"] = core(w_cte, 2)
        out[f"{wname}_nested"] = core(w_nested, 3)
        out[f"{wname}_union_subquery"] = core(w_union, 3)

    def alias_join():
        a = t.alias("a1")
        return sa.select(a.c.id, *[a.c[n] for n in names]).select_from(t.join(a, t.c.id == a.c.id))

    out["alias_join"] = core(alias_join, 2)
    out["case"] = core(lambda: sa.select(t.c.id, *[sa.case((t.c.id > -1, c), else_=c).label(c.name) for c in cols]), 2)
    out["coalesce"] = core(lambda: sa.select(t.c.id, *[sa.func.coalesce(c, c).label(c.name) for c in cols]), 2)

    def scalar_sub(c, s):
        ids = [r[0] for r in c.execute(sa.select(t.c.id))]
        got = []
        for i in ids[:: max(1, len(ids) // 12)]:
            r = c.execute(sa.select(*[sa.select(col).where(t.c.id == i).scalar_subquery().label(col.name) for col in cols])).one()
            got.append((i, dict(zip(names, r))))
        return got

    out["scalar_subquery"] = (2, scalar_sub)
    out["orm_entity"] = (1, lambda c, s: [(o.id, {n: getattr(o, n) for n in names}) for o in s.execute(sa.select(cls)).scalars()])

    def orm_alias(c, s):
        sq = sa.select(cls).subquery()
        al = orm.aliased(cls, sq)
        return [(o.id, {n: getattr(o, n) for n in names}) for o in s.execute(sa.select(al)).scalars()]

    out["orm_aliased_subquery"] = (3, orm_alias)

    def orm_bundle(c, s):
        b = orm.Bundle("b", *[getattr(cls, n) for n in names])
        return [(i, {n: getattr(bb, n) for n in names}) for i, bb in s.execute(sa.select(cls.id, b))]

    out["orm_bundle"] = (2, orm_bundle)
    out["orm_columns"] = (1, lambda c, s: rows_of(s.execute(sa.select(cls.id, *[getattr(cls, n) for n in names]))))
    return out


PSTYLES = ("qmark", "named", "numeric", "numeric_dollar")


def part_a(ctx, sa, orm, engine_factory):
    import time

    rng = ctx.rng
    specs = build_specs(sa, rng)
    # column (hence bind parameter) names rotate through NAME_PATTERNS, shifted per shard, so every
    # type meets every kind of hostile name; engines rotate through the four paramstyles
    names = [hostile("c_" + s[0], i + ctx.shard) for i, s in enumerate(specs)]
    by_name = dict(zip(names, specs))
    md = sa.MetaData()
    t = sa.Table("wide", md, sa.Column("id", sa.Integer, primary_key=True), sa.Column("tag", sa.String),
                 *[sa.Column(n, s[1]) for n, s in zip(names, specs)])
    reg = orm.registry()
    cls = type("Wide", (object,), {})
    reg.map_imperatively(cls, t)
    nbound = max(len(s[2]) for s in specs)
    nrand = ctx.pick({"quick": 24, "thorough": 600})
    rounds = ctx.pick({"quick": 2, "thorough": 24})
    try:
        for rnd in range(rounds):
            # (budget only, never a verdict) part A may use ~55% of the soft budget so that the
            # later rounds of part B are not starved on a loaded machine
            if rnd and (not ctx.budget_ok() or time.monotonic() - ctx.t0 > 0.55 * ctx.soft_s):
                break
            pstyle = PSTYLES[(rnd + ctx.shard) % len(PSTYLES)]
            eng = engine_factory(pstyle)
            ctx.seen("part_a_paramstyle", pstyle)
            md.create_all(eng)
            rows = []
            for i in range(nbound + nrand):
                row = {"tag": f"r{i}"}
                for cname_, (nm, typ, bvals, gen, cmp) in zip(names, specs):
                    row[cname_] = bvals[i] if i < len(bvals) else gen()
                rows.append(row)
            rows.append(dict({"tag": "allnull"}, **{n: None for n in names}))
            rng.shuffle(rows)
            orig = {}
            # ---- delivery
            groups = {0: [], 1: [], 2: [], 3: []}
            for i, r in enumerate(rows):
                groups[(i + ctx.shard) % 4].append(r)
            with eng.begin() as c:
                for r in groups[0]:
                    c.execute(sa.insert(t), r)
                if groups[1]:
                    c.execute(sa.insert(t), groups[1])
                if groups[2]:
                    res = c.execute(sa.insert(t).returning(t.c.tag, *[t.c[n] for n in names], sort_by_parameter_order=True),
                                    groups[2])
                    got = res.all()
                    if [g[0] for g in got] != [r["tag"] for r in groups[2]]:
                        ctx.violation("insert-returning-order", "sorted RETURNING rows out of parameter order", {})
                    else:
                        for g, r in zip(got, groups[2]):
                            for n, v in zip(names, g[1:]):
                                ctx.count("returning_cells")
                                judge_cell(ctx, by_name, n, r[n], v, "insert_returning", "executemany_returning", 1,
                                           r["tag"] == "allnull")
            with orm.Session(eng) as s:
                objs = []
                for r in groups[3]:
                    o = cls()
                    for k2, v in r.items():
                        setattr(o, k2, v)
                    objs.append(o)
                s.add_all(objs)
                s.commit()
            with eng.connect() as c:
                for i, tag in c.execute(sa.select(t.c.id, t.c.tag)):
                    orig[i] = next(r for r in rows if r["tag"] == tag)
            deliv = {}
            for g, lst in groups.items():
                for r in lst:
                    deliv[r["tag"]] = ("single", "executemany", "executemany_returning", "orm")[g]
            boundary_tags = {f"r{i}" for i in range(nbound)}
            # ---- retrieval
            ctxs = contexts(sa, orm, t, cls, names)
            with eng.connect() as c, orm.Session(eng) as s:
                for cname, (depth, fn) in ctxs.items():
                    got = fn(c, s)
                    if cname != "scalar_subquery" and sorted(i for i, _ in got) != sorted(orig):
                        ctx.violation("context-row-set", f"context {cname} returned ids {sorted(i for i, _ in got)[:10]}", {"context": cname})
                        continue
                    for i, vals in got:
                        o = orig[i]
                        for n in names:
                            isb = o["tag"] in boundary_tags and int(o["tag"][1:]) < len(by_name[n][2])
                            ctx.count("cells_compared")
                            if cname.startswith("orm"):
                                ctx.count("orm_cells")
                            if isb:
                                ctx.count("boundary_cells")
                            judge_cell(ctx, by_name, n, o[n], vals[n], cname, deliv[o["tag"]], depth, isb)
                            # one case per cell; distinct by (type, context, delivery, value class)
                            vc = "null" if o["tag"] == "allnull" else (f"b{o['tag'][1:]}" if isb else "rand")
                            key = (n, cname, deliv[o["tag"]], vc)
                            if key in CASE_KEYS:
                                ctx.case()
                            else:
                                CASE_KEYS.add(key)
                                ctx.case(key, nontrivial=isb or depth >= 2)
                    ctx.seen("context", cname)
            # ---- DML RETURNING
            with eng.begin() as c:
                res = c.execute(sa.update(t).values(tag=t.c.tag + "").returning(t.c.id, *[t.c[n] for n in names]))
                for r in res:
                    for n, v in zip(names, r[1:]):
                        ctx.count("returning_cells")
                        judge_cell(ctx, by_name, n, orig[r[0]][n], v, "update_returning", deliv[orig[r[0]]["tag"]], 1, False)
                res = c.execute(sa.delete(t).returning(t.c.id, *[t.c[n] for n in names]))
                seen = 0
                for r in res:
                    seen += 1
                    for n, v in zip(names, r[1:]):
                        ctx.count("returning_cells")
                        judge_cell(ctx, by_name, n, orig[r[0]][n], v, "delete_returning", deliv[orig[r[0]]["tag"]], 1, False)
                if seen != len(orig):
                    ctx.violation("delete-returning-row-count", f"{seen} rows for {len(orig)}", {})
            md.drop_all(eng)
            eng.dispose()
            flush_failures(ctx)
    finally:
        flush_failures(ctx)
        reg.dispose()


FAILS = {}
CASE_KEYS = set()


def flush_failures(ctx):
    """one defect -> one mechanism: a type that fails already in the plain context is a
    round-trip defect of that type; a type that only fails in some contexts means the
    processing was lost / doubled in those contexts."""
    for nm, per_ctx in FAILS.items():
        if "plain" in per_ctx:
            cname, (summary, wit) = next(iter(sorted(per_ctx.items())))
            ctx.violation(f"roundtrip-{nm}", f"[{len(per_ctx)} contexts: {sorted(per_ctx)[:6]}] {summary}", wit)
        else:
            for cname, (summary, wit) in sorted(per_ctx.items()):
                ctx.violation(f"processing-differs-in-context-{cname}", f"[type {nm}] {summary}", wit)
    FAILS.clear()


def judge_cell(ctx, by_name, n, want, got, cname, delivery, depth, boundary):
    nm, typ, bvals, gen, cmp = by_name[n]
    if want is None:
        ok = got is None
    else:
        try:
            ok = bool(cmp(want, got))
        except Exception:
            ok = False
    if not ok:
        FAILS.setdefault(nm, {}).setdefault(cname, (
            f"type {typ!r} value {want!r} came back as {got!r} (delivery {delivery}, context {cname}, boundary={boundary})",
            {"type": repr(typ), "want": repr(want), "got": repr(got), "context": cname, "delivery": delivery}))
    ctx.seen("type_context", f"{nm}/{cname}")


# ======================================================================================
# Part B - tagging decorators
# ======================================================================================
def make_tags(sa):
    from sqlalchemy.types import TypeDecorator

    calls = {"bind": [], "result": []}

    class Tag(TypeDecorator):
        impl = sa.String
        cache_ok = True

        def process_bind_param(self, value, dialect):
            calls["bind"].append(("Tag", value))
            return None if value is None else f"B[{value}]"

        def process_result_value(self, value, dialect):
            calls["result"].append(("Tag", value))
            return None if value is None else f"R[{value}]"

    class ITag(TypeDecorator):
        impl = sa.Integer
        cache_ok = True

        def process_bind_param(self, value, dialect):
            calls["bind"].append(("ITag", value))
            return None if value is None else value * 10 + 1

        def process_result_value(self, value, dialect):
            calls["result"].append(("ITag", value))
            return None if value is None else value * 10 + 2

    class Outer(TypeDecorator):
        impl = Tag
        cache_ok = True

        def process_bind_param(self, value, dialect):
            calls["bind"].append(("Outer", value))
            return None if value is None else f"OB[{value}]"

        def process_result_value(self, value, dialect):
            calls["result"].append(("Outer", value))
            return None if value is None else f"OR[{value}]"

    class JTag(TypeDecorator):
        impl = sa.JSON
        cache_ok = True

        def process_bind_param(self, value, dialect):
            calls["bind"].append(("JTag", repr(value)))
            return None if value is None else {"B": value}

        def process_result_value(self, value, dialect):
            calls["result"].append(("JTag", repr(value)))
            return None if value is None else {"R": value}

    class SqlTag(TypeDecorator):
        impl = sa.String
        cache_ok = True

        def bind_expression(self, bindvalue):
            return sa.func.printf("b[%s]", bindvalue, type_=self)

        def column_expression(self, col):
            return sa.func.printf("r[%s]", col, type_=self)

    return calls, Tag, ITag, Outer, JTag, SqlTag


def part_b(ctx, sa, orm, engine_factory):
    rng = ctx.rng
    calls, Tag, ITag, Outer, JTag, SqlTag = make_tags(sa)
    md = sa.MetaData()
    t = sa.Table("tg", md, sa.Column("id", sa.Integer, primary_key=True),
                 sa.Column("plain", sa.String),
                 sa.Column("tag", Tag()), sa.Column("itag", ITag()), sa.Column("otag", Outer()), sa.Column("jtag", JTag()))
    t2 = sa.Table("tg2", md, sa.Column("id", sa.Integer, primary_key=True), sa.Column("tag", Tag()), sa.Column("itag", ITag()))
    q = sa.Table("sq", md, sa.Column("id", sa.Integer, primary_key=True), sa.Column("st", SqlTag()), sa.Column("plain", sa.String))
    reg = orm.registry()
    cls = type("Tg", (object,), {})
    reg.map_imperatively(cls, t)
    qcls = type("Sq", (object,), {})
    reg.map_imperatively(qcls, q)
    rounds = ctx.pick({"quick": 4, "thorough": 400})

    def expect(row):
        """what every SELECT context must deliver for a stored row"""
        x = row["x"]
        return {
            "tag": None if x is None else f"R[B[{x}]]",
            "itag": None if row["i"] is None else (row["i"] * 10 + 1) * 10 + 2,
            "otag": None if x is None else f"OR[R[B[OB[{x}]]]]",
            "jtag": None if row["j"] is None else {"R": {"B": row["j"]}},
        }

    def check_cells(cname, got_rows, rows_by_id, fields, depth):
        for i, vals in got_rows:
            exp = expect(rows_by_id[i])
            for f in fields:
                ctx.count("tag_cells_checked")
                g, e = vals[f], exp[f]
                if g != e:
                    ctx.violation(f"tag-layers-{f}", f"{f}: got {g!r} expected exactly one layer each way "
                                  f"{e!r} (context {cname})", {"context": cname, "field": f, "got": repr(g), "want": repr(e)})
                    ctx.seen("tag_layer_failure_context", f"{f}/{cname}")
        ctx.case({"part": "B", "context": cname, "shard": ctx.shard}, nontrivial=depth >= 2)
        ctx.seen("tag_context", cname)

    def counted(kind, fn):
        """run fn; return (result, number of hook calls of that kind it caused)"""
        n0 = len(calls[kind])
        out = fn()
        return out, calls[kind][n0:]

    fields = ["tag", "itag", "otag", "jtag"]
    try:
        for rnd in range(rounds):
            if rnd and not ctx.budget_ok():
                break
            pstyle = PSTYLES[(rnd + ctx.shard + 1) % len(PSTYLES)]
            eng = engine_factory(pstyle)
            ctx.seen("part_b_paramstyle", pstyle)
            md.create_all(eng)
            n = rng.randint(4, 9)
            rows = []
            for i in range(n):
                x = f"v{ctx.shard}.{rnd}.{i}" if rng.random() > 0.12 else None
                rows.append({"x": x, "i": rng.randint(-50, 50) if rng.random() > 0.12 else None,
                             "j": rng.choice([{"k": i}, [i, None], i, f"s{i}", None])})
            params = [{"plain": r["x"], "tag": r["x"], "itag": r["i"], "otag": r["x"], "jtag": r["j"]} for r in rows]
            # ---- bind side: single, executemany, returning, ORM ; each value bound exactly once
            half = n // 2
            with eng.begin() as c:
                _, bc = counted("bind", lambda: [c.execute(sa.insert(t), p) for p in params[:2]])
                want_calls = 2 * 5  # tag, itag, otag (Outer + inner Tag), jtag
                ctx.count("bind_hook_calls", len(bc))
                if len(bc) != want_calls:
                    ctx.violation("bind-hook-call-count-single", f"{len(bc)} bind hook calls for 2 rows x 5 hooks: {bc[:12]}", {})
                _, bc = counted("bind", lambda: c.execute(sa.insert(t), params[2:half]) if params[2:half] else None)
                ctx.count("bind_hook_calls", len(bc))
                if len(bc) != 5 * len(params[2:half]):
                    ctx.violation("bind-hook-call-count-executemany", f"{len(bc)} calls for {len(params[2:half])} rows: {bc[:12]}", {})
                rest = params[half:]
                (res, bc) = counted("bind", lambda: c.execute(
                    sa.insert(t).returning(t.c.id, t.c.tag, t.c.itag, t.c.otag, t.c.jtag, sort_by_parameter_order=True), rest))
                ctx.count("bind_hook_calls", len(bc))
                if len(bc) != 5 * len(rest):
                    ctx.violation("bind-hook-call-count-returning", f"{len(bc)} calls for {len(rest)} rows", {})
                ret, rc = counted("result", lambda: res.all())
                ctx.count("result_hook_calls", len(rc))
                if len(rc) != 5 * len(rest):
                    ctx.violation("result-hook-call-count-returning", f"{len(rc)} result hook calls for {len(rest)} rows x 5", {})
                for r_, src in zip(ret, rows[half:]):
                    exp = expect(src)
                    got = dict(zip(fields, r_[1:]))
                    for f in fields:
                        ctx.count("tag_cells_checked")
                        if got[f] != exp[f]:
                            ctx.violation(f"tag-layers-{f}-via-insert_returning", f"{f}: {got[f]!r} expected {exp[f]!r}", {})
            with eng.connect() as c:
                ids = [r[0] for r in c.execute(sa.select(t.c.id).order_by(t.c.id))]
                rows_by_id = dict(zip(ids, rows))
                raw = c.exec_driver_sql("SELECT id, tag, itag, otag, jtag FROM tg ORDER BY id").fetchall()
                for (i, tg, it, ot, jt), src in zip(raw, rows):
                    x = src["x"]
                    if tg != (None if x is None else f"B[{x}]") or it != (None if src["i"] is None else src["i"] * 10 + 1) \
                            or ot != (None if x is None else f"B[OB[{x}]]"):
                        ctx.violation("stored-value-bind-layers", f"stored {(tg, it, ot)} for {src}", {})
            # ---- result side contexts
            names = fields
            cols = [t.c[f] for f in fields]

            def rows_of(res):
                return [(r[0], dict(zip(names, r[1:]))) for r in res]

            core_ctx = {
                "plain": (1, lambda: sa.select(t.c.id, *cols)),
                "label": (1, lambda: sa.select(t.c.id, *[c_.label("zz_" + c_.name) for c_ in cols])),
                "subquery": (2, lambda: (lambda sq: sa.select(sq.c.id, *[sq.c[f] for f in fields]))(sa.select(t).subquery())),
                "nested_labels": (3, lambda: (lambda s2: sa.select(s2.c.i2, *[s2.c["b_" + f] for f in fields]))(
                    (lambda s1: sa.select(s1.c.i1.label("i2"), *[s1.c["a_" + f].label("b_" + f) for f in fields]).subquery("s2"))(
                        sa.select(t.c.id.label("i1"), *[c_.label("a_" + c_.name) for c_ in cols]).subquery("s1")))),
                "cte": (3, lambda: (lambda c2: sa.select(c2.c.id, *[c2.c[f] for f in fields]))(
                    sa.select(sa.select(t).cte("c1")).cte("c2"))),
                "union_direct": (2, lambda: sa.union_all(sa.select(t.c.id, *cols).where(t.c.id % 2 == 0),
                                                         sa.select(t.c.id, *cols).where(t.c.id % 2 == 1))),
                "union_subquery": (3, lambda: (lambda u: sa.select(u.c.id, *[u.c[f] for f in fields]))(
                    sa.union_all(sa.select(t.c.id, *cols).where(t.c.id % 2 == 0),
                                 sa.select(t.c.id, *cols).where(t.c.id % 2 == 1)).subquery("u"))),
                "text_columns": (1, lambda: sa.text("SELECT id, tag, itag, otag, jtag FROM tg").columns(
                    sa.column("id", sa.Integer), *[sa.column(f, t.c[f].type) for f in fields])),
                "type_coerce_raw": (1, lambda: sa.select(t.c.id, *[sa.type_coerce(sa.literal_column("tg." + f), t.c[f].type).label(f)
                                                                   for f in fields])),
                "case": (2, lambda: sa.select(t.c.id, *[sa.case((t.c.id > -1, c_), else_=c_).label(c_.name) for c_ in cols])),
                "coalesce_self": (2, lambda: sa.select(t.c.id, *[sa.func.coalesce(c_, c_).label(c_.name) for c_ in cols])),
                "alias_join": (2, lambda: (lambda a: sa.select(a.c.id, *[a.c[f] for f in fields]).select_from(
                    t.join(a, t.c.id == a.c.id)))(t.alias("a1"))),
                "cast_same": (2, lambda: sa.select(t.c.id, sa.cast(t.c.tag, Tag()).label("tag"), t.c.itag,
                                                   t.c.otag, t.c.jtag)),
                "min_aggregate": (2, lambda: sa.select(t.c.id, *[sa.func.min(c_).label(c_.name) for c_ in cols[:3]],
                                                       t.c.jtag).group_by(t.c.id)),
            }
            with eng.connect() as c, orm.Session(eng) as s:
                for cname, (depth, mk) in core_ctx.items():
                    res, rc = counted("result", lambda: c.execute(mk()).all())
                    ctx.count("result_hook_calls", len(rc))
                    nonnull_hooks = 5 * len(res)
                    if len(rc) != nonnull_hooks:
                        ctx.violation("result-hook-call-count", f"{len(rc)} result hook calls for {len(res)} rows x 5 hooks (context {cname})",
                                      {"context": cname})
                    # repeated access to the same row must not re-run processors
                    _, rc2 = counted("result", lambda: [(r[1], r._mapping[list(r._mapping.keys())[1]], tuple(r)) for r in res])
                    if rc2:
                        ctx.violation("row-access-reprocesses", f"{len(rc2)} hook calls on repeated row access ({cname})", {})
                    check_cells(cname, rows_of(res), rows_by_id, fields, depth)
                # scalar subquery (single row)
                some = ids[rng.randrange(len(ids))]
                r1 = c.execute(sa.select(*[sa.select(c_).where(t.c.id == some).scalar_subquery().label(c_.name) for c_ in cols])).one()
                check_cells("scalar_subquery", [(some, dict(zip(fields, r1)))], rows_by_id, fields, 2)
                # ORM
                orm_ctx = {
                    "orm_entity": (1, lambda: [(o.id, {f: getattr(o, f) for f in fields}) for o in s.execute(sa.select(cls)).scalars()]),
                    "orm_columns": (1, lambda: rows_of(s.execute(sa.select(cls.id, *[getattr(cls, f) for f in fields])))),
                    "orm_bundle": (2, lambda: [(i, {f: getattr(b, f) for f in fields}) for i, b in
                                               s.execute(sa.select(cls.id, orm.Bundle("b", *[getattr(cls, f) for f in fields])))]),
                    "orm_aliased_subquery": (3, lambda: [(o.id, {f: getattr(o, f) for f in fields}) for o in s.execute(
                        sa.select(orm.aliased(cls, sa.select(cls).subquery()))).scalars()]),
                    "orm_get": (1, lambda: [(i, {f: getattr(s.get(cls, i, populate_existing=True), f) for f in fields}) for i in ids[:3]]),
                }
                for cname, (depth, fn) in orm_ctx.items():
                    s.expunge_all()
                    got, rc = counted("result", fn)
                    ctx.count("result_hook_calls", len(rc))
                    if cname != "orm_get" and len(rc) != 5 * len(got):
                        ctx.violation("result-hook-call-count", f"{len(rc)} calls for {len(got)} rows x 5 (context {cname})", {"context": cname})
                    check_cells(cname, got, rows_by_id, fields, depth)
                # ---- bind side in criteria: WHERE / IN / literal() -- each comparison value bound once
                present = [(i, r) for i, r in rows_by_id.items() if r["x"] is not None]
                if present:
                    i0, r0 = present[0]
                    found, bc = counted("bind", lambda: c.execute(sa.select(t.c.id).where(t.c.tag == r0["x"])).scalars().all())
                    ctx.count("bind_hook_calls", len(bc))
                    if found != [i0] or len(bc) != 1:
                        ctx.violation("where-comparison-bind-layers", f"WHERE tag == {r0['x']!r} found {found} (expected [{i0}]) "
                                      f"with {len(bc)} bind hook calls", {})
                    xs = [r["x"] for _, r in present[:3]]
                    found, bc = counted("bind", lambda: sorted(c.execute(sa.select(t.c.id).where(t.c.tag.in_(xs))).scalars().all()))
                    ctx.count("bind_hook_calls", len(bc))
                    if found != sorted(i for i, _ in present[:3]) or len(bc) != len(xs):
                        ctx.violation("in-list-bind-layers", f"IN {xs} found {found} with {len(bc)} bind hook calls", {})
                    found, bc = counted("bind", lambda: c.execute(sa.select(t.c.id).where(t.c.otag == r0["x"])).scalars().all())
                    if found != [i0] or len(bc) != 2:
                        ctx.violation("where-comparison-bind-layers", f"nested decorator WHERE found {found} with {len(bc)} calls", {})
                    ctx.count("tag_cells_checked", 3)
                lit, _ = counted("bind", lambda: c.execute(sa.select(sa.literal("zz", type_=Tag()), sa.literal(7, type_=ITag()))).one())
                ctx.count("tag_cells_checked", 2)
                if tuple(lit) != ("R[B[zz]]", (7 * 10 + 1) * 10 + 2):
                    ctx.violation("literal-of-decorated-type-layers", f"select(literal('zz', Tag)) gave {tuple(lit)!r}", {})
            # ---- INSERT FROM SELECT copies stored values without Python processing; UPDATE SET binds once
            with eng.begin() as c:
                _, bc = counted("bind", lambda: c.execute(sa.insert(t2).from_select(["id", "tag", "itag"], sa.select(t.c.id, t.c.tag, t.c.itag))))
                if bc:
                    ctx.violation("insert-from-select-ran-bind-hook", f"{bc[:4]}", {})
                got = c.execute(sa.select(t2.c.id, t2.c.tag, t2.c.itag)).all()
                for i, tg, it in got:
                    e = expect(rows_by_id[i])
                    ctx.count("tag_cells_checked", 2)
                    if (tg, it) != (e["tag"], e["itag"]):
                        ctx.violation("tag-layers-via-insert_from_select", f"{(tg, it)} expected {(e['tag'], e['itag'])}", {})
                res, bc = counted("bind", lambda: c.execute(sa.update(t2).values(tag="upd", itag=3).returning(t2.c.tag, t2.c.itag)).all())
                ctx.count("bind_hook_calls", len(bc))
                if len(bc) != 2 or any(tuple(r) != ("R[B[upd]]", 312) for r in res):
                    ctx.violation("update-set-bind-layers", f"UPDATE SET gave {res[:3]} with {len(bc)} bind calls", {})
                res = c.execute(sa.delete(t2).returning(t2.c.tag)).scalars().all()
                if any(v != "R[B[upd]]" for v in res):
                    ctx.violation("tag-layers-via-delete_returning", f"{res[:3]}", {})
            # ---- SQL-level pair: bind_expression / column_expression
            sql_tag_part(ctx, sa, orm, eng, q, qcls, rng, rnd)
            # ---- name-matched result columns under a changing cursor column order
            name_matched_part(ctx, sa, eng, Tag, ITag, calls, rng, rnd)
            # ---- typed label / type_coerce / cast over a differently typed column, through derived selectables
            typed_wrapper_part(ctx, sa, eng, t, rows_by_id, Tag, ITag, calls)
            # ---- hostile column / bind parameter names under this round's paramstyle
            hostile_names_part(ctx, sa, eng, pstyle, Tag, ITag, Outer, JTag, calls, rng, rnd)
            md.drop_all(eng)
            eng.dispose()
    finally:
        reg.dispose()


def typed_wrapper_part(ctx, sa, eng, t, rows_by_id, Tag, ITag, calls):
    """``label(name, expr, type_=T)`` / ``type_coerce(expr, T)`` / ``cast(expr, T)`` where T (a
    tagging decorator) differs from the type of expr (plain String / Integer column), selected
    directly and through subquery, CTE, nested re-labelled subqueries and a union used as a
    subquery: result processing exactly once (``R[x]`` / ``x*10+2``), never zero times."""
    wrappers = {
        "typed_label": lambda: (sa.label("ws", t.c.plain, type_=Tag()), sa.label("wi", t.c.id, type_=ITag())),
        "type_coerce": lambda: (sa.type_coerce(t.c.plain, Tag()).label("ws"), sa.type_coerce(t.c.id, ITag()).label("wi")),
        "cast": lambda: (sa.cast(t.c.plain, Tag()).label("ws"), sa.cast(t.c.id, ITag()).label("wi")),
    }

    def base(w):
        return sa.select(t.c.id.label("wid"), *wrappers[w]())

    def sub(w):
        sq = base(w).subquery()
        return sa.select(sq.c.wid, sq.c.ws, sq.c.wi)

    def cte(w):
        c1 = base(w).cte("twc")
        return sa.select(c1.c.wid, c1.c.ws, c1.c.wi)

    def nested(w):
        s1 = base(w).subquery("t1")
        s2 = sa.select(s1.c.wid.label("wid2"), s1.c.ws.label("ws2"), s1.c.wi.label("wi2")).subquery("t2")
        s3 = sa.select(s2).subquery("t3")
        return sa.select(s3.c.wid2, s3.c.ws2, s3.c.wi2)

    def union(w):
        u = sa.union_all(base(w).where(t.c.id % 2 == 0), base(w).where(t.c.id % 2 == 1)).subquery("tu")
        return sa.select(u.c.wid, u.c.ws, u.c.wi)

    with eng.connect() as c:
        for w in wrappers:
            for dname, depth, mk in (("direct", 1, base), ("subquery", 2, sub), ("cte", 2, cte), ("nested", 3, nested),
                                     ("union_subquery", 3, union)):
                n0 = len(calls["result"])
                rows = c.execute(mk(w)).all()
                rc = calls["result"][n0:]
                ctx.count("result_hook_calls", len(rc))
                cname = f"{w}_{dname}"
                if len(rc) != 2 * len(rows):
                    ctx.violation("result-hook-call-count", f"{len(rc)} result hook calls for {len(rows)} rows x 2 hooks "
                                  f"(context {cname})", {"context": cname})
                for i, ws, wi in rows:
                    x = rows_by_id[i]["x"]
                    ctx.count("tag_cells_checked", 2)
                    ctx.count("typed_wrapper_cells", 2)
                    want = (None if x is None else f"R[{x}]", i * 10 + 2)
                    if (ws, wi) != want:
                        ctx.violation("typed-wrapper-result-processing-layers",
                                      f"{w} over a plain column selected via {dname}: got {(ws, wi)!r} expected {want!r}",
                                      {"context": cname})
                        ctx.seen("typed_wrapper_failure_context", cname)
                        break
                ctx.seen("tag_context", cname)
                ctx.case({"part": "B-typed-wrapper", "context": cname, "shard": ctx.shard}, nontrivial=depth >= 2)


def hostile_names_part(ctx, sa, eng, pstyle, Tag, ITag, Outer, JTag, calls, rng, rnd):
    """tagging decorators on columns whose NAMES need quoting / bind-name escaping (space . : % ( )
    [ ]), under the engine's paramstyle: INSERT single / executemany / RETURNING, UPDATE SET, WHERE
    comparison, and an explicitly named ``bindparam("hostile name", type_=Tag())``: bind processing
    exactly once (stored ``B[x]``), result processing exactly once."""
    import datetime as dt

    shift = rnd + ctx.shard
    bases = [("tag", Tag()), ("itag", ITag()), ("otag", Outer()), ("jtag", JTag()), ("when", sa.DateTime()),
             ("iv", sa.Interval()), ("en", sa.Enum("a", "b c", name="hn_e", native_enum=False))]
    names = {b: hostile(b, j + shift + 1) for j, (b, _) in enumerate(bases)}   # +1: start beyond the plain pattern
    md = sa.MetaData()
    t = sa.Table(f"hn{rnd}", md, sa.Column("id", sa.Integer, primary_key=True),
                 *[sa.Column(names[b], typ) for b, typ in bases])
    # the String / Integer based decorators alone: a skipped bind processor is silent there (no
    # driver error), so they also get a table of their own
    ts = sa.Table(f"hs{rnd}", md, sa.Column("id", sa.Integer, primary_key=True),
                  *[sa.Column(names[b], typ) for b, typ in bases[:3]])
    N = names
    md.create_all(eng)
    try:
        svals = [{"id": i + 1, N["tag"]: f"s{ctx.shard}.{rnd}.{i}", N["itag"]: i, N["otag"]: f"s{ctx.shard}.{rnd}.{i}"}
                 for i in range(3)]
        n0 = len(calls["bind"])
        with eng.begin() as c:
            c.execute(sa.insert(ts), svals[0])
            c.execute(sa.insert(ts), svals[1:])
            sraw = c.exec_driver_sql("SELECT id, %s FROM %s ORDER BY id" % (", ".join(qn(N[b]) for b in ("tag", "itag", "otag")),
                                                                           ts.name)).fetchall()
        bc = calls["bind"][n0:]
        ctx.count("bind_hook_calls", len(bc))
        ds = {"paramstyle": pstyle, "names": sorted(N[b] for b in ("tag", "itag", "otag"))}
        if len(bc) != 4 * len(svals):
            ctx.violation("bind-hook-call-count-hostile-names", f"{len(bc)} bind hook calls for {len(svals)} rows x 4 hooks "
                          f"({ds})", ds)
        for (i, tg, it, ot), v in zip(sraw, svals):
            x = v[N["tag"]]
            ctx.count("tag_cells_checked", 3)
            if (tg, it, ot) != (f"B[{x}]", v[N["itag"]] * 10 + 1, f"B[OB[{x}]]"):
                ctx.violation("stored-value-bind-layers-hostile-names",
                              f"stored {(tg, it, ot)!r} for {x!r}: bind processing not applied exactly once ({ds})", ds)
                break
        vals = []
        for i in range(rng.randint(3, 6)):
            x = f"h{ctx.shard}.{rnd}.{i}"
            vals.append({"id": i + 1, N["tag"]: x, N["itag"]: i, N["otag"]: x, N["jtag"]: {"k": i},
                         N["when"]: dt.datetime(2000 + i, 1, 2, 3, 4, 5, i + 1), N["iv"]: dt.timedelta(days=-i, microseconds=i),
                         N["en"]: rng.choice(["a", "b c"])})
        n0 = len(calls["bind"])
        with eng.begin() as c:
            c.execute(sa.insert(t), vals[0])
            c.execute(sa.insert(t), vals[1:-1])
            ret = c.execute(sa.insert(t).returning(t.c.id, t.c[N["tag"]]), [vals[-1]]).all()
        bc = calls["bind"][n0:]
        ctx.count("bind_hook_calls", len(bc))
        ctx.count("hostile_name_rows", len(vals))
        d = {"paramstyle": pstyle, "names": sorted(N.values())}
        if len(bc) != 5 * len(vals):
            ctx.violation("bind-hook-call-count-hostile-names", f"{len(bc)} bind hook calls for {len(vals)} rows x 5 hooks "
                          f"({d})", d)
        if ret and ret[0][1] != f"R[B[{vals[-1][N['tag']]}]]":
            ctx.violation("tag-layers-hostile-names", f"RETURNING gave {ret[0][1]!r} ({d})", d)
        with eng.connect() as c:
            raw = c.exec_driver_sql("SELECT id, %s FROM %s ORDER BY id" % (", ".join(qn(N[b]) for b in ("tag", "itag", "otag")), t.name)).fetchall()
            for (i, tg, it, ot), v in zip(raw, vals):
                x = v[N["tag"]]
                ctx.count("tag_cells_checked", 3)
                if (tg, it, ot) != (f"B[{x}]", v[N["itag"]] * 10 + 1, f"B[OB[{x}]]"):
                    ctx.violation("stored-value-bind-layers-hostile-names",
                                  f"stored {(tg, it, ot)!r} for {x!r}: bind processing not applied exactly once ({d})", d)
                    break
            got = {r[0]: r for r in c.execute(sa.select(t))}
            for v in vals:
                r = got[v["id"]]._mapping
                x = v[N["tag"]]
                want = {N["tag"]: f"R[B[{x}]]", N["itag"]: (v[N["itag"]] * 10 + 1) * 10 + 2, N["otag"]: f"OR[R[B[OB[{x}]]]]",
                        N["jtag"]: {"R": {"B": v[N["jtag"]]}}, N["when"]: v[N["when"]], N["iv"]: v[N["iv"]], N["en"]: v[N["en"]]}
                ctx.count("tag_cells_checked", len(want))
                bad = {k2: (r[k2], w2) for k2, w2 in want.items() if r[k2] != w2}
                if bad:
                    ctx.violation("tag-layers-hostile-names", f"round trip through hostile column names: {bad} ({d})", d)
                    break
            # WHERE comparison (generated bind name derives from the column name) and an explicit bindparam name
            v0 = vals[0]
            n1 = len(calls["bind"])
            f1 = c.execute(sa.select(t.c.id).where(t.c[N["tag"]] == v0[N["tag"]])).scalars().all()
            pname = hostile("my param", shift + 2)
            f2 = c.execute(sa.select(t.c.id).where(t.c[N["otag"]] == sa.bindparam(pname, type_=Outer())),
                           {pname: v0[N["otag"]]}).scalars().all()
            bc = calls["bind"][n1:]
            ctx.count("bind_hook_calls", len(bc))
            if f1 != [v0["id"]] or f2 != [v0["id"]] or len(bc) != 3:
                ctx.violation("where-comparison-bind-layers-hostile-names",
                              f"WHERE on hostile names found {f1} / {f2} (expected [{v0['id']}]) with {len(bc)} bind hook calls "
                              f"(expected 3), bindparam name {pname!r} ({d})", d)
        with eng.begin() as c:
            n2 = len(calls["bind"])
            res = c.execute(sa.update(t).values({N["tag"]: "upd", N["itag"]: 3}).where(t.c.id == vals[0]["id"])
                            .returning(t.c[N["tag"]], t.c[N["itag"]])).all()
            bc = calls["bind"][n2:]
            if len(bc) != 2 or [tuple(r) for r in res] != [("R[B[upd]]", 312)]:
                ctx.violation("update-set-bind-layers-hostile-names", f"UPDATE SET gave {res} with {len(bc)} bind calls ({d})", d)
        ctx.seen("hostile_name_paramstyle", pstyle)
        ctx.case({"part": "B-hostile-names", "paramstyle": pstyle, "shift": shift % len(NAME_PATTERNS)}, nontrivial=True)
    finally:
        md.drop_all(eng)


def name_matched_part(ctx, sa, eng, Tag, ITag, calls, rng, rnd):
    """``text("SELECT * ...").columns(name=type, ...)`` (keyword form: result columns are matched
    to the cursor by *name*) executed repeatedly - as one statement object and as freshly built,
    equal statements - while the cursor's column order changes underneath (table re-created
    with another column order, view redefined).  Every execution must apply each decorator
    exactly once to the column of that name."""
    names = ["id", "tag", "plain", "itag", "other"]
    sqltype = {"id": "INTEGER", "tag": "VARCHAR", "plain": "VARCHAR", "itag": "INTEGER", "other": "VARCHAR"}
    tbl = sa.Table("nm", sa.MetaData(), sa.Column("id", sa.Integer), sa.Column("tag", Tag()), sa.Column("plain", sa.String),
                   sa.Column("itag", ITag()), sa.Column("other", sa.String))

    def mk(src):
        return sa.text(f"SELECT * FROM {src}").columns(tag=Tag(), itag=ITag(), plain=sa.String(), id=sa.Integer(),
                                                       other=sa.String())

    fixed = {"nm": mk("nm"), "nmv": mk("nmv")}
    for step in range(4):
        order = list(names)
        vorder = list(names)
        if step:
            rng.shuffle(order)
            rng.shuffle(vorder)
        vals = [f"n{ctx.shard}.{rnd}.{step}.{i}" for i in range(3)]
        with eng.begin() as c:
            c.exec_driver_sql("DROP VIEW IF EXISTS nmv")
            c.exec_driver_sql("DROP TABLE IF EXISTS nm")
            c.exec_driver_sql("CREATE TABLE nm (%s)" % ", ".join(f"{n} {sqltype[n]}" for n in order))
            c.exec_driver_sql("CREATE VIEW nmv AS SELECT %s FROM nm" % ", ".join(vorder))
            c.execute(sa.insert(tbl), [{"id": i, "tag": v, "plain": v, "itag": i, "other": "o" + v} for i, v in enumerate(vals)])
        with eng.connect() as c:
            for src, cursor_order in (("nm", order), ("nmv", vorder)):
                for stmt_kind in ("same_object", "fresh_equal", "fresh_equal"):
                    stmt = fixed[src] if stmt_kind == "same_object" else mk(src)
                    n0 = len(calls["result"])
                    rows = c.execute(stmt).all()
                    rc = calls["result"][n0:]
                    ctx.count("result_hook_calls", len(rc))
                    ctx.count("name_matched_executions")
                    d = {"source": src, "step": step, "cursor_order": cursor_order, "stmt": stmt_kind}
                    if len(rc) != 2 * len(rows) or len(rows) != len(vals):
                        ctx.violation("result-hook-call-count", f"{len(rc)} result hook calls for {len(rows)} rows x 2 hooks "
                                      f"(name-matched text columns, {d})", d)
                    for r in rows:
                        m = r._mapping
                        i = m["id"]
                        ctx.count("tag_cells_checked", 4)
                        want = {"tag": f"R[B[{vals[i]}]]" if isinstance(i, int) and 0 <= i < len(vals) else None,
                                "plain": vals[i] if isinstance(i, int) and 0 <= i < len(vals) else None,
                                "itag": (i * 10 + 1) * 10 + 2 if isinstance(i, int) else None,
                                "other": "o" + vals[i] if isinstance(i, int) and 0 <= i < len(vals) else None}
                        got = {k2: m[k2] for k2 in want}
                        attr = {"tag": r.tag, "plain": r.plain, "itag": r.itag, "other": r.other}
                        if got != want or attr != want:
                            ctx.violation("name-matched-columns-processing-on-wrong-column",
                                          f"text('SELECT * FROM {src}').columns(tag=Tag, itag=ITag, ...) execution "
                                          f"({stmt_kind}) with cursor order {cursor_order}: got {got} expected {want}", d)
                            break
            ctx.case({"part": "B-name-matched", "step": step, "shard": ctx.shard}, nontrivial=step > 0)
    with eng.begin() as c:
        c.exec_driver_sql("DROP VIEW IF EXISTS nmv")
        c.exec_driver_sql("DROP TABLE IF EXISTS nm")
    ctx.seen("tag_context", "text_columns_by_name_reordered")


def sql_tag_part(ctx, sa, orm, eng, q, qcls, rng, rnd):
    vals = [f"s{ctx.shard}.{rnd}.{i}" for i in range(4)]
    with eng.begin() as c:
        c.execute(sa.insert(q), {"st": vals[0], "plain": vals[0]})
        c.execute(sa.insert(q), [{"st": v, "plain": v} for v in vals[1:]])
    with eng.connect() as c, orm.Session(eng) as s:
        raw = dict(c.exec_driver_sql("SELECT plain, st FROM sq").fetchall())
        for v in vals:
            ctx.count("sqltag_cells_checked")
            if raw.get(v) != f"b[{v}]":
                ctx.violation("bind-expression-layers", f"stored {raw.get(v)!r} for {v!r}", {})
        exp = {v: f"r[b[{v}]]" for v in vals}

        def chk(cname, pairs, depth):
            for p, g in pairs:
                ctx.count("sqltag_cells_checked")
                if g != exp[p]:
                    ctx.violation("column-expression-layers", f"got {g!r} expected {exp[p]!r} (context {cname})", {"context": cname})
                    ctx.seen("column_expression_failure_context", cname)
            ctx.case({"part": "B-sql", "context": cname, "shard": ctx.shard}, nontrivial=depth >= 2)

        chk("plain", c.execute(sa.select(q.c.plain, q.c.st)).all(), 1)
        chk("label", c.execute(sa.select(q.c.plain, q.c.st.label("zz"))).all(), 1)
        sq = sa.select(q).subquery()
        chk("subquery", c.execute(sa.select(sq.c.plain, sq.c.st)).all(), 2)
        s1 = sa.select(q.c.plain.label("p1"), q.c.st.label("s1")).subquery()
        s2 = sa.select(s1.c.p1.label("p2"), s1.c.s1.label("s2")).subquery()
        chk("nested_labels", c.execute(sa.select(s2.c.p2, s2.c.s2)).all(), 3)
        c1 = sa.select(q).cte("c1")
        chk("cte", c.execute(sa.select(c1.c.plain, c1.c.st)).all(), 2)
        u = sa.union_all(sa.select(q.c.plain, q.c.st).where(q.c.id % 2 == 0), sa.select(q.c.plain, q.c.st).where(q.c.id % 2 == 1))
        chk("union_direct", c.execute(u).all(), 2)
        us = u.subquery()
        chk("union_subquery", c.execute(sa.select(us.c.plain, us.c.st)).all(), 3)
        chk("where_bind", [(v, c.execute(sa.select(q.c.st).where(q.c.st == v)).scalar_one()) for v in vals[:2]], 1)
        chk("orm_entity", [(o.plain, o.st) for o in s.execute(sa.select(qcls)).scalars()], 1)
        al = orm.aliased(qcls, sa.select(qcls).subquery())
        chk("orm_aliased_subquery", [(o.plain, o.st) for o in s.execute(sa.select(al)).scalars()], 3)
        chk("orm_bundle", [(p, b.st) for p, b in s.execute(sa.select(qcls.plain, orm.Bundle("b", qcls.st)))], 2)
    with eng.begin() as c:
        chk("update_returning", c.execute(sa.update(q).values(plain=q.c.plain).returning(q.c.plain, q.c.st)).all(), 1)
        chk("delete_returning", c.execute(sa.delete(q).returning(q.c.plain, q.c.st)).all(), 1)


# ======================================================================================
# Part C - processor symmetry on other dialects (no server)
# ======================================================================================
def part_c(ctx, sa):
    import datetime as dt
    import enum
    import uuid

    from sqlalchemy.dialects import mssql, mysql, oracle, postgresql, sqlite

    rng = ctx.rng

    class Shade(enum.Enum):
        dark = "d"
        light = "l"

    dialects = {
        "postgresql": postgresql.dialect(), "mysql": mysql.dialect(), "mssql": mssql.dialect(),
        "oracle": oracle.dialect(), "sqlite": sqlite.dialect(),
    }
    epoch = dt.datetime(1970, 1, 1)
    types = {
        "interval": (lambda: sa.Interval(native=False), lambda: dt.timedelta(microseconds=rng.randrange(-10 ** 15, 10 ** 15))),
        "enum": (lambda: sa.Enum(Shade, native_enum=False), lambda: rng.choice(list(Shade))),
        "enum_str": (lambda: sa.Enum("x", "y z", native_enum=False), lambda: rng.choice(["x", "y z"])),
        "json": (lambda: sa.JSON(), lambda: rng.choice([{"a": [1, None, "\u00e9"]}, [], "s", 3, None, {"n": {"m": 1.5}}])),
        "uuid_char": (lambda: sa.Uuid(native_uuid=False), lambda: uuid.UUID(int=rng.getrandbits(128))),
        "uuid_char_str": (lambda: sa.Uuid(as_uuid=False, native_uuid=False), lambda: str(uuid.UUID(int=rng.getrandbits(128)))),
        "pickle": (lambda: sa.PickleType(), lambda: rng.choice([{"a": (1, 2)}, [None], {1, 2}, "s", 1.5])),
        "bool": (lambda: sa.Boolean(), lambda: rng.random() < 0.5),
    }
    n = ctx.pick({"quick": 40, "thorough": 400})
    for dname, d in dialects.items():
        for tname, (mk, gen) in types.items():
            typ = mk()
            try:
                impl = typ.dialect_impl(d)
                bp = typ._cached_bind_processor(d)
                rp = typ._cached_result_processor(d, None)
            except Exception as e:
                ctx.violation(f"processor-construction-raised-{tname}", f"{dname}: {e!r}", {})
                continue
            if bp is None or rp is None:
                ctx.seen("processor_pair_absent", f"{dname}/{tname}")
                continue
            for _ in range(n):
                v = gen()
                try:
                    back = rp(bp(v))
                except Exception as e:
                    ctx.violation(f"processor-pair-raised-{tname}", f"{dname} {typ!r} value {v!r}: {e!r}", {"impl": repr(impl)})
                    break
                ctx.count("processor_pairs_checked")
                if back != v or type(back) is not type(v):
                    ctx.violation(f"processor-pair-asymmetric-{tname}", f"{dname} {typ!r}: {v!r} -> {back!r}", {"impl": repr(impl)})
                    break
            ctx.seen("processor_pair", f"{dname}/{tname}")
    # ARRAY (PostgreSQL only): item processors applied once per element at any depth
    pg = dialects["postgresql"]
    arrays = [
        (postgresql.ARRAY(sa.Enum(Shade, native_enum=False)), lambda: [rng.choice(list(Shade)) for _ in range(rng.randint(0, 4))]),
        (postgresql.ARRAY(sa.Enum(Shade, native_enum=False), dimensions=2),
         lambda: [[rng.choice(list(Shade)) for _ in range(2)] for _ in range(rng.randint(1, 3))]),
        (postgresql.ARRAY(sa.Interval(native=False)), lambda: [dt.timedelta(seconds=rng.randint(-10 ** 6, 10 ** 6)) for _ in range(3)]),
        (postgresql.ARRAY(sa.PickleType()), lambda: [{"a": i} for i in range(rng.randint(0, 3))]),
        (postgresql.ARRAY(sa.Uuid(native_uuid=False)), lambda: [uuid.UUID(int=rng.getrandbits(128)), None]),
    ]
    for typ, gen in arrays:
        bp = typ._cached_bind_processor(pg)
        rp = typ._cached_result_processor(pg, None)
        if bp is None or rp is None:
            ctx.seen("processor_pair_absent", f"postgresql/{typ!r}")
            continue
        for _ in range(n):
            v = gen()
            back = rp(bp(v))
            ctx.count("processor_pairs_checked")
            if back != v:
                ctx.violation("processor-pair-asymmetric-array", f"{typ!r}: {v!r} -> {back!r}", {})
                break
        ctx.seen("processor_pair", f"postgresql/array-{typ.item_type.__class__.__name__}-{typ.dimensions}")
    del epoch
    ctx.case({"part": "C", "shard": ctx.shard}, nontrivial=True)


def run(ctx):
    import warnings

    import sqlalchemy as sa
    from sqlalchemy import orm

    warnings.simplefilter("ignore")

    from vf.mon.dbapi_spy import Spy
    from vf.mon.sqlite_shim_gd import spy_engine

    def engine_factory(paramstyle="qmark"):
        spy = Spy()
        spy.enabled = False
        return spy_engine(spy, ":memory:", paramstyle, poolclass=sa.pool.StaticPool)

    # the first round of every part always runs (the soft deadline only stops further rounds)
    for name, part in (("A", part_a), ("B", part_b)):
        try:
            part(ctx, sa, orm, engine_factory)
        except Exception as e:
            # a valid insert / select of an in-domain value must not raise.  Only exceptions whose
            # innermost frame lies outside this module (i.e. raised by the library or by what it
            # calls) are judged; anything raised by the harness itself crashes the shard.
            if not library_raised(e):
                raise
            import traceback

            where = traceback.extract_tb(e.__traceback__)[-1]
            ctx.violation(f"roundtrip-raised-{type(e).__name__}",
                          f"part {name}: {e!r} raised in {where.filename.rsplit('/', 1)[-1]}:{where.name}"[:500],
                          {"part": name, "trace": traceback.format_exc()[-1500:]})
    part_c(ctx, sa)
    part_d(ctx, sa)


def part_d(ctx, sa):
    """Other dialects' paramstyles (pyformat / format / qmark) at the recording fake DBAPI: INSERT
    (single and executemany) into a table whose column names need bind-name escaping; every value
    must reach the driver bind-processed exactly once (decorator layers visible in the value; for
    Enum / JSON the recorded parameter is the type's own wire form)."""
    import enum
    import json

    from vf.mon.fake_dbapi import recording_engine

    rng = ctx.rng
    calls, Tag, ITag, Outer, JTag, SqlTag = make_tags(sa)

    class Mood(enum.Enum):
        up = 1
        down = 2

    urls = ("postgresql+psycopg2://u:p@h/db", "postgresql+psycopg://u:p@h/db", "postgresql+pg8000://u:p@h/db",
            "mysql+pymysql://u:p@h/db", "mysql+mysqldb://u:p@h/db", "mariadb+mariadbconnector://u:p@h/db")
    for k, url in enumerate(urls):
        shift = k + ctx.shard
        bases = [("tag", Tag()), ("itag", ITag()), ("otag", Outer()), ("mood", sa.Enum(Mood, native_enum=False, length=10)),
                 ("js", sa.JSON())]
        N = {b: hostile(b, j + shift + 1) for j, (b, _) in enumerate(bases)}
        md = sa.MetaData()
        t = sa.Table("hd", md, sa.Column("id", sa.Integer, primary_key=True, autoincrement=False),
                     *[sa.Column(N[b], typ) for b, typ in bases])
        rows = []
        for i in range(3):
            x = f"d{ctx.shard}.{k}.{i}"
            rows.append({"id": i + 1, N["tag"]: x, N["itag"]: 7 + i, N["otag"]: x, N["mood"]: rng.choice(list(Mood)),
                         N["js"]: {"k": [i, None, x]}})
        eng, fake = recording_engine(url)
        d = {"fake": url.split(":")[0], "paramstyle": eng.dialect.paramstyle, "names": sorted(N.values())}
        n0 = len(calls["bind"])
        try:
            with eng.connect() as c:
                c.execute(sa.insert(t), rows[0])
                c.execute(sa.insert(t), rows[1:])
        except Exception as e:
            if not library_raised(e):
                raise
            ctx.violation(f"fake-insert-raised-{type(e).__name__}", f"{d}: {e!r}"[:400], d)
            eng.dispose()
            continue
        eng.dispose()
        bc = calls["bind"][n0:]
        ctx.count("bind_hook_calls", len(bc))
        if len(bc) != 4 * len(rows):
            ctx.violation("bind-hook-call-count-hostile-names", f"{len(bc)} bind hook calls for {len(rows)} rows x 4 hooks ({d})", d)
        delivered = []
        for sql, params in fake.statements():
            if not (sql or "").lstrip().startswith("INSERT"):
                continue
            for ps_ in (params if isinstance(params, list) else [params]):
                delivered.append(list(ps_.values()) if isinstance(ps_, dict) else list(ps_))
        # (a dialect may batch the executemany into one multi-VALUES statement: judge the values)
        flat = [g for dl in delivered for g in dl]
        strs = {g for g in flat if isinstance(g, (str, int)) and not isinstance(g, bool)}
        # JSON wire form is driver specific (str, or psycopg's Json wrapper): where the dialect's JSON
        # type has a bind processor the raw dict must not reach the driver, and a str form must decode
        json_processed = t.c[N["js"]].type._cached_bind_processor(eng.dialect) is not None
        raw_dicts = [g for g in flat if isinstance(g, dict)]
        jsons = [json.loads(g) for g in flat if isinstance(g, str) and g.startswith("{")]
        ok = True
        for r in rows:
            x = r[N["tag"]]
            want = {f"B[{x}]", r[N["itag"]] * 10 + 1, f"B[OB[{x}]]", r[N["mood"]].name}
            ctx.count("fake_bind_values_checked", len(want) + 1)
            if not want <= strs or (json_processed and raw_dicts) or (jsons and r[N["js"]] not in jsons):
                ok = False
        if not ok:
            ctx.violation("fake-bind-processing-hostile-names",
                          f"{d}: the driver received {delivered[:2]} for rows {[{k2: repr(v) for k2, v in r.items()} for r in rows[:2]]}", d)
        ctx.seen("fake_bind_paramstyle", f"{d['fake']}/{d['paramstyle']}")
        ctx.case({"part": "D", "fake": d["fake"], "shift": shift % len(NAME_PATTERNS)}, nontrivial=True)


def library_raised(e):
    import traceback

    frames = traceback.extract_tb(e.__traceback__)
    return bool(frames) and "/vf/props/" not in frames[-1].filename
