"""C10 -- Result objects deliver exactly the underlying rows under any access pattern.

Monitor: every call made on a Result / ScalarResult / MappingResult of a generated
sequence is executed on the real object and on a plain-list model
(``vf/models/resultmodel_gf.py``: a row list, a position, a projection, a seen-set, a
closed flag) and the normalised return value / exception type are compared immediately.
Each sequence ends with a conservation step (``all()`` on the surviving handle): what was
delivered before + what is delivered now + what a closing call discarded == the rows
supplied, each once, in order.

Sources (fetch strategies)
  * IteratorResult, ChunkedIteratorResult (also ``source_supports_scalars`` and
    ``dynamic_yield_per``), FrozenResult() copies, MergedResult;
  * CursorResult on SQLite over a table with Integer/String/JSON/Boolean columns (result
    processors active, JSON gives unhashable values): default CursorFetchStrategy,
    BufferedRowCursorFetchStrategy with max_row_buffer 1/2/5/1000 (installed the way
    ``_setup_result_proxy`` does for a server-side cursor: SQLite has none),
    ``execution_options(yield_per=n)``, FullyBufferedCursorFetchStrategy (installed, and
    the natural INSERT..RETURNING executemany path).
Operations: __iter__/__next__, fetchone, fetchmany(n|None), fetchall/all, partitions(n|None),
first, one, one_or_none, scalar, scalar_one(_or_none), scalars(i|name), mappings, columns,
tuples, unique(strategy), yield_per, freeze -> __call__, merge, close, closed, keys.
Projection chains: every chain columns -> columns -> {scalars | mappings().columns | columns}
over a fixed family (by position / by name / negative, reordering and dropping leading
columns) on each cursor strategy (6 typed columns whose values identify their column) and
on 5-column iterator sources, plus random chains.
Exhaustive sequences (length <= 3 quick / <= 4 thorough) over a reduced alphabet x 5 row
sets x 6 sources (quick: 3 cursor windows), and random sequences up to 12 calls.

Guards (documented-open behaviour that is NOT asserted; encoded in ResultModel.allowed)
  * fetchmany(None)/partitions(None) without yield_per: batch size is backend specific -
    any non-empty prefix is accepted; not generated at all on a unique()-filtered view
    (how many raw rows are consumed is then undefined);
  * the seen-set shared between a Result and the views that inherit its unique(): only the
    first of them that fetches is used afterwards;
  * columns()/unique() on the Result after views were created, yield_per after the first
    fetch (documented as configuration steps), freeze() on a consumed / unique() result;
  * whether first()/one() on an already exhausted result hard-closes it (IteratorResult
    does, CursorResult does not): the closed state is taken from the observation;
  * one()/first() on unique() views with unhashable rows (they compare with ==, the other
    calls hash); state after a TypeError from the unique filter;
  * strategies passed to unique() are chosen so that they give the same partition for the
    Row and for the scalar; ``lambda row: row[0]`` only on Row/Mapping views;
  * dynamic_yield_per sources are only driven by fetchmany/partitions/all/one-row calls
    (the class re-creates its chunk iterator per fetchmany by design);
  * which row objects are discarded by first()/close(), rowcount, cursor closing time.

Candidate genuine defects found on the unchanged tree (kept firing, own mechanisms)
  * ``merged-result-usable-after-close``: MergedResult._soft_close() neither sets
    ``_hard_closed`` nor drops its iterator: after close()/first()/one() the merged result
    keeps delivering the rest of the rows instead of raising ResourceClosedError.
  * ``only-one-row-ignores-unique-seen``: first()/one()/scalar*() never consult the
    unique() seen-set for the row they return: after partial consumption through the same
    unique() filter a row already delivered is delivered again (or counted as a second row).
  * ``view-unique-after-fetch-stale-getter``: ScalarResult.unique() / MappingResult.unique()
    are not ``@_generative`` (Result.unique() is): called after the view already fetched,
    the memoized one-row / many-row getters keep running without the filter while all()
    applies it, so rows already delivered come back.
"""
from __future__ import annotations

META = {
    "id": "C10",
    "level": "exploration",
    "technique": "plain-list reference model compared on every Result call; exhaustive short call sequences + random long ones over all fetch strategies",
    "level_text": "Every sequence of <=3 (quick) / <=4 (thorough; plus <=3 over a 21-call alphabet) calls over a reduced 14-call alphabet (Result + scalars + mappings views) for 5 row sets and 6 sources is enumerated; random sequences of <=12 calls over the full API with 0..7 (quick) / 0..40 (thorough) rows incl. duplicates, NULLs, equal-but-distinct and unhashable values; both with the compiled and the pure-Python _result_cy/_row_cy.",
    "level_note": "Only SQLite executes: CursorResult strategies are exercised on sqlite3 cursors; BufferedRow/FullyBuffered strategies are installed on the result the way the execution context does for server-side cursors (no such cursor exists here). ORM-specific unique filters (_create_unique_filters) are out of scope. The model is ~300 trusted lines.",
    "design_ref": "DESIGN.md section 4, C10",
    "rule": "case = (source spec, call sequence); non-trivial = at least 2 fetching calls and >= 1 row; distinct by the full descriptor",
    "shards": {"quick": 8, "thorough": 16},
    "modes": ["cext", "purepy"],
    "soft_s": {"quick": 150, "thorough": 800},
    "exhaustive": {"quick": True, "thorough": True},
    "require": ["result_calls", "rows_delivered", "unique_rows_filtered", "closed_error_checks",
                "src_iter", "src_chunked", "src_cursor_default", "src_cursor_buffered", "src_cursor_fully",
                "src_cursor_yield", "src_cursor_returning", "frozen_thawed", "merged_results",
                "exhaustive_sequences", "random_sequences", "conservation_checks", "expected_exceptions_matched",
                "projection_chains", "projection_chains_depth3"],
    "assumptions": ["reference model vf/models/resultmodel_gf.py is correct"],
}


def count_items(obs):
    if obs[0] == "item":
        return 1
    if obs[0] == "items":
        return len(obs[1])
    if obs[0] == "iter":
        n = 0
        for x in obs[1]:
            n += 1 if (x and isinstance(x[0], str)) else len(x)
        return n
    return 0


def src_name(spec):
    return spec["kind"] if spec["kind"] != "cursor" else "cursor_" + spec["strategy"]


class SeqRunner:
    def __init__(self, ctx, fam, env):
        self.ctx = ctx
        self.fam = fam
        self.env = env

    def run(self, spec, opsource, variant):
        """opsource(model) yields (hname, op); returns the list of executed ops."""
        from vf.gen import resultops_gf as G
        from vf.models.resultmodel_gf import CLOSED_ERR, FETCH_OPS, ONLY_ONE

        ctx = self.ctx
        model = G.spec_model(spec, self.env)
        real = G.RealSeq(self.fam, spec, self.env)
        done = []
        nfetch = 0
        ok = True
        try:
            steps = opsource(model)
            final_done = False
            while True:
                try:
                    hname, op = next(steps)
                except StopIteration:
                    if final_done:
                        break
                    final_done = True
                    # conservation step on the last live result-like handle
                    cand = [n for n, h in model.handles.items()
                            if h.kind != "frozen" and not h.base.dead and not h.base.broken and h.base.closed is False]
                    cand = [n for n in cand if model.allowed(n, ["all"])]
                    if not cand:
                        break
                    hname, op = cand[-1], ["all"]
                    steps = iter(())
                    ctx.count("conservation_checks")
                h = model.handles[hname]
                pre_seen = bool(h.uniq is not None and h.uniq.seen)
                pre_pos = h.base.pos
                robs = real.do(hname, op)
                mobs = model.apply(hname, op, robs)
                done.append([hname, op])
                ctx.count("result_calls")
                if op[0] in FETCH_OPS:
                    nfetch += 1
                    ctx.count("rows_delivered", count_items(robs))
                    if h.uniq is not None:
                        delivered = count_items(mobs)
                        skipped = (h.base.pos - pre_pos) - delivered
                        if skipped > 0 and op[0] not in ONLY_ONE:
                            ctx.count("unique_rows_filtered", skipped)
                ctx.seen("operations", f"{h.kind}.{op[0]}")
                if mobs[0] == "exc" or (mobs[0] == "iter" and mobs[2][0] == "exc"):
                    if mobs[-1] == CLOSED_ERR or (mobs[0] == "iter" and mobs[2][1] == CLOSED_ERR):
                        ctx.count("closed_error_checks")
                if G.obs_match(robs, mobs):
                    if mobs[0] == "exc" or (mobs[0] == "iter" and mobs[2][0] == "exc"):
                        ctx.count("expected_exceptions_matched")
                    continue
                ok = False
                expects_closed = (mobs[0] == "exc" and mobs[1] == CLOSED_ERR) or \
                                 (mobs[0] == "iter" and mobs[2] == ("exc", CLOSED_ERR))
                if h.base.kind == "merged" and (expects_closed or op[0] == "closed"):
                    mech = "merged-result-usable-after-close"
                elif op[0] in ONLY_ONE and pre_seen:
                    mech = "only-one-row-ignores-unique-seen"
                elif h.unique_after_fetch:
                    mech = "view-unique-after-fetch-stale-getter"
                else:
                    exc_r = robs[0] == "exc" or (robs[0] == "iter" and robs[2][0] == "exc")
                    exc_m = mobs[0] == "exc" or (mobs[0] == "iter" and mobs[2][0] == "exc")
                    aspect = "exception" if (exc_r or exc_m) else "values"
                    mech = f"result-{h.kind}-{op[0]}-{aspect}" + ("-unique" if h.uniq is not None else "")
                ctx.violation(
                    mech,
                    f"{src_name(spec)} rows={G.spec_rows(spec, self.env)!r}: after {done[:-1]!r} the call {hname}.{op!r} "
                    f"returned {robs!r}; list model expects {mobs!r}",
                    {"spec": spec, "variant": variant, "calls": done, "observed": robs, "expected": mobs,
                     "family": self.fam.name},
                )
                break
        finally:
            real.finish()
        ctx.count("src_" + src_name(spec))
        nrows = len(G.spec_rows(spec, self.env))
        ctx.case({"spec": spec, "calls": done}, nontrivial=nfetch >= 2 and nrows >= 1)
        return done, ok


def exhaustive_specs(G, quick):
    rs = G.EXH_ROWSETS
    specs = []
    for rows in rs:
        rows = [list(r) for r in rows]
        specs.append({"kind": "iter", "keys": ["a", "b"], "rows": rows})
        specs.append({"kind": "chunked", "keys": ["a", "b"], "rows": rows})
    # cursor windows of the pool: (offset, limit) with 0, 1, 2(dup), 3, 5 rows
    for off, lim in ([(0, 0), (0, 2), (0, 5)] if quick else [(0, 0), (0, 1), (0, 2), (1, 3), (0, 5)]):
        for st, n in [("default", None), ("buffered", 2), ("fully", None), ("yield", 2)]:
            s = {"kind": "cursor", "keys": list(G.POOL_KEYS), "strategy": st, "offset": off, "limit": lim}
            if n:
                s["n"] = n
            specs.append(s)
    return specs


def run(ctx):
    import warnings

    from vf.gen import resultops_gf as G

    warnings.simplefilter("ignore")
    rng = ctx.rng
    fam = G.default_family()
    env = G.CursorEnv()
    runner = SeqRunner(ctx, fam, env)
    try:
        # ---------------- Part A: exhaustive short sequences over the reduced alphabet
        # quick: reduced alphabet (14 calls), length <= 3.  thorough: the same alphabet to
        # length 4 plus the wide alphabet (21 calls) to length 3.
        passes = [("quick", 3)] if ctx.quick else [("quick", 4), ("thorough", 3)]
        specs = exhaustive_specs(G, ctx.quick)
        idx = 0
        for aname, L in passes:
            alpha = G.EXH_ALPHABET[aname]
            for spec in specs:
                if not ctx.budget_ok():
                    break
                for seq in G.exhaustive_sequences(aname, L):
                    idx += 1
                    if not ctx.mine(idx):
                        continue
                    if (idx & 0xFF) == 0 and not ctx.budget_ok():
                        break

                    def opsource(model, seq=seq, alpha=alpha):
                        for k in seq:
                            hname, op = alpha[k]
                            if hname == "s" and "s" not in model.handles:
                                if not model.allowed("r", ["scalars", 0, "s"]):
                                    return
                                yield "r", ["scalars", 0, "s"]
                            if hname == "m" and "m" not in model.handles:
                                if not model.allowed("r", ["mappings", "m"]):
                                    return
                                yield "r", ["mappings", "m"]
                            if not model.allowed(hname, op):
                                return  # the rest of this sequence is outside the documented domain
                            yield hname, list(op)

                    runner.run(spec, opsource, "exhaustive")
                    ctx.count("exhaustive_sequences")
        ctx.count("exhaustive_done")

        # ---------------- Part B: random long sequences, all sources
        n = ctx.pick({"quick": 500, "thorough": 12000})
        maxrows = ctx.pick({"quick": 7, "thorough": 40})
        for k in range(n):
            if (k & 0xF) == 0 and not ctx.budget_ok():
                break
            spec = G.gen_spec(rng, maxrows if rng.random() < 0.8 else 7)
            length = rng.randint(2, 12)

            def opsource(model, spec=spec, length=length):
                return G.random_sequence(rng, model, spec, length, maxrows)

            done, ok = runner.run(spec, opsource, "random")
            ctx.count("random_sequences")
            for hname, op in done:
                if op[0] == "thaw":
                    ctx.count("frozen_thawed")
                if op[0] == "merge":
                    ctx.count("merged_results")
            if k < 3:
                ctx.sample({"spec": spec, "calls": done})

        # ---------------- Part A2: projection chains (columns -> columns -> scalars / mappings().columns /
        # columns; by position and by name; reordering and dropping) on every cursor strategy
        # and on a wide iterator source: wrong column values with the right keys
        wide = [[k * 10 + v for k in range(5)] for v in (0, 1, 1, 2)]
        chain_specs = [{"kind": "iter", "keys": ["a", "b", "c", "d", "e"], "rows": wide},
                       {"kind": "chunked", "keys": ["a", "b", "c", "d", "e"], "rows": wide}]
        for st, nn in [("default", None), ("buffered", 2), ("fully", None), ("yield", 2), ("returning", None)]:
            sp = {"kind": "cursor", "keys": list(G.POOL_KEYS), "strategy": st, "offset": 12, "limit": 4}
            if nn:
                sp["n"] = nn
            if st == "returning":
                sp["rows"] = [list(r) for r in G.make_pool()[12:16]]
            chain_specs.append(sp)
        idx = 0
        for spec in chain_specs:
            for chain in G.exhaustive_projection_chains(spec["keys"]):
                idx += 1
                if not ctx.mine(idx):
                    continue

                def opsource(model, chain=chain):
                    for hname, op in chain:
                        if not model.allowed(hname, op):
                            return
                        yield hname, list(op)

                done, ok = runner.run(spec, opsource, "projection-chain")
                ctx.count("projection_chains")
                if sum(1 for _, op in done if op[0] in ("columns", "scalars")) >= 3:
                    ctx.count("projection_chains_depth3")
        n = ctx.pick({"quick": 150, "thorough": 4000})
        for k in range(n):
            if (k & 0xF) == 0 and not ctx.budget_ok():
                break
            spec = G.gen_spec(rng, maxrows)
            if len(spec["keys"]) < 4:
                continue

            def opsource(model):
                return G.projection_chain(rng, model)

            done, ok = runner.run(spec, opsource, "projection-chain-random")
            ctx.count("projection_chains")
            if sum(1 for _, op in done if op[0] in ("columns", "scalars")) >= 3:
                ctx.count("projection_chains_depth3")

        # ---------------- Part C: directed buckets (freeze/thaw, merge, unique+partial)
        n = ctx.pick({"quick": 120, "thorough": 2500})
        for k in range(n):
            if (k & 0xF) == 0 and not ctx.budget_ok():
                break
            spec = G.gen_spec(rng, maxrows)
            mode = k % 3

            def opsource(model, spec=spec, mode=mode):
                if mode == 0:
                    if model.allowed("r", ["columns", [0]]) and rng.random() < 0.5:
                        yield "r", ["columns", [len(spec["keys"]) - 1, 0] if len(spec["keys"]) > 1 else [0]]
                    if not model.allowed("r", ["freeze", "f"]):
                        return
                    yield "r", ["freeze", "f"]
                    for i in range(2):
                        yield "f", ["thaw", f"t{i}"]
                        for hn, op in G.random_sequence(rng, model, spec, 4, maxrows):
                            yield hn, op
                elif mode == 1:
                    for hn, op in G.random_sequence(rng, model, spec, rng.randint(0, 2), maxrows):
                        yield hn, op
                    op = G.fill_merge(rng, ["merge", None, "g"], spec, maxrows, model, "r")
                    if not model.allowed("r", op):
                        return
                    yield "r", op
                    for hn, op in G.random_sequence(rng, model, spec, 5, maxrows):
                        yield hn, op
                else:
                    yield "r", ["unique", rng.choice([None, "ident", "const"])]
                    for op in (["fetchone"], ["fetchmany", 2], [rng.choice(["first", "one", "one_or_none", "scalar"])]):
                        if model.allowed("r", op):
                            yield "r", op

            done, ok = runner.run(spec, opsource, "directed")
            for hname, op in done:
                if op[0] == "thaw":
                    ctx.count("frozen_thawed")
                if op[0] == "merge":
                    ctx.count("merged_results")
    finally:
        env.dispose()
