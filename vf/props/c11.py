"""C11 -- row lookup by column expression returns that expression's value.

Workload: generated SELECTs over 1-3 joined (aliased) tables whose column names collide
(``id a b x`` + two 34-character names differing in the last character, in all three
tables), selected as plain columns, explicit labels (names drawn from a pool that
collides with column names, with each other, with the ``a_1`` / ``anon_1`` / ``t_a`` forms
SQLAlchemy generates itself), anonymous expressions, literals, literal_column, functions,
CAST / type_coerce, unary minus and repeated elements; three label styles;
whole-table selects (``select(child, parent)``), wrapped in subqueries / CTEs, UNIONs, ``text().columns()`` (positional, by name, none);
``text("SELECT * ...").columns(name=type)`` re-executed while the table is re-created with
another column order; on engines with label_length None/6/10/30; each statement built twice with fresh
objects so that the second execution goes through the compiled cache and
``CursorResultMetaData._adapt_to_context``.  SQLite executes everything.

Unique-value trick: table cell = code(table, column) * 1_000_000 + rownum and every
selected expression adds its own constant, joins relate the row numbers of the sources,
so the value the database must produce at each position is known absolutely from the
generator once the row number is decoded from position 0.

Oracle per row:
* positional: ``row[i]`` equals the expected value of expression i;
* object keys (each selected element object, and the subquery / union proxies):
  ``row._mapping[obj]`` equals the expression's expected value.  ``InvalidRequestError``
  (ambiguous) is accepted only if the element or its bare column occurs at >= 2
  positions; ``NoSuchColumnError`` for a selected element is a violation;
* string keys (result.keys(), explicit label names, column names, tablename_column
  forms): a returned value must be the expected value of a position that result.keys()
  lists under that name, or - if keys() does not list it - of a position that carries
  it as a secondary name; a user-visible name that result.keys() lists twice for different values must
  raise; an explicit label / key carried by exactly one position (and not being the
  ``selected_columns`` key of another one - ambiguous by design, see
  test_keyed_accessor_composite_conflict_2) must resolve;
* ``getattr(row, name)`` agrees with ``row._mapping[name]``.

Genuine defects reported on the unchanged tree (specific mechanisms):
* ``dedupe-proxy-key-shadows-result-key`` - ``select(func.abs(x), func.abs(y))``:
  ``row.abs_1`` returns the second function's value (the ``selected_columns`` key of
  column 2 equals the generated label of column 1);
* ``unary-minus-registers-inner-column`` - ``select(t.c.a, -t.c.a)``: the result-map
  entry of ``-t.c.a`` is registered by the inner column, so ``row._mapping[t.c.a]``
  returns the negated value (TABLENAME_PLUS_COL) or raises ambiguous (default);
* ``object-key-refused:wrapped-column-dedupe`` - ``select(u.c.a, cast(t.c.a, Integer))``:
  the cast is flagged "repeated" and cannot be looked up by object.

Guards: lookups by objects that are not in the statement are never made; strings that
are nobody's name are never looked up (SQLAlchemy keeps internal strings such as
``_no_label`` in its keymap); when two positions legitimately share a name either
raising or returning one of *their* values is accepted; row order is never judged.
"""
from __future__ import annotations

META = {
    "id": "C11",
    "level": "exploration",
    "technique": "unique-valued expressions executed on SQLite; every key form looked up on every row and compared with generator-known values",
    "level_text": "Seeded generated selects with colliding names x 3 label styles x 4 label_length settings x {plain, subquery, cte, union, text positional/by-name/plain} x {first execution, cached execution with fresh column objects}, in compiled and pure-Python row implementations.",
    "level_note": "SQLite only (no other backend executes here; the PG/MySQL/MSSQL/Oracle description-merging rules such as name normalisation are not exercised). ORM entities are not part of this check. Expected values come from the generator's own arithmetic, not from SQLAlchemy.",
    "design_ref": "DESIGN.md section 4, C11",
    "rule": "case = (structure seed, label_length); non-trivial = >=2 positions share a column name or label, or a generated label was truncated/deduplicated, or wrapper != none",
    "shards": {"quick": 8, "thorough": 16},
    "modes": ["cext", "purepy"],
    "soft_s": {"quick": 45, "thorough": 800},
    "exhaustive": {"quick": False, "thorough": False},
    "require": ["object_lookups", "string_lookups", "positional_checks", "ambiguous_raised", "cached_executions",
                "name_collisions", "truncated_names", "text_statements", "union_statements", "wrapped_statements", "rows_checked", "star_reorders",
                "compound_wrapped_statements", "star_expand_statements"],
    "assumptions": ["SQLite evaluates integer addition and joins correctly"],
}

LONG = ["very_long_column_name_number_one_a", "very_long_column_name_number_one_b"]
# "t_id" / "u_a": column names that equal the <table>_<column> label of a column of another table
# (the FK naming pattern): a *primary* result name that is also a *secondary* name of another column
COLS = ["id", "a", "b", "x"] + LONG + ["t_id", "u_a"]
TABLES = ["t", "u", "a_rather_long_table_name_for_labels"]
# table t has no column "t_id" and u no "u_a" (else Column._tq_label evades the collision with "_1"):
# u.t_id is *named* like the <table>_<col> label of t.id, t.u_a like that of u.a
MISSING = {0: {"t_id"}, 1: {"u_a"}, 2: set()}


def table_cols(ti):
    return [(ci, cn) for ci, cn in enumerate(COLS) if cn not in MISSING[ti]]
NROWS = 3
M = 1_000_000
LABEL_POOL = ["a", "b", "id", "x", "t_a", "u_a", "t_id", LONG[0], LONG[0][:-1] + "z", LONG[1], "lbl1", "lbl2", "my col", "A",
              "a_1", "a_2", "anon_1", "anon_2", "_1", "a__1", "id_1", "t_a_1", "very_1", "param_1", "q.r", 'dq"x', "select"]
# explicit labels that cannot coincide with a name SQLAlchemy generates (anon_N, x_N, _N): inside a
# subquery such a coincidence exports two columns under one name - the user's choice, not judged
# ("A": SQLite resolves identifiers case-insensitively, ``sq."A"`` would find column ``a``)
SAFE_LABELS = [x for x in LABEL_POOL if not x.startswith("anon") and not x.rsplit("_", 1)[-1].isdigit() and x != "A"]
ALIAS_POOL = ["t_1", "al", "an_alias_with_a_very_long_name_to_truncate", "u", "anon_1"]
LABEL_LENGTHS = [None, 6, 10, 30]


def code(ti, ci):
    return ti * 10 + ci + 1


class SrcCol:
    """a column of a FROM element together with what the database will produce for it"""

    def __init__(self, obj, exp, name, tname, ident):
        self.obj, self.exp, self.name, self.tname, self.ident = obj, exp, name, tname, ident


class El:
    def __init__(self, obj, kind, exp, label=None, src=None, nk=None):
        self.obj, self.kind, self.exp, self.label, self.src = obj, kind, exp, label, src
        self.nk = nk or kind  # naming kind: a repeated element is named like the element it repeats

    @property
    def bare(self):
        return self.nk in ("col", "label", "cast", "tcoerce")

    def names(self, strict=False):
        s = set()
        if self.label is not None:
            s.add(self.label)
        # a unary minus over a column is named by (and registered in the result map through) that column
        if self.src is not None and self.src.name is not None and self.nk in ("col", "label", "cast", "tcoerce", "neg"):
            s.add(self.src.name)
            if self.src.tname:
                s.add(f"{self.src.tname}_{self.src.name}")
                # Column._tq_label appends "_1" when the table itself has a column called <table>_<col>
                # (a tolerated secondary name only: not a user-visible name for the must-raise rule)
                if not strict:
                    s.add(f"{self.src.tname}_{self.src.name}_1")
        return s


class Gen:
    def __init__(self, sa, tables, rng):
        self.sa, self.tables, self.r = sa, tables, rng
        self.kn = 0

    def K(self):
        self.kn += 1
        return self.kn * 1000

    def sources(self, n):
        """n FROM elements over the tables; returns (srccols per source, from clause, base decoder info)"""
        sa, r = self.sa, self.r
        srcs = []
        used_names = set()
        for j in range(n):
            ti = r.randrange(len(TABLES))
            tb = self.tables[ti]
            name = TABLES[ti]
            if name in used_names or r.random() < 0.35:
                cand = [a for a in ALIAS_POOL if a not in used_names]
                name = r.choice(cand)
                tb = tb.alias(name)
            used_names.add(name)
            off = 0 if j == 0 else r.randint(0, 2)
            cols = []
            for ci, cn in table_cols(ti):
                cols.append(SrcCol(tb.c[cn], (lambda base, c=code(ti, ci), off=off: c * M + base + off), cn, name, (name, cn)))
            srcs.append((tb, ti, off, cols))
        tb0, ti0, _, cols0 = srcs[0]
        frm = tb0
        r0 = tb0.c.id - code(ti0, 0) * M
        for tb, ti, off, cols in srcs[1:]:
            frm = frm.join(tb, (tb.c.id - code(ti, 0) * M) == r0 + off)
        return srcs, frm

    def element(self, pool, i, prev, label_names=LABEL_POOL, kinds=None):
        sa, r = self.sa, self.r
        kinds = kinds or ["col", "col", "col", "label", "label", "expr", "exprlabel", "lit", "litcol", "func", "cast", "tcoerce", "neg", "dup",
                          "col", "label", "expr", "exprlabel", "lit", "func", "dup"]
        k = r.choice(kinds)
        if k == "dup" and not prev:
            k = "col"
        # columns taking part in the <table>_<col> naming pattern are drawn three times as often
        sc = r.choice(pool + [x for x in pool if x.name in ("id", "a", "t_id", "u_a")] * 2)
        if k == "col":
            return El(sc.obj, k, sc.exp, None, sc)
        if k == "label":
            nm = r.choice(label_names)
            return El(sc.obj.label(nm), k, sc.exp, nm, sc)
        if k == "expr":
            K = self.K()
            return El(sc.obj + K, k, lambda b, e=sc.exp, K=K: e(b) + K, None, sc)
        if k == "exprlabel":
            K = self.K()
            nm = r.choice(label_names)
            return El((sc.obj + K).label(nm), k, lambda b, e=sc.exp, K=K: e(b) + K, nm, sc)
        if k == "lit":
            v = 900 * M + self.K()
            nm = r.choice(label_names) if r.random() < 0.5 else None
            obj = sa.literal(v)
            return El(obj.label(nm) if nm else obj, k, lambda b, v=v: v, nm, None)
        if k == "litcol":
            v = 800 * M + self.K()
            nm = r.choice(label_names) if r.random() < 0.5 else None
            obj = sa.literal_column(str(v), type_=sa.Integer)
            return El(obj.label(nm) if nm else obj, k, lambda b, v=v: v, nm, None)
        if k == "func":
            K = self.K()
            return El(sa.func.abs(sc.obj + K), k, lambda b, e=sc.exp, K=K: e(b) + K, None, sc)
        if k == "cast":
            return El(sa.cast(sc.obj, sa.Integer), k, sc.exp, None, sc)
        if k == "tcoerce":
            return El(sa.type_coerce(sc.obj, sa.BigInteger), k, sc.exp, None, sc)
        if k == "neg":
            return El(-sc.obj, k, lambda b, e=sc.exp: -e(b), None, sc)
        p = r.choice(prev)
        return El(p.obj, "dup", p.exp, p.label, p.src, nk=p.nk)

    def marker(self, sc_id, K0):
        """position 0: id + K0, from which the row number is decoded"""
        return El(sc_id.obj + K0, "expr", lambda b, e=sc_id.exp, K0=K0: e(b) + K0, None, sc_id)

    def style(self, stmt):
        sa, r = self.sa, self.r
        ls = r.choice([None, sa.LABEL_STYLE_NONE, sa.LABEL_STYLE_TABLENAME_PLUS_COL, sa.LABEL_STYLE_DISAMBIGUATE_ONLY])
        return (stmt if ls is None else stmt.set_label_style(ls)), ("default" if ls is None else ls.name)

    def plain(self, K0=0, n=None, unique_names=False, kinds=None, label_names=None):
        """a SELECT over joined tables: returns (stmt, elements, decode)"""
        sa, r = self.sa, self.r
        srcs, frm = self.sources(r.choice([1, 2, 2, 3]))
        pool = [sc for _, _, _, cols in srcs for sc in cols]
        id0 = srcs[0][3][0]
        els = [self.marker(id0, K0)]
        n = n or r.choice([2, 3, 4, 6, 8, 12])
        if unique_names:
            pfx = r.choice(["i", "i", LONG[0][:-2] + "_"])
            for i in range(1, n):
                e = self.element(pool, i, els, kinds=["label", "exprlabel", "label"], label_names=["%s%03d" % (pfx, i)])
                els.append(e)
        else:
            for i in range(1, n):
                els.append(self.element(pool, i, els, kinds=kinds, **({"label_names": label_names} if label_names else {})))
        stmt = sa.select(*[e.obj for e in els]).select_from(frm)
        id_code = None
        for tb, ti, off, cols in srcs[:1]:
            id_code = code(ti, 0)
        decode = lambda v, c=id_code, K0=K0: v - c * M - K0
        return stmt, els, decode, srcs

    def whole_tables(self):
        """``select(child, parent)``: every column of two or three joined tables, in table order - the
        everyday shape in which a column name of one table (``t_id``) equals the <table>_<col> label of a
        column of a table selected later"""
        sa, r = self.sa, self.r
        srcs, frm = self.sources(r.choice([2, 2, 3]))
        id0 = srcs[0][3][0]
        els = [self.marker(id0, 0)]
        for _, _, _, cols in srcs:
            cols = list(cols)
            if r.random() < 0.3:
                r.shuffle(cols)
            for sc in cols[: r.choice([len(cols), len(cols), 5])]:
                els.append(El(sc.obj, "col", sc.exp, None, sc))
        stmt = sa.select(*[e.obj for e in els]).select_from(frm)
        decode = lambda v, c=code(srcs[0][1], 0): v - c * M
        return stmt, els, decode

    def wrapped(self, how):
        sa, r = self.sa, self.r
        inner, iels, decode, srcs = self.plain(K0=0, unique_names=True)
        inner, _ = (inner, None) if r.random() < 0.5 else (inner.set_label_style(sa.LABEL_STYLE_TABLENAME_PLUS_COL), None)
        nm = r.choice(["sq", "anon_1", "sub_t", "a_subquery_with_a_long_name_exceeding_thirty_chars"])
        sub = inner.cte(nm) if how == "cte" else inner.subquery(nm)
        subcols = list(sub.c)
        assert len(subcols) == len(iels)
        pool = [SrcCol(c, e.exp, c.name, nm, (nm, j)) for j, (c, e) in enumerate(zip(subcols, iels))]
        frm = sub
        if r.random() < 0.4:
            ti = r.randrange(len(TABLES))
            an = r.choice(["x1", "t_1"])
            tb = self.tables[ti].alias(an)
            off = r.randint(0, 1)
            _, ti0, _, _ = srcs[0]
            frm = sub.join(tb, (tb.c.id - code(ti, 0) * M) == (subcols[0] - code(ti0, 0) * M) + off)
            for ci, cn in table_cols(ti):
                pool.append(SrcCol(tb.c[cn], (lambda base, c=code(ti, ci), off=off: c * M + base + off), cn, an, (an, cn)))
        K0 = 0
        els = [self.marker(pool[0], K0)]
        for i in range(1, r.choice([2, 3, 5, 8])):
            els.append(self.element(pool, i, els))
        stmt = sa.select(*[e.obj for e in els]).select_from(frm)
        return stmt, els, decode

    def compound_wrapped(self):
        """union / union_all / intersect / except whose members carry an explicit label style (NONE
        included) over joined tables with colliding column names, used through .subquery() / .alias() /
        .cte() and selected from"""
        sa, r = self.sa, self.r
        op = r.choice(["union_all", "union_all", "union", "intersect", "except"])
        ls = r.choice([None, sa.LABEL_STYLE_NONE, sa.LABEL_STYLE_NONE, sa.LABEL_STYLE_TABLENAME_PLUS_COL, sa.LABEL_STYLE_DISAMBIGUATE_ONLY])
        n = r.choice([3, 4, 6])
        kinds = ["col", "col", "col", "col", "label", "expr", "exprlabel"]
        branches = []
        for b in range(r.choice([2, 2, 3]) if op.startswith("union") else 1):
            stmt, els, decode, _ = self.plain(K0=(b + 1) * 100_000, n=n, kinds=kinds, label_names=SAFE_LABELS)
            if ls is not None:
                stmt = stmt.set_label_style(ls)
            branches.append((stmt, els, decode))
        b0 = branches[0][0]
        if op == "union_all":
            comp = sa.union_all(*[b[0] for b in branches])
        elif op == "union":
            comp = sa.union(*[b[0] for b in branches])
        elif op == "intersect":
            comp = sa.intersect(b0, b0)
        else:
            comp = sa.except_(b0, b0.where(sa.false()))
        wrapper = r.choice(["subquery", "subquery", "alias", "cte"])
        nm = r.choice(["cw", "anon_1", "a_compound_with_a_long_name_exceeding_thirty_chars"])
        sub = comp.cte(nm) if wrapper == "cte" else comp.alias(nm) if wrapper == "alias" else comp.subquery(nm)
        subcols = list(sub.c)
        first_objs = [id(e.obj) for e in branches[0][1]]
        info = {"op": op, "wrapper": wrapper, "member_style": "default" if ls is None else ls.name,
                # the first member selects one column object twice: its two positions are exported as ONE column
                "first_member_repeats_column": len(set(first_objs)) < len(first_objs)}
        if len(subcols) != n:
            return None, None, None, dict(info, exported=len(subcols), expected=n)
        decoders = []
        for _, bels, decode in branches:
            # (an exported column whose name is still an unresolved anonymous label has no string name here)
            outer = [El(c, "col", e.exp, None, SrcCol(c, e.exp, None if "%(" in str(c.name) else str(c.name), nm, (nm, j)))
                     for j, (c, e) in enumerate(zip(subcols, bels))]
            decoders.append((decode, outer))
        stmt = sa.select(*subcols)
        return stmt, decoders[0][1], decoders, info

    def star_expand(self):
        """a select whose last column is a textual / literal column that expands into SEVERAL result
        columns (``alias.*`` or ``text("alias.c1, alias.c2, ...")``): cursor.description is longer than
        the compiled columns and is matched to them by name"""
        sa, r = self.sa, self.r
        srcs, frm = self.sources(r.choice([2, 2, 3]))
        pool = [sc for _, _, _, cols in srcs for sc in cols]
        els = [self.marker(srcs[0][3][0], 0)]
        if r.random() < 0.5:
            # equally named columns of two sources, as plain columns
            cn = r.choice(["id", "a", "b", "x"])
            for _, _, _, cols in r.sample(srcs, 2):
                sc = next(x for x in cols if x.name == cn)
                els.append(El(sc.obj, "col", sc.exp, None, sc))
        for i in range(len(els), r.choice([2, 3, 4])):
            els.append(self.element(pool, i, els, kinds=["col", "col", "col", "label", "expr"]))
        tb, ti, off, cols = srcs[r.randrange(len(srcs))]
        nm = cols[0].tname
        if r.random() < 0.5:
            expander, form = sa.literal_column('"%s".*' % nm), "star"
        else:
            # any subset of the source's columns, in any order
            cols = r.sample(cols, r.randint(1, len(cols)))
            expander, form = sa.text(", ".join('"%s"."%s"' % (nm, sc.name) for sc in cols)), "text"
        stmt = sa.select(*[e.obj for e in els], expander).select_from(frm)
        expanded = [El(None, "expanded", sc.exp, None, sc) for sc in cols]
        decode = lambda v, c=code(srcs[0][1], 0): v - c * M
        return stmt, els, expanded, decode, form

    def union(self):
        sa, r = self.sa, self.r
        n = r.choice([2, 3, 5])
        nb = r.choice([2, 2, 3])
        branches = []
        ls = r.choice([None, sa.LABEL_STYLE_NONE, sa.LABEL_STYLE_TABLENAME_PLUS_COL])
        for b in range(nb):
            stmt, els, decode, _ = self.plain(K0=(b + 1) * 100_000, n=n)
            if ls is not None:
                stmt = stmt.set_label_style(ls)
            branches.append((stmt, els, decode))
        un = sa.union_all(*[b[0] for b in branches]) if r.random() < 0.6 else sa.union(*[b[0] for b in branches])
        return un, branches


def shadowed(s, carriers, els):
    """s looks like ``<name>_<n>`` and some *other* position is naturally named <name>: the key
    ``Select.selected_columns`` gives that other position when it de-duplicates (``abs``, ``abs_1``)
    is the same string, and it sits in that position's result-map objects"""
    base, _, num = s.rpartition("_")
    if not base or not num.isdigit():
        return False
    for j, e in enumerate(els):
        if j in carriers:
            continue
        nat = {"func": "abs"}.get(e.nk) or (e.label if e.label is not None else (e.src.name if e.src is not None and e.nk in ("col", "cast", "tcoerce", "neg") else None))
        if nat == base:
            return True
    return False


def canon_names(el, key):
    s = el.names()
    s.add(key)
    return s


def check_rows(ctx, sa, rows, keys, els, decoders, extra_objs, desc, cached, textual=False, proxy_keys=None):
    """rows: list of Row; els: list of El (first branch for unions); decoders: list of
    (decode, els_of_branch) used to find the branch + row number from position 0."""
    exc = sa.exc
    n = len(els)
    tag = "cached" if cached else "fresh"
    if len(keys) != n:
        ctx.violation("result-column-count", f"{len(keys)} keys for {n} selected expressions", desc)
        return
    name_sets = [canon_names(e, keys[i]) for i, e in enumerate(els)]
    # objects -> positions
    objpos = {}
    for i, e in enumerate(els):
        if e.obj is not None:  # text() without column information has no objects to look up
            objpos.setdefault(id(e.obj), (e.obj, []))[1].append(i)
    for i, o in extra_objs:
        objpos.setdefault(id(o), (o, []))[1].append(i)
    neg_idents = {e.src.ident for e in els if e.kind == "neg"}
    bare_count = {}
    for e in els:
        if e.src is not None and e.bare:
            bare_count[e.src.ident] = bare_count.get(e.src.ident, 0) + 1
    def via_unary(pos_list):
        """the column at these positions is also selected under a unary minus, whose result-map entry is
        registered by (and carries every string name of) the inner column: same root cause as for objects"""
        return any(els[j].src is not None and els[j].src.ident in neg_idents and
                   sum(1 for x in els if x.src is not None and x.src.ident == els[j].src.ident and (x.bare or x.nk == "neg")) >= 2 for j in pos_list)

    cand = set(keys)
    for ns in name_sets:
        cand |= ns
    cand = sorted(cand)
    for row in rows:
        ctx.count("rows_checked")
        tup = tuple(row)
        # which branch / row number
        found = None
        for decode, bels in decoders:
            base = decode(tup[0])
            if 1 <= base <= NROWS + 3 and bels[0].exp(base) == tup[0]:
                found = (base, bels)
                break
        if found is None:
            ctx.violation("position0-undecodable", f"row {tup[:4]} matches no branch", desc)
            return
        base, bels = found
        want = [e.exp(base) for e in bels]
        for i in range(n):
            ctx.count("positional_checks")
            if tup[i] != want[i] or row[i] != want[i]:
                ctx.violation("positional-value-wrong", f"{tag}: position {i} holds {tup[i]} expected {want[i]}", dict(desc, position=i, keys=list(keys)))
                return
        m = row._mapping
        # ---- object keys
        lookups = [(obj, sorted(set(pos)), els[pos[0]]) for obj, pos in objpos.values()]
        for obj, pos, e in lookups:
            unary_shared = e.src is not None and e.src.ident in neg_idents and (
                e.kind == "neg" or e.bare) and sum(1 for x in els if x.src is not None and x.src.ident == e.src.ident and (x.bare or x.kind == "neg")) >= 2
            ctx.count("object_lookups")
            try:
                got = m[obj]
            except (exc.NoSuchColumnError, exc.InvalidRequestError) as err:
                # refusing is acceptable only when the element (or its bare column) really sits at
                # several positions; NoSuchColumnError is what the cached path gives for those
                how = "not-found" if isinstance(err, exc.NoSuchColumnError) else "ambiguous"
                ctx.count("ambiguous_raised")
                shared = len(pos) >= 2 or (e.src is not None and e.bare and bare_count.get(e.src.ident, 0) >= 2)
                if not shared:
                    if unary_shared:
                        mech = "unary-minus-registers-inner-column"
                    elif e.kind in ("cast", "tcoerce"):
                        mech = "object-key-refused:wrapped-column-dedupe"
                    else:
                        mech = f"object-key-{how}:{e.kind}" + (":text" if textual else "")
                    ctx.violation(mech, f"{tag}: selected {e.kind} element at position {pos} cannot be looked up ({type(err).__name__})",
                                  dict(desc, position=pos, keys=list(keys)))
                continue
            if got not in [want[p] for p in pos]:
                where = [j for j in range(n) if want[j] == got]
                ctx.violation("unary-minus-registers-inner-column" if unary_shared else "object-key-wrong-value:" + e.kind + (":cached" if cached else ""),
                              f"{tag}: _mapping[{e.kind} at {pos}] returned {got} (value of position {where}) expected {want[pos[0]]}",
                              dict(desc, position=pos, keys=list(keys)))
        # ---- string keys
        for s in cand:
            carriers = [j for j in range(n) if s in name_sets[j]]
            keypos = [j for j in range(n) if keys[j] == s]
            # positions whose *user-visible* name (label, column name, tablename_column) is s and that
            # result.keys() lists under s; generated anon / truncated / dedupe keys do not count
            userpos = [j for j in keypos if s in els[j].names(strict=True)]
            ctx.count("string_lookups")
            try:
                got = m[s]
                raised = None
            except exc.NoSuchColumnError:
                raised = "nosuch"
            except exc.InvalidRequestError:
                raised = "ambiguous"
                ctx.count("ambiguous_raised")
            if raised is None:
                # the names result.keys() advertises take precedence over secondary names
                # (<table>_<col> labels, column names behind labels) of other columns
                # (positions whose exported name is an unresolved anonymous label have names the harness does
                # not know: they may carry any string that result.keys() does not list)
                allowed = keypos if keypos else carriers + [j for j in range(n) if els[j].src is not None and els[j].src.name is None]
                if not any(want[j] == got for j in allowed):
                    where = [j for j in range(n) if want[j] == got]
                    kinds = sorted({els[j].kind for j in allowed})
                    carriers = allowed
                    # a *generated* result name (anonymous / truncated label) that equals a secondary name
                    # (<table>_<col>, selected_columns key) of the column whose value came back: same root cause
                    gen_shadowed = bool(keypos) and all(s not in els[j].names(strict=True) for j in keypos) and any(
                        s in els[j].names() or (proxy_keys is not None and proxy_keys[j] == s) for j in where)
                    ctx.violation("dedupe-proxy-key-shadows-result-key" if (shadowed(s, carriers, els) or gen_shadowed) else
                                  "unary-minus-registers-inner-column" if via_unary(carriers) else "string-key-foreign-value:" + "+".join(kinds) + (":text" if textual else ""),
                                  f"{tag}: _mapping[{s!r}] returned {got} = value of position {where}, but the name belongs to {carriers}",
                                  dict(desc, key=s, keys=list(keys)))
                elif len(userpos) >= 2 and len({want[j] for j in userpos}) >= 2:
                    ctx.violation("ambiguous-string-key-returned-value" + (":text" if textual else ""),
                                  f"{tag}: keys() lists {s!r} at {userpos} (different values) but lookup returned {got}", dict(desc, key=s, keys=list(keys)))
            else:
                # test_resultset.py (test_keyed_accessor_composite_conflict_2) fixes by design that a string
                # which is the result name of one column and the .key / selected_columns key of another
                # is ambiguous: refusing is then accepted
                also = [j for j in range(n) if proxy_keys is not None and proxy_keys[j] == s and j not in carriers]
                must = len(carriers) == 1 and not also and (keys[carriers[0]] == s or els[carriers[0]].label == s)
                if must:
                    kd = els[carriers[0]].kind
                    ctx.violation("dedupe-proxy-key-shadows-result-key" if shadowed(s, carriers, els) else
                                  "unary-minus-registers-inner-column" if via_unary(carriers) else "unambiguous-string-key-raised:" + raised + ":" + kd + (":text" if textual else ""),
                                  f"{tag}: {s!r} names only position {carriers} but lookup raised {raised}", dict(desc, key=s, keys=list(keys)))
            # attribute access must agree
            if s.isidentifier() and not s.startswith("_") and s not in ("count", "index", "t", "tuple"):
                try:
                    ga = getattr(row, s)
                    graised = None
                except AttributeError:
                    graised = "nosuch"
                except exc.InvalidRequestError:
                    graised = "ambiguous"
                if (raised is None) != (graised is None) or (raised is None and ga != got):
                    ctx.violation("getattr-disagrees-with-mapping", f"{tag}: row.{s} -> {graised or ga} vs _mapping -> {raised or got}", dict(desc, key=s))


class _Remap:
    """reporting context that files every violation of one case under one root-cause mechanism"""

    def __init__(self, ctx, mechanism):
        self._ctx, self._mech = ctx, mechanism

    def __getattr__(self, name):
        return getattr(self._ctx, name)

    def violation(self, mechanism, summary, witness=None):
        self._ctx.violation(self._mech, f"[{mechanism}] {summary}", witness)


def json_key(d):
    return ",".join(f"{k}={d[k]}" for k in sorted(d))


def setup_engine(sa, tables, md, label_length):
    from sqlalchemy.pool import StaticPool

    eng = sa.create_engine("sqlite://", poolclass=StaticPool, label_length=label_length)
    with eng.begin() as c:
        md.create_all(c)
        for ti, tb in enumerate(tables):
            c.execute(sa.insert(tb), [{cn: code(ti, ci) * M + rn for ci, cn in table_cols(ti)} for rn in range(1, NROWS + 3)])
    return eng


def build(sa, tables, seed, how):
    import random

    g = Gen(sa, tables, random.Random(seed))
    out = {"how": how, "extra": [], "textual": False}
    if how in ("subquery", "cte"):
        stmt, els, decode = g.wrapped(how)
        stmt, out["style"] = g.style(stmt)
        out.update(stmt=stmt, els=els, decoders=[(decode, els)])
    elif how == "tables":
        stmt, els, decode = g.whole_tables()
        stmt, out["style"] = g.style(stmt)
        out.update(stmt=stmt, els=els, decoders=[(decode, els)])
    elif how == "compound_wrapped":
        stmt, els, decoders, info = g.compound_wrapped()
        out["info"] = info
        if stmt is None:
            out.update(stmt=None)
        else:
            stmt, out["style"] = g.style(stmt)
            out.update(stmt=stmt, els=els, decoders=decoders)
    elif how == "union":
        un, branches = g.union()
        out.update(stmt=un, els=branches[0][1], decoders=[(d, e) for _, e, d in branches], style="union")
        out["extra"] = list(enumerate(un.selected_columns)) if len(list(un.selected_columns)) == len(branches[0][1]) else []
    else:
        stmt, els, decode, _ = g.plain()
        stmt, out["style"] = g.style(stmt)
        out.update(stmt=stmt, els=els, decoders=[(decode, els)])
    out["rng"] = g.r
    return out


def to_text(sa, built, eng, rng):
    """turn the built select into text(sql).columns(...) keeping the generator's expectations"""
    how = built["how"]
    sql = str(built["stmt"].compile(dialect=eng.dialect, compile_kwargs={"literal_binds": True}))
    raw = eng.raw_connection()
    try:
        cur = raw.cursor()
        cur.execute(sql)
        cnames = [d[0] for d in cur.description]
        cur.close()
    finally:
        raw.close()
    els = built["els"]
    n = len(els)
    t = sa.text(sql)
    new = []
    if how == "text_name" and len(set(cnames)) == n:
        order = list(range(n))
        rng.shuffle(order)
        npos = rng.randint(0, n // 2)
        pos_cols = [sa.column(cnames[j], sa.Integer) for j in order[:npos]]
        types = {cnames[j]: sa.Integer for j in order[npos:]}
        if not types:
            types = {cnames[order[0]]: sa.Integer}
            pos_cols = pos_cols[1:]
        ts = t.columns(*pos_cols, **types)
        sel = {c.name: c for c in ts.selected_columns}
        for j, e in enumerate(els):
            obj = sel.get(cnames[j])
            new.append(El(obj, "textcol", e.exp, cnames[j], None))
    elif how == "text_plain":
        ts = t
        for j, e in enumerate(els):
            new.append(El(None, "textcol", e.exp, None, None))
    else:
        how = "text_pos"
        pool = cnames + ["a", "b", "zz", "id"]
        cols = [sa.column(rng.choice(pool) if rng.random() < 0.5 else cnames[j], sa.Integer) for j in range(n)]
        ts = t.columns(*cols)
        for j, e in enumerate(els):
            new.append(El(cols[j], "textcol", e.exp, cols[j].name, None))
    built["decoders"] = [(built["decoders"][0][0], new)]
    built.update(stmt=ts, els=new, textual=True, how=how, extra=[])
    return built


def star_expand_case(ctx, sa, tables, eng, seed, ll):
    """judge one star-expanding select: positions by generator-known values; compiled element objects and
    every cursor name looked up on every row"""
    import random

    exc = sa.exc
    g = Gen(sa, tables, random.Random(seed))
    stmt, els, expanded, decode, form = g.star_expand()
    stmt, style = g.style(stmt)
    with eng.connect() as conn:
        res = conn.execute(stmt)
        keys = list(res.keys())
        rows = res.all()
    ctx.count("star_expand_statements")
    try:
        pkeys = set(stmt.selected_columns.keys())     # selected_columns keys: ambiguous by design when equal to a result name
    except Exception:
        pkeys = set()
    allels = els + expanded
    desc = {"how": "star_expand:" + form, "seed": seed, "label_length": ll, "style": style, "keys": keys,
            "sql": str(stmt.compile(dialect=eng.dialect))[:600]}
    if len(keys) != len(allels):
        ctx.violation("star-expand-column-count", f"{len(keys)} result columns, expected {len(allels)}", desc)
        return
    # the "duplicate keys" scan of CursorResultMetaData only runs when the number of distinct names differs
    # from the number of compiled columns; here it happens to be equal although names repeat
    gate = ":distinct-names-equal-compiled-columns" if len(set(keys)) == len(els) + 1 and len(set(keys)) < len(keys) else ""
    for row in rows:
        ctx.count("rows_checked")
        tup = tuple(row)
        base = decode(tup[0])
        want = [e.exp(base) for e in allels]
        if list(tup) != want:
            bad = [i for i in range(len(want)) if tup[i] != want[i]][:4]
            ctx.violation("positional-value-wrong:star-expand", f"positions {bad}: {[tup[i] for i in bad]} expected {[want[i] for i in bad]}", desc)
            return
        m = row._mapping
        for i, e in enumerate(els):
            ctx.count("object_lookups")
            # cursor positions that share this element's result name
            mine = e.names() | {keys[i]}
            same = [j for j in range(len(keys)) if keys[j] in mine]
            try:
                got = m[e.obj]
            except exc.InvalidRequestError:
                ctx.count("ambiguous_raised")
                if len(same) < 2:
                    ctx.violation("object-key-ambiguous:star-expand:" + e.kind, f"element {i} ({keys[i]!r}) raised ambiguous but its name is unique", desc)
                continue
            except exc.NoSuchColumnError:
                ctx.violation("object-key-not-found:star-expand:" + e.kind, f"element {i} ({keys[i]!r}) cannot be looked up", desc)
                continue
            if got != want[i]:
                where = [j for j in range(len(want)) if want[j] == got]
                ctx.violation("dupe-scan-skipped" + gate if gate else "object-key-wrong-value:star-expand:" + e.kind,
                              f"_mapping[{e.kind} at {i} ({keys[i]!r})] returned {got} = value of position {where}, expected {want[i]}", dict(desc, position=i))
        for s in sorted(set(keys)):
            ctx.count("string_lookups")
            pos = [j for j in range(len(keys)) if keys[j] == s]
            vals = {want[j] for j in pos}
            try:
                got = m[s]
            except exc.InvalidRequestError:
                ctx.count("ambiguous_raised")
                # (a cursor name that is also a secondary name - <table>_<col> - of a compiled column is
                # ambiguous by design)
                if len(pos) < 2 and not any(s in e.names() and keys[i] != s for i, e in enumerate(els)) and s not in pkeys:
                    ctx.violation("unambiguous-string-key-raised:star-expand", f"{s!r} is listed once by keys() but raised ambiguous", dict(desc, key=s))
                continue
            except exc.NoSuchColumnError:
                ctx.violation("string-key-not-found:star-expand", f"{s!r} from keys() cannot be looked up", dict(desc, key=s))
                continue
            if got not in vals:
                ctx.violation("string-key-foreign-value:star-expand", f"_mapping[{s!r}] returned {got}, positions {pos} hold {sorted(vals)}", dict(desc, key=s))
            elif len(vals) >= 2:
                ctx.violation("dupe-scan-skipped" + gate if gate else "ambiguous-string-key-returned-value:star-expand",
                              f"keys() lists {s!r} at {pos} with different values {sorted(vals)} but lookup returned {got}", dict(desc, key=s))
    ctx.case({"star_expand": seed, "ll": ll}, nontrivial=len(set(keys)) < len(keys))


STAR_NAMES = ["a", "b", "id", "x", "t_id", LONG[0], LONG[1], "my col", "A1"]


def star_case(ctx, sa, eng, rng, seq):
    """``text("SELECT * FROM tbl").columns(name=type, ...)``: matched to cursor.description *by name*
    on every execution.  The same statement text is executed (fresh TextualSelect, compiled-cache
    hit) while the table is re-created with another physical column order in between."""
    names = rng.sample(STAR_NAMES, rng.randint(2, 6))
    vals = {nm: 700_000_000 + seq * 1000 + i for i, nm in enumerate(names)}
    tb = "star_%d" % (seq % 3)
    mixed = rng.random() < 0.3
    q = lambda x: '"%s"' % x
    with eng.connect() as conn:
        for rnd in range(3):
            order = list(names)
            if rnd:
                rng.shuffle(order)
            conn.exec_driver_sql(f"DROP TABLE IF EXISTS {tb}")
            conn.exec_driver_sql(f"CREATE TABLE {tb} ({', '.join(q(c) + ' INTEGER' for c in order)})")
            conn.exec_driver_sql(f"INSERT INTO {tb} ({', '.join(q(c) for c in order)}) VALUES ({', '.join(str(vals[c]) for c in order)})")
            pos = [sa.column(names[0], sa.Integer)] if mixed else []
            kw = {nm: sa.Integer for nm in names[len(pos):]}
            stmt = sa.text(f"SELECT * FROM {tb}").columns(*pos, **kw)
            res = conn.execute(stmt)
            keys = list(res.keys())
            row = res.one()
            ctx.count("star_executions")
            if rnd and order != names:
                ctx.count("star_reorders")
            desc = {"how": "text_star", "names": names, "cursor_order": order, "round": rnd, "keys": keys, "mixed": mixed}
            m = row._mapping
            sel = {c.name: c for c in stmt.selected_columns}
            for nm in names:
                ctx.count("string_lookups")
                ctx.count("object_lookups")
                try:
                    got_s, got_o = m[nm], m[sel[nm]]
                except (sa.exc.NoSuchColumnError, sa.exc.InvalidRequestError) as e:
                    ctx.violation("text-byname-lookup-refused", f"round {rnd}: {nm!r} -> {type(e).__name__}", desc)
                    break
                if got_s != vals[nm] or got_o != vals[nm]:
                    ctx.violation("text-byname-stale-positions" if rnd else "text-byname-wrong-value",
                                  f"round {rnd} (cursor order {order}): by string {nm!r} -> {got_s}, by column -> {got_o}, expected {vals[nm]}", desc)
                    break
            else:
                if [vals.get(k) for k in keys] != list(tuple(row)):
                    ctx.violation("text-byname-keys-misaligned", f"round {rnd}: keys {keys} do not name the positions of {tuple(row)}", desc)
            conn.rollback()
        conn.exec_driver_sql(f"DROP TABLE IF EXISTS {tb}")
        conn.commit()
    ctx.case({"star": seq, "names": names, "shard": ctx.shard}, nontrivial=True)


def run(ctx):
    import warnings

    import sqlalchemy as sa

    warnings.simplefilter("ignore", sa.exc.SAWarning)
    md = sa.MetaData()
    tables = [sa.Table(nm, md, *[sa.Column(cn, sa.Integer) for _, cn in table_cols(ti)]) for ti, nm in enumerate(TABLES)]
    engines = [(ll, setup_engine(sa, tables, md, ll)) for ll in LABEL_LENGTHS]
    rng = ctx.rng
    hows = ["plain", "plain", "tables", "subquery", "cte", "union", "text_pos", "text_name", "text_plain", "plain",
            "compound_wrapped", "star_expand", "compound_wrapped"]
    ncases = ctx.pick({"quick": 50, "thorough": 1000})
    try:
        for k in range(ncases):
            if not ctx.budget_ok():
                break
            how = hows[k % len(hows)]
            seed = rng.randrange(1 << 40)
            ll, eng = engines[k % len(engines)] if k < 40 else rng.choice(engines)
            if k % 5 == 0:
                star_case(ctx, sa, eng, rng, k)
            if how == "star_expand":
                star_expand_case(ctx, sa, tables, eng, seed, ll)
                continue
            tseed = rng.randrange(1 << 40)
            nontriv = False
            for rnd in range(2):
                import random

                try:
                    built = build(sa, tables, seed, "plain" if how.startswith("text") else how)
                except sa.exc.InvalidRequestError:
                    if how != "compound_wrapped":
                        raise
                    # "Label name x is being renamed to an anonymous label due to disambiguation which is not
                    # supported right now": documented refusal of subquery() for explicit duplicate labels
                    ctx.count("compound_wrap_refused")
                    break
                built["how"] = how
                if how == "compound_wrapped":
                    if rnd == 0:
                        ctx.count("compound_wrapped_statements")
                        ctx.seen("compound_forms", json_key(built["info"]))
                    if built["stmt"] is None:
                        ctx.violation("wrapper-exports-wrong-column-count:" + built["info"]["wrapper"],
                                      f"{built['info']}", {"seed": seed, "info": built["info"]})
                        break
                if how.startswith("text"):
                    built = to_text(sa, built, eng, random.Random(tseed))
                    ctx.count("text_statements")
                elif how == "union":
                    ctx.count("union_statements")
                elif how in ("subquery", "cte"):
                    ctx.count("wrapped_statements")
                els = built["els"]
                vctx = ctx
                if how == "compound_wrapped":
                    info = built["info"]
                    remap = ("compound-first-member-repeats-column" if info["first_member_repeats_column"] else
                             "cte-none-style-duplicate-names" if info["wrapper"] == "cte" and info["member_style"] == "LABEL_STYLE_NONE" else None)
                    if remap:
                        vctx = _Remap(ctx, remap)
                try:
                    desc = {"seed": seed, "how": built["how"], "label_length": ll, "style": built.get("style"), "round": rnd,
                            "sql": str(built["stmt"].compile(dialect=eng.dialect))[:700]}
                except sa.exc.InvalidRequestError:
                    if how != "compound_wrapped":
                        raise
                    ctx.count("compound_wrap_refused")
                    break
                if how == "compound_wrapped":
                    desc["info"] = built["info"]
                with eng.connect() as conn:
                    n0 = len(eng._compiled_cache)
                    res = conn.execute(built["stmt"])
                    keys = list(res.keys())
                    rows = res.all()
                    hit = len(eng._compiled_cache) == n0
                if rnd == 1 and hit:
                    ctx.count("cached_executions")
                try:
                    pk = list(built["stmt"].selected_columns.keys())
                    pk = pk if len(pk) == len(els) else None
                except Exception:
                    pk = None
                check_rows(vctx, sa, rows, keys, els, built["decoders"], built["extra"], desc, cached=(rnd == 1 and hit), textual=built["textual"], proxy_keys=pk)
                if rnd == 0:
                    names = [kk for kk in keys]
                    allnames = [nm for i, e in enumerate(els) for nm in canon_names(e, keys[i])]
                    coll = len(set(names)) < len(names) or any(allnames.count(x) > 1 for x in set(allnames))
                    trunc = ll is not None and any(len(kk) <= ll and kk.rsplit("_", 1)[-1].isdigit() and kk[:3] not in ("ano", "abs", "par")
                                                   for kk in keys)
                    if coll:
                        ctx.count("name_collisions")
                    if trunc:
                        ctx.count("truncated_names")
                    nontriv = coll or trunc or how != "plain"
                    ctx.case({"seed": seed, "ll": ll, "how": how}, nontrivial=nontriv)
                    ctx.seen("styles", str(built.get("style")))
                    ctx.seen("hows", built["how"])
                    ctx.maxi("max_columns", len(els))
                    if k < 4:
                        ctx.sample({"how": built["how"], "label_length": ll, "keys": keys, "sql": desc["sql"][:300]})
    finally:
        for _, eng in engines:
            eng.dispose()
