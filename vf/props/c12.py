"""C12 -- bulk INSERT (executemany / insertmanyvalues): every parameter set inserted exactly
once; with RETURNING + sort_by_parameter_order the n-th row belongs to the n-th
parameter set.

Workload (all executed on real SQLite through the DBAPI spy, file database, table
contents read back through an independent raw sqlite3 connection):

  table style     autoincrement PK (no sentinel on SQLite => documented row-at-a-time
                  downgrade), client uuid4 PK, explicit ``insert_sentinel()``,
                  the same without any server-side default (ORM flush then requests only the
                  primary key), ``Column(insert_sentinel=True)`` with a Uuid client default (sentinel
                  result processor in play), composite client PK, client int PK handed in
                  *non-monotonic* order, callable string PK, no PK at all
  x row count     1..N around the page boundaries (N=25 quick / 300 thorough)
  x page size     1,2,3,7,n-1,n,n+1,1000 (statement, connection or engine level)
  x paramstyle    qmark, named, numeric (:1), numeric_dollar ($1)
  x delivery      Core ``returning(..., sort_by_parameter_order=True|False)``,
                  ``return_defaults`` (inserted_primary_key_rows / returned_defaults_rows),
                  plain executemany, SQLite upsert (do_nothing, do_update from excluded,
                  do_update with a bound parameter, do_update with a SQL function over 2-4
                  bound literals) on non-conflicting rows, ORM
                  ``session.add_all`` + flush with heterogeneous key sets, ORM bulk
                  ``session.execute(insert(Cls).returning(...), [dict...])``, and ORM object
                  graphs whose flush *uses* the returned keys: joined-table inheritance
                  (child row keyed by the parent's new id) and one-to-many children (FK =
                  the parent's new id) - a mis-assigned key shows as a payload mismatch
                  across the join; the one-to-many parent comes in mapper variants
                  {plain, insert sentinel, version_id_col, eager server default} x each other
  x extra columns python callable default, SQL-expression default containing a bound
                  parameter, server default; optionally returned.

Every row carries a unique payload.  The spy's ``row_hook`` hands every multi-row
``INSERT..RETURNING`` fetch back in a seeded non-identity permutation: legitimate for a
backend and the only way SQLite exercises the sentinel re-sort.  The number of permuted
batches in cases that requested sorting is the deciding counter.

Oracle: (a) conservation - payload multiset of the table == payload multiset of the
parameter list; (b) batch accounting at the DBAPI boundary - every payload is handed to
the driver in exactly one statement; (c) multiset of returned rows == parameter list
and every returned column equals what is stored for that payload; (d) when
sort_by_parameter_order was requested: payload of row n == payload of parameter n, and
inserted_primary_key_rows[n] / returned_defaults_rows[n] / the ORM object n carry the
stored key of parameter n.  Without the flag only (a)-(c).

Part B (recording fake DBAPI, nothing executed): postgresql psycopg2/pg8000/psycopg,
mariadb pymysql/mariadbconnector, mssql pyodbc.  The fake fabricates RETURNING rows the
way those servers are documented to behave for the statement forms SQLAlchemy relies on
(serial assigned in ``sen_counter`` / VALUES order) and returns them shuffled; (b) and (d)
are judged.  This exercises the *implicit* (autoincrement) sentinel sort, which SQLite
never takes.

Per-row bound upsert (``ups_rowbind``): executemany ``ON CONFLICT DO UPDATE`` with per-row
``bindparam()``s in SET, in the DO UPDATE WHERE (each row carries its own update / skip verdict)
or in both, i.e. a different value per parameter set over a mix of conflicting and new rows,
with / without RETURNING, on the stock engines and on engines whose dialect has
``use_insertmanyvalues_wo_returning`` switched on (35% of all cases run on such an engine);
at the DBAPI boundary each parameter set must travel with its own SET value, and every
conflicting row must end up with the value of its own parameter set.  The same delivery rule
is judged on recorded PostgreSQL / MySQL / MariaDB streams with the attribute stock, forced
on and forced off.

Execution hooks: 35% of the cases run on an engine with ``do_execute`` / ``do_executemany`` /
``do_execute_no_params`` dialect event hooks that execute the statement themselves and return
True for the INSERT statements a per-case policy selects (none, all, first only, all but the
first, alternate, only multi-row pages, only single-row statements, seeded coin) and decline the
others, plus ``before_cursor_execute(retval=True)`` handing everything back unchanged; all
oracles stay the same (every parameter set exactly once, order).

Guards: an empty parameter list is not an executemany (documented: same as no
parameters) and is not generated.  Whether a statement is batched or downgraded to
row-at-a-time is followed, not judged.  Conflicting upsert rows belong to C56.
"""
from __future__ import annotations

import re

META = {
    "id": "C12",
    "level": "exploration",
    "technique": "DBAPI spy permuting RETURNING batches + independent table read-back; unique payload per row",
    "level_text": "Seeded exploration of (sentinel style x row count x page size x paramstyle x delivery form) on real SQLite with every multi-row RETURNING batch delivered in a permuted order, plus fabricated permuted RETURNING on recorded PostgreSQL/MariaDB/MSSQL statement streams; conservation, batch accounting and parameter-order correspondence are judged on every case.",
    "level_note": "Only SQLite executes. PostgreSQL/MariaDB/MSSQL are judged at a fake DBAPI whose RETURNING rows are fabricated under the servers' documented ordering assumptions (ids assigned in sen_counter/VALUES order); their real execution is out of reach. Empty parameter lists are not executemany and are excluded. Page-size compliance is counted, not judged.",
    "design_ref": "DESIGN.md section 4, C12",
    "rule": "case = (style, paramstyle, n, page, sort, form, returned columns); non-trivial = n >= 2 and at least one batch with >= 2 rows or >= 2 batches",
    "shards": {"quick": 8, "thorough": 16},
    "soft_s": {"quick": 50, "thorough": 800},
    "exhaustive": {"quick": False, "thorough": False},
    "require": ["sorted_batches_permuted", "batches_permuted", "rows_checked_in_order", "fake_sorted_batches_permuted",
                "orm_objects_checked", "orm_graph_batches_permuted", "upsert_rowbind_rows_wo_returning", "upsert_where_bind_rows",
                "fake_upsert_deliveries", "fake_upsert_where_bind_deliveries", "hook_cases_partly_handled"],
    "assumptions": ["a backend may deliver RETURNING rows of one statement in any order",
                    "fabricated PG/MariaDB/MSSQL rows follow the ordering guarantees SQLAlchemy documents relying on"],
}

STYLES = ("autoinc", "uuid_pk", "expl_sentinel", "col_sentinel", "composite", "client_int_pk", "str_pk", "nopk",
          "expl_sentinel_min", "autoinc_min", "uuid_pk_min")
FORMS = ("ret", "ret", "ret", "retdef", "plain", "ups_nothing", "ups_excluded", "ups_bound", "ups_func", "ups_func", "orm_add",
         "orm_bulk", "ups_rowbind")


class HookCtl:
    """Engine / dialect event hooks that may take over execution: ``do_execute``,
    ``do_executemany`` and ``do_execute_no_params`` run the statement themselves on the given
    cursor and return True for the statements the current *policy* selects, and decline (return
    None) for the others; ``before_cursor_execute(retval=True)`` hands statement and parameters
    back unchanged.  The policy is switched per case, so within one executemany some
    insertmanyvalues pages are handled by the hook and others by SQLAlchemy."""

    POLICIES = ("none", "all", "first_only", "not_first", "alternate", "multi_row_only", "single_row_only", "seeded")

    def __init__(self, seed):
        import random

        self.rng = random.Random(seed)
        self.policy = "none"
        self.n = self.case_handled = self.case_declined = 0

    def start(self, policy):
        self.policy = policy
        self.n = self.case_handled = self.case_declined = 0

    def takes(self, statement):
        if not statement.lstrip().startswith("INSERT"):
            return False
        self.n += 1
        p = self.policy
        multi = "), (" in statement
        take = {"none": False, "all": True, "first_only": self.n == 1, "not_first": self.n > 1,
                "alternate": self.n % 2 == 1, "multi_row_only": multi, "single_row_only": not multi,
                "seeded": self.rng.random() < 0.5}[p]
        if take:
            self.case_handled += 1
        else:
            self.case_declined += 1
        return take

    def attach(self, sa, engine):
        def do_execute(cursor, statement, parameters, context):
            if self.takes(statement):
                cursor.execute(statement, parameters)
                return True

        def do_executemany(cursor, statement, parameters, context):
            if self.takes(statement):
                cursor.executemany(statement, parameters)
                return True

        def do_execute_no_params(cursor, statement, context):
            if self.takes(statement):
                cursor.execute(statement)
                return True

        def before_cursor_execute(conn, cursor, statement, parameters, context, executemany):
            return statement, parameters

        sa.event.listen(engine, "do_execute", do_execute)
        sa.event.listen(engine, "do_executemany", do_executemany)
        sa.event.listen(engine, "do_execute_no_params", do_execute_no_params)
        sa.event.listen(engine, "before_cursor_execute", before_cursor_execute, retval=True)


# mechanisms decided by the statement text alone (same defect with or without hooks)
HOOK_INDEPENDENT = {"insertmanyvalues-values-text-replaced-outside-values-clause"}


def hook_begin(ctx, eng, rng, desc):
    """choose this case's hook policy (engines without hooks: None); returns a violation
    reporter that marks mechanisms observed while hooks took over part of the execution"""
    ctl = getattr(eng, "_vf_hooks", None)
    if ctl is None:
        return None, ctx.violation
    ctl.start(rng.choice(HookCtl.POLICIES))
    desc["hook_policy"] = ctl.policy

    def viol(mech, summary, witness=None):
        if mech in HOOK_INDEPENDENT:
            pass
        elif ctl.case_handled and ctl.case_declined:
            mech += "-with-partly-handled-execution-hooks"
        elif ctl.case_handled:
            mech += "-with-execution-hooks"
        ctx.violation(mech, f"[hooks handled {ctl.case_handled} declined {ctl.case_declined} statements] {summary}", witness)

    return ctl, viol


def hook_end(ctx, ctl):
    if ctl is None:
        return
    ctx.count("hook_statements_handled", ctl.case_handled)
    ctx.count("hook_statements_declined", ctl.case_declined)
    if ctl.case_handled and ctl.case_declined:
        ctx.count("hook_cases_partly_handled")
    ctx.seen("hook_policy", ctl.policy)
    ctl.start("none")


class Tok:
    """callable default producing unique tokens; counts calls"""

    def __init__(self, prefix):
        self.prefix = prefix
        self.n = 0

    def __call__(self):
        self.n += 1
        return f"{self.prefix}{self.n}"


class IntTok(Tok):
    def __call__(self):
        self.n += 1
        return 100000 + self.n


def build_tables(sa, md, uuid, rng):
    from sqlalchemy import insert_sentinel

    T = {}
    toks = {}

    def uuid4():   # seeded: the whole run is a function of (VERIF_SEED, tier)
        return uuid.UUID(int=rng.getrandbits(128), version=4)

    def common(style):
        toks[style] = IntTok(style)
        if style.endswith("_min"):  # no server-side defaults: the ORM flush asks for the primary key only
            return [sa.Column("p", sa.String, unique=True), sa.Column("d_py", sa.Integer, default=toks[style]),
                    sa.Column("d_sql", sa.String), sa.Column("d_srv", sa.String)]
        return [
            sa.Column("p", sa.String, unique=True),
            sa.Column("d_py", sa.Integer, default=toks[style]),
            sa.Column("d_sql", sa.String, default=sa.func.lower(sa.literal("SQL") + "Def")),
            sa.Column("d_srv", sa.String, server_default="srv"),
        ]

    def tbl(style, *first):
        T[style] = sa.Table(f"t_{style}", md, *first, *common(style))

    tbl("autoinc", sa.Column("id", sa.Integer, primary_key=True))
    tbl("uuid_pk", sa.Column("id", sa.Uuid, primary_key=True, default=uuid4))
    tbl("expl_sentinel", sa.Column("id", sa.Integer, primary_key=True), insert_sentinel("sent"))
    tbl("expl_sentinel_min", sa.Column("id", sa.Integer, primary_key=True), insert_sentinel("sent"))
    tbl("autoinc_min", sa.Column("id", sa.Integer, primary_key=True))
    tbl("uuid_pk_min", sa.Column("id", sa.Uuid, primary_key=True, default=uuid4))
    tbl("col_sentinel", sa.Column("id", sa.Integer, primary_key=True),
        sa.Column("s", sa.Uuid, default=uuid4, insert_sentinel=True))
    tbl("composite", sa.Column("a", sa.Integer, primary_key=True, autoincrement=False),
        sa.Column("b", sa.String, primary_key=True))
    tbl("client_int_pk", sa.Column("id", sa.Integer, primary_key=True, autoincrement=False))
    toks["str_pk_id"] = Tok("k")
    tbl("str_pk", sa.Column("id", sa.String, primary_key=True, default=toks["str_pk_id"]))
    tbl("nopk")
    return T, toks


def norm(sa, col, v):
    import uuid

    if v is not None and isinstance(col.type, sa.Uuid) and not isinstance(v, uuid.UUID):
        return uuid.UUID(v)
    return v


def read_table(sa, path, table):
    """payload -> {colname: value} through an independent raw connection."""
    import sqlite3

    con = sqlite3.connect(path, timeout=2.0)
    try:
        names = [c.name for c in table.c]
        rows = con.execute(f"SELECT {', '.join(names)} FROM {table.name}").fetchall()
    finally:
        con.close()
    out = []
    for r in rows:
        out.append({n: norm(sa, table.c[n], v) for n, v in zip(names, r)})
    return out


def payloads_in(params, prefix):
    """all payload strings handed to the driver in one execute()/executemany() call"""
    found = []

    def walk(x):
        if isinstance(x, str):
            if x.startswith(prefix):
                found.append(x)
        elif isinstance(x, dict):
            for v in x.values():
                walk(v)
        elif isinstance(x, (list, tuple)):
            for v in x:
                walk(v)

    walk(params)
    return found


def choose_n_page(rng, N):
    page = rng.choice([1, 2, 3, 7, None, None, None, 1000])
    if page is None:
        n = rng.randint(1, N)
        page = max(1, n + rng.choice([-1, 0, 1]))
    else:
        n = rng.choice([1, 2, page - 1, page, page + 1, 2 * page, 2 * page + 1, 3 * page - 1, rng.randint(1, N), N])
        n = max(1, min(N, n))
    return n, page


def run(ctx):
    import uuid
    import warnings

    import sqlalchemy as sa
    from sqlalchemy import orm
    from sqlalchemy.dialects import sqlite as sqlite_dialect

    from vf.mon.dbapi_spy import Spy
    from vf.mon.sqlite_shim_gd import PARAMSTYLES, Permuter, spy_engine

    rng = ctx.rng
    N = ctx.pick({"quick": 25, "thorough": 300})
    ncases = ctx.pick({"quick": 320, "thorough": 6000})

    md = sa.MetaData()
    T, toks = build_tables(sa, md, uuid, rng)
    # a first slice of part B runs before the main loop so that a loaded machine (soft deadline
    # reached inside the loop) cannot starve its deciding counter
    fake_part(ctx, sa, uuid, first=True)
    fake_upsert_part(ctx, sa, first=True)
    reg = orm.registry()
    classes = {}
    for style, t in T.items():
        if style == "nopk":
            continue
        cls = type(f"M_{style}", (object,), {})
        reg.map_imperatively(cls, t)
        classes[style] = cls
    graph = build_graph(sa, orm, md, reg)

    spy = Spy()
    perm = Permuter(rng.random())
    spy.row_hook = perm
    engines = {}
    paths = {}
    for ps in PARAMSTYLES:
        paths[ps] = ctx.tmppath(f"-{ps}.db")
        engines[ps] = spy_engine(spy, paths[ps], ps)
        md.create_all(engines[ps])
    engine_level = {}

    def engine_for(ps, page, how, wo, hooked=False):
        """wo: the dialect batches executemany INSERTs also when there is no RETURNING
        (``use_insertmanyvalues_wo_returning`` - stock for psycopg2 / mssql, an ordinary dialect
        attribute that SQLAlchemy's own test suite switches on for SQLite).
        hooked: execution event hooks (HookCtl) are registered on the engine."""
        key = (ps, page if how == "engine" else None, wo, hooked)
        if key == (ps, None, False, False):
            return engines[ps]
        if key not in engine_level:
            if len(engine_level) > 32:
                k0 = next(iter(engine_level))
                engine_level.pop(k0).dispose()
            kw = {"insertmanyvalues_page_size": page} if how == "engine" else {}
            e = spy_engine(spy, paths[ps], ps, **kw)
            if wo:
                e.dialect.use_insertmanyvalues_wo_returning = True
            if hooked:
                e._vf_hooks = HookCtl(rng.random())
                e._vf_hooks.attach(sa, e)
            engine_level[key] = e
        return engine_level[key]

    try:
        for k in range(ncases):
            if not ctx.budget_ok():
                break
            style = STYLES[k % len(STYLES)]
            ps = PARAMSTYLES[(k // len(STYLES)) % len(PARAMSTYLES)]
            form = rng.choice(FORMS)   # (independent of the style / paramstyle cycles: every combination occurs)
            if form.startswith("orm") and style == "nopk":
                form = "ret"
            sort = rng.random() < 0.7
            n, page = choose_n_page(rng, N)
            page_how = rng.choice(["stmt", "stmt", "conn", "engine"])
            wo = rng.random() < 0.35
            hooked = rng.random() < 0.35
            if form == "ups_rowbind":
                rowbind_case(ctx, sa, sqlite_dialect, spy, perm, engine_for(ps, page, page_how, wo, hooked), paths[ps],
                             T[style], style, ps, sort, n, page, page_how, wo, k, rng, warnings)
            else:
                one_case(ctx, sa, orm, sqlite_dialect, spy, perm, engine_for(ps, page, page_how, wo, hooked), paths[ps],
                         T[style], classes.get(style), toks, style, ps, form, sort, n, page, page_how, k, rng,
                         warnings, wo)
            if k % 6 == 2:
                graph_case(ctx, sa, orm, perm, engine_for(ps, page, "stmt", False, rng.random() < 0.35), paths[ps], graph,
                           ps, n, page, k, rng, warnings)
    finally:
        spy.row_hook = None
        for e in list(engines.values()) + list(engine_level.values()):
            e.dispose()
        reg.dispose()
    ctx.count("batches_permuted", perm.permuted)
    fake_part(ctx, sa, uuid, first=False)
    fake_upsert_part(ctx, sa, first=False)


def build_graph(sa, orm, md, reg):
    """ORM shapes in which the primary key returned for row n is *used*: joined-table
    inheritance (child row keyed by the parent's new id) and one-to-many (children carry
    the parent's new id as foreign key).  The parent tables own an insert_sentinel() so that
    SQLite batches their INSERT..RETURNING."""
    from sqlalchemy import insert_sentinel

    pj = sa.Table("g_pj", md, sa.Column("id", sa.Integer, primary_key=True), sa.Column("kind", sa.String),
                  sa.Column("p", sa.String), insert_sentinel("sent"))
    cj = sa.Table("g_cj", md, sa.Column("id", sa.ForeignKey("g_pj.id"), primary_key=True), sa.Column("cp", sa.String))
    pr = sa.Table("g_pr", md, sa.Column("id", sa.Integer, primary_key=True), sa.Column("p", sa.String),
                  insert_sentinel("sent"))
    cr = sa.Table("g_cr", md, sa.Column("id", sa.Integer, primary_key=True),
                  sa.Column("parent_id", sa.ForeignKey("g_pr.id")), sa.Column("cp", sa.String))
    PJ = type("PJ", (object,), {})
    CJ = type("CJ", (PJ,), {})
    PR = type("PR", (object,), {})
    CR = type("CR", (object,), {})
    reg.map_imperatively(PJ, pj, polymorphic_on=pj.c.kind, polymorphic_identity="p")
    reg.map_imperatively(CJ, cj, inherits=PJ, polymorphic_identity="c")
    reg.map_imperatively(PR, pr, properties={"children": orm.relationship(CR, back_populates="parent")})
    reg.map_imperatively(CR, cr, properties={"parent": orm.relationship(PR, back_populates="children")})
    # the same one-to-many shape under other mapper configurations of the parent: with / without
    # an insert sentinel, with a version_id_col (Python counter), with an eagerly fetched server
    # default.  Server generated primary key in every variant.
    variants = []
    tables = [pj, cj, pr, cr]
    for name, sentinel, versioned, server_default in (
        ("n0", False, False, False), ("v0", False, True, False), ("v1", True, True, False),
        ("v2", False, True, True), ("d0", False, False, True), ("d1", True, False, True),
    ):
        cols = [sa.Column("id", sa.Integer, primary_key=True), sa.Column("p", sa.String)]
        if versioned:
            cols.append(sa.Column("version_id", sa.Integer, nullable=False))
        if server_default:
            cols.append(sa.Column("sd", sa.String, server_default="sd"))
        if sentinel:
            cols.append(insert_sentinel("sent"))
        pt = sa.Table(f"g_{name}", md, *cols)
        ct = sa.Table(f"g_{name}c", md, sa.Column("id", sa.Integer, primary_key=True),
                      sa.Column("parent_id", sa.ForeignKey(f"g_{name}.id")), sa.Column("cp", sa.String))
        P = type(f"P_{name}", (object,), {})
        C = type(f"C_{name}", (object,), {})
        kw = {"version_id_col": pt.c.version_id} if versioned else {}
        if server_default:
            kw["eager_defaults"] = True
        reg.map_imperatively(P, pt, properties={"children": orm.relationship(C, back_populates="parent")}, **kw)
        reg.map_imperatively(C, ct, properties={"parent": orm.relationship(P, back_populates="children")})
        variants.append((name, P, C, pt, ct))
        tables += [pt, ct]
    return {"PJ": PJ, "CJ": CJ, "PR": PR, "CR": CR, "tables": tuple(tables), "variants": variants}


def graph_case(ctx, sa, orm, perm, eng, path, graph, ps, n, page, k, rng, warnings):
    import sqlite3

    prefix = f"g{ctx.shard}.{k}:"
    raw = sqlite3.connect(path, timeout=2.0)
    for t in reversed(graph["tables"]):
        raw.execute(f"DELETE FROM {t.name}")
    raw.commit()
    raw.close()
    desc = {"form": "orm_graph", "ps": ps, "n": n, "page": page}
    hooks, viol = hook_begin(ctx, eng, rng, desc)
    perm.reset_case()
    nchild = 0
    try:
        with warnings.catch_warnings():
            warnings.simplefilter("ignore")
            with orm.Session(eng) as s:
                s.connection(execution_options={"insertmanyvalues_page_size": page})
                objs = []
                for i in range(n):
                    o = graph["CJ"]()
                    o.p = o.cp = f"{prefix}j{i}"
                    objs.append(o)
                    par = graph["PR"]()
                    par.p = f"{prefix}r{i}"
                    for j in range(rng.randint(0, 2)):
                        ch = graph["CR"]()
                        ch.cp = f"{prefix}r{i}/{j}"
                        par.children.append(ch)
                        nchild += 1
                    objs.append(par)
                vname, P, C, pt, ct = graph["variants"][(k // 6) % len(graph["variants"])]
                desc["variant"] = vname
                vobjs = []
                vchild = 0
                for i in range(n):
                    par = P()
                    par.p = f"{prefix}{vname}{i}"
                    for j in range(rng.randint(0, 2)):
                        ch = C()
                        ch.cp = f"{prefix}{vname}{i}/{j}"
                        par.children.append(ch)
                        vchild += 1
                    vobjs.append(par)
                s.add_all(objs + vobjs)
                s.flush()
                vseen = [(o.p, o.id) for o in vobjs]   # identity the session believes in
                s.commit()
    except Exception as e:
        viol(f"insert-raised-{type(e).__name__}", f"{desc} raised {e!r}"[:600], desc)
        hook_end(ctx, hooks)
        return
    raw = sqlite3.connect(path, timeout=2.0)
    try:
        vrows = dict(raw.execute(f"SELECT p, id FROM {pt.name}").fetchall())
        vrel = raw.execute(f"SELECT {pt.name}.p, {ct.name}.cp FROM {ct.name} JOIN {pt.name} "
                           f"ON {pt.name}.id = {ct.name}.parent_id").fetchall()
    finally:
        raw.close()
    if sorted(vrows) != sorted(p for p, _ in vseen) or len(vrel) != vchild:
        viol("rows-lost-or-duplicated", f"{desc}: {len(vrows)} parent rows / {len(vrel)} joined children for "
                      f"{n} / {vchild} objects", desc)
    else:
        ctx.count("orm_objects_checked", len(vseen) + len(vrel))
        ctx.count("rows_checked_in_order", len(vseen) + len(vrel))
        wrong = {p: (i, vrows[p]) for p, i in vseen if vrows[p] != i}
        badrel = [(p, cp) for p, cp in vrel if not cp.startswith(p + "/")]
        if wrong or badrel:
            viol("orm-flushed-object-holds-other-rows-key",
                          f"{desc}: {{payload: (object.id, row.id)}} = {dict(list(wrong.items())[:4])}; children under the "
                          f"wrong parent {badrel[:3]}; permuted batches={perm.case_permuted}",
                          {"desc": desc, "wrong": list(wrong.items())[:10], "badrel": badrel[:10]})
    ctx.seen("orm_graph_variant", vname)
    raw = sqlite3.connect(path, timeout=2.0)
    try:
        joined = raw.execute("SELECT g_pj.p, g_cj.cp FROM g_pj JOIN g_cj ON g_pj.id = g_cj.id").fetchall()
        rel = raw.execute("SELECT g_pr.p, g_cr.cp FROM g_cr JOIN g_pr ON g_pr.id = g_cr.parent_id").fetchall()
        counts = [raw.execute(f"SELECT count(*) FROM {t}").fetchone()[0] for t in ("g_pj", "g_cj", "g_pr", "g_cr")]
    finally:
        raw.close()
    if counts != [n, n, n, nchild] or len(joined) != n or len(rel) != nchild:
        viol("rows-lost-or-duplicated", f"{desc}: table counts {counts}, joins {len(joined)}/{len(rel)} "
                      f"expected {[n, n, n, nchild]}", desc)
    else:
        bad = [(p, cp) for p, cp in joined if p != cp] + [(p, cp) for p, cp in rel if not cp.startswith(p + "/")]
        ctx.count("orm_objects_checked", len(joined) + len(rel))
        ctx.count("rows_checked_in_order", len(joined) + len(rel))
        if bad:
            viol("orm-dependent-row-got-other-rows-key", f"{desc}: the key returned for one object was given to "
                          f"another: {bad[:4]}; permuted batches={perm.case_permuted}", {"desc": desc, "bad": bad[:10]})
    if perm.case_permuted:
        ctx.count("sorted_batches_permuted", perm.case_permuted)
        ctx.count("orm_graph_batches_permuted", perm.case_permuted)
    ctx.case(desc, nontrivial=n >= 2)
    hook_end(ctx, hooks)


def make_params(style, n, prefix, rng, supply_dpy):
    params = []
    ints = rng.sample(range(1, 10 * n + 10), n)  # non-monotonic client keys
    for i in range(n):
        d = {"p": f"{prefix}{i}"}
        if style == "composite":
            d["a"] = ints[i] % 5
            d["b"] = f"b{ints[i]}"
        elif style == "client_int_pk":
            d["id"] = ints[i]
        if supply_dpy:
            d["d_py"] = -ints[i]
        params.append(d)
    return params


def rowbind_case(ctx, sa, sqlite_dialect, spy, perm, eng, path, t, style, ps, sort, n, page, page_how, wo, k, rng,
                 warnings):
    """executemany upsert whose DO UPDATE SET carries a bound parameter with a different value
    in every parameter set, over a mix of conflicting and new rows, with / without RETURNING:
    every parameter set is applied exactly once - a conflicting row receives the SET value of
    its *own* parameter set, a new row is inserted."""
    import sqlite3

    prefix = f"b{ctx.shard}.{k}:"
    raw = sqlite3.connect(path, timeout=2.0)
    raw.execute(f"DELETE FROM {t.name}")
    raw.commit()
    raw.close()
    first = make_params(style, n, prefix, rng, False)
    n_new = rng.randint(0, 3)
    second = make_params(style, n + n_new, prefix, rng, False)   # payloads 0..n-1 conflict, the rest are new
    for d in second:
        for kk in ("id", "a"):
            if kk in d:
                d[kk] += 100000        # fresh primary keys: the only violated constraint is UNIQUE(p)
    # where the per-row bound parameters sit: in SET, in the DO UPDATE WHERE, or in both
    binds = rng.choice(["set", "where", "both"])
    for d in second:
        if binds != "where":
            d["bp"] = "bp-" + d["p"]
        if binds != "set":
            d["wp"] = ("go:" if rng.random() < 0.6 else "no:") + d["p"]   # this row's own verdict
    rng.shuffle(second)
    ret = rng.choice(["none", "none", "returning"])
    desc = {"style": style, "ps": ps, "form": "ups_rowbind", "binds": binds, "sort": sort, "n": n, "new": n_new,
            "page": page, "how": page_how, "wo_returning": wo, "ret": ret}
    hooks, viol = hook_begin(ctx, eng, rng, desc)
    opts = {"insertmanyvalues_page_size": page} if page_how in ("stmt", "conn") else {}
    stmt = sqlite_dialect.insert(t)
    stmt = stmt.on_conflict_do_update(
        index_elements=[t.c.p],
        set_={"d_srv": sa.bindparam("bp") if binds != "where" else stmt.excluded.p},
        where=(sa.bindparam("wp") == sa.literal("go:") + t.c.p) if binds != "set" else None)
    if ret == "returning":
        stmt = stmt.returning(t.c.p, t.c.d_srv, sort_by_parameter_order=sort)
    perm.reset_case()
    returned = None
    try:
        with warnings.catch_warnings():
            warnings.simplefilter("ignore")
            with eng.begin() as c:
                c.execute(sa.insert(t), first, execution_options=opts)
                mark = spy.mark()
                res = c.execute(stmt, second, execution_options=opts)
                if ret == "returning":
                    returned = [tuple(r) for r in res.all()]
    except Exception as e:
        viol(f"insert-raised-{type(e).__name__}", f"{desc} raised {e!r}"[:600], desc)
        ctx.case(desc, nontrivial=False)
        hook_end(ctx, hooks)
        return
    # every parameter set reaches the DBAPI exactly once, together with its own SET / WHERE values
    seen = {}
    by_payload = {d["p"]: d for d in second}
    for e in spy.since(mark, ("execute", "executemany")):
        if not (e.sql or "").lstrip().startswith("INSERT"):
            continue
        deliveries = e.params if e.kind == "executemany" else [e.params]
        for dl in deliveries:
            ps_in = payloads_in(dl, prefix)
            strings = set(payloads_in(dl, ""))
            for p in ps_in:
                seen[p] = seen.get(p, 0) + 1
                own = by_payload[p]
                if "bp" in own and own["bp"] not in strings:
                    viol("upsert-set-value-not-delivered-with-its-parameter-set",
                                  f"{desc}: payload {p} was handed to the driver in a statement that carries the SET "
                                  f"values {sorted(x for x in strings if x.startswith('bp-'))[:3]} only", desc)
                if "wp" in own and own["wp"] not in strings:
                    viol("upsert-where-value-not-delivered-with-its-parameter-set",
                                  f"{desc}: payload {p} was handed to the driver in a statement that carries the WHERE "
                                  f"values {sorted(x for x in strings if x[:3] in ('go:', 'no:'))[:3]} only", desc)
    want = [d["p"] for d in second]
    if sorted(seen) != sorted(want) or any(v != 1 for v in seen.values()):
        viol("batch-accounting", f"{desc}: parameter sets delivered {sorted(seen.items())[:6]}", desc)
    stored = {r["p"]: r for r in read_table(sa, path, t)}
    if sorted(stored) != sorted(want):
        viol("rows-lost-or-duplicated", f"{desc}: table holds {len(stored)} rows for {len(want)} payloads", desc)
        ctx.case(desc, nontrivial=True)
        hook_end(ctx, hooks)
        return
    old = {d["p"] for d in first}
    fresh_value = "srv" if t.c.d_srv.server_default is not None else None
    exp, affected = {}, []
    for p in want:
        own = by_payload[p]
        if p not in old:
            exp[p] = fresh_value                    # new row: inserted
            affected.append(p)
        elif own.get("wp", "go:").startswith("go:"):
            exp[p] = own.get("bp", p)               # conflicting row, its own WHERE says update
            affected.append(p)
        else:
            exp[p] = fresh_value                    # its own WHERE says leave the row alone
    wrong = {p: (stored[p]["d_srv"], exp[p]) for p in want if stored[p]["d_srv"] != exp[p]}
    if binds != "set":
        ctx.count("upsert_where_bind_rows", len(want))
    ctx.count("upsert_rowbind_rows", len(want))
    if wo:
        ctx.count("upsert_rowbind_rows_wo_returning", len(want))
    decision_wrong = {p for p in wrong if p in old and (stored[p]["d_srv"] == fresh_value) != (exp[p] == fresh_value)}
    if decision_wrong:
        viol("upsert-where-per-row-bind-batched-with-first-row",
                      f"{desc}: rows updated / skipped against their own WHERE parameter "
                      f"{{payload: (stored, expected, wp)}} = "
                      f"{ {p: (stored[p]['d_srv'], exp[p], by_payload[p].get('wp')) for p in sorted(decision_wrong)[:4]} }",
                      {"desc": desc})
    elif wrong:
        viol("upsert-set-value-from-other-parameter-set",
                      f"{desc}: {{payload: (stored, expected)}} = {dict(list(wrong.items())[:4])}",
                      {"desc": desc, "wrong": list(wrong.items())[:10]})
    elif returned is not None:
        if sorted(returned) != sorted((p, exp[p]) for p in affected):
            viol("returning-multiset", f"{desc}: returned {returned[:5]} for affected rows {affected[:5]}", desc)
        elif sort:
            ctx.count("rows_checked_in_order", len(returned))
            if [r[0] for r in returned] != affected:
                viol("returning-row-order", f"{desc}: returned {[r[0] for r in returned][:8]} for {affected[:8]}", desc)
    ctx.seen("style_form_sort", f"{style}/ups_rowbind/{ret}/{wo}")
    ctx.case(desc, nontrivial=n >= 2)
    hook_end(ctx, hooks)


def one_case(ctx, sa, orm, sqlite_dialect, spy, perm, eng, path, t, cls, toks, style, ps, form, sort, n, page,
             page_how, k, rng, warnings, wo=False):
    prefix = f"c{ctx.shard}.{k}:"
    supply_dpy = rng.random() < 0.3
    params = make_params(style, n, prefix, rng, supply_dpy)
    want = [d["p"] for d in params]
    pkcols = [c.name for c in t.primary_key]
    extra_ret = [c for c in ("d_py", "d_sql", "d_srv") if rng.random() < 0.4]
    retnames = ["p"] + (pkcols if rng.random() < 0.7 else []) + extra_ret
    if rng.random() < 0.3:
        rng.shuffle(retnames)
    desc = {"style": style, "ps": ps, "form": form, "sort": sort, "n": n, "page": page, "how": page_how,
            "ret": retnames, "dpy": supply_dpy, "wo_returning": wo}
    hooks, viol = hook_begin(ctx, eng, rng, desc)
    if wo:
        ctx.count("cases_on_wo_returning_dialect")
    opts = {"insertmanyvalues_page_size": page} if page_how == "stmt" else {}

    # empty the table through the raw driver (not through the code under test)
    import sqlite3

    raw = sqlite3.connect(path, timeout=2.0)
    raw.execute(f"DELETE FROM {t.name}")
    raw.commit()
    raw.close()

    perm.reset_case()
    mark = spy.mark()
    returned = None          # list of dicts colname -> value, in delivered order
    pk_rows = None
    rd_rows = None
    objs = None
    sorted_expected = sort
    tok = toks[style]
    calls0 = tok.n
    try:
        with warnings.catch_warnings():
            warnings.simplefilter("ignore")
            if form in ("ret", "retdef", "plain", "ups_nothing", "ups_excluded", "ups_bound", "ups_func"):
                if form.startswith("ups"):
                    stmt = sqlite_dialect.insert(t)
                    if form == "ups_nothing":
                        stmt = stmt.on_conflict_do_nothing(index_elements=[t.c.p])
                    elif form == "ups_excluded":
                        stmt = stmt.on_conflict_do_update(index_elements=[t.c.p], set_={"d_srv": stmt.excluded.p})
                    elif form == "ups_func":
                        # a SQL function over 2-4 bound literals inside SET: "coalesce(?, ?)"
                        lits = [f"f{i}-{prefix}" for i in range(rng.choice([2, 2, 3, 3, 4]))]
                        desc["func_arity"] = len(lits)
                        stmt = stmt.on_conflict_do_update(index_elements=[t.c.p], set_={"d_srv": sa.func.coalesce(*lits)})
                    else:
                        stmt = stmt.on_conflict_do_update(index_elements=[t.c.p], set_={"d_srv": "bound-" + prefix})
                else:
                    stmt = sa.insert(t)
                if form == "retdef":
                    stmt = stmt.return_defaults(sort_by_parameter_order=sort)
                elif form != "plain":
                    stmt = stmt.returning(*[t.c[nm] for nm in retnames], sort_by_parameter_order=sort)
                with eng.connect() as c:
                    if page_how == "conn":
                        c = c.execution_options(insertmanyvalues_page_size=page)
                    with c.begin():
                        res = c.execute(stmt, params, execution_options=opts)
                        if form == "retdef":
                            pk_rows = [tuple(r) for r in res.inserted_primary_key_rows]
                            rd = res.returned_defaults_rows
                            if rd is not None:
                                rd_rows = [dict(r._mapping) for r in rd]
                        elif form != "plain":
                            returned = [dict(zip(retnames, r)) for r in res.all()]
            elif form == "orm_add":
                sorted_expected = True
                with orm.Session(eng) as s:
                    if page_how in ("stmt", "conn"):
                        s.connection(execution_options={"insertmanyvalues_page_size": page})
                    objs = []
                    for i, d in enumerate(params):
                        o = cls()
                        for kk, v in d.items():
                            if kk == "d_py" and i % 3 == 1:
                                continue  # heterogeneous key sets -> several executemany groups
                            setattr(o, kk, v)
                        objs.append(o)
                    s.add_all(objs)
                    s.flush()
                    objs = [{"p": o.p, **{nm: getattr(o, nm) for nm in pkcols}, "d_py": o.d_py} for o in objs]
                    s.commit()
            elif form == "orm_bulk":
                with orm.Session(eng) as s:
                    if page_how == "conn":
                        s.connection(execution_options={"insertmanyvalues_page_size": page})
                    if rng.random() < 0.5:
                        stmt = sa.insert(cls).returning(cls, sort_by_parameter_order=sort)
                        res = s.execute(stmt, params, execution_options=opts)
                        returned = [{"p": o.p, **{nm: getattr(o, nm) for nm in pkcols}} for o in res.scalars().all()]
                    else:
                        stmt = sa.insert(cls).returning(*[getattr(cls, nm) for nm in retnames],
                                                        sort_by_parameter_order=sort)
                        res = s.execute(stmt, params, execution_options=opts)
                        returned = [dict(zip(retnames, r)) for r in res.all()]
                    s.commit()
            else:
                raise AssertionError(form)
    except Exception as e:  # the statement is valid: nothing may raise
        mech = f"insert-raised-{type(e).__name__}"
        if isinstance(e, sa.exc.DBAPIError) and re.search(r"DO UPDATE SET [^\n]*\), \(", getattr(e, "statement", None) or str(e)):
            # the multi-row VALUES expansion was also applied to text inside the DO UPDATE clause
            mech = "insertmanyvalues-values-text-replaced-outside-values-clause"
        viol(mech, f"{desc} raised {e!r}"[:800], desc)
        ctx.case(desc, nontrivial=False)
        hook_end(ctx, hooks)
        return

    # ---- (b) batch accounting at the DBAPI boundary
    evs = [e for e in spy.since(mark, ("execute", "executemany")) if (e.sql or "").lstrip().startswith("INSERT")]
    seen = {}
    batch_rows = []
    for e in evs:
        ps_in = payloads_in(e.params, prefix)
        batch_rows.append(len(ps_in))
        for p in ps_in:
            seen[p] = seen.get(p, 0) + 1
    ctx.count("insert_statements_spied", len(evs))
    if sorted(seen) != sorted(want) or any(v != 1 for v in seen.values()):
        missing = sorted(set(want) - set(seen))
        dup = sorted(p for p, v in seen.items() if v != 1)
        viol("batch-accounting", f"{desc}: missing from batches {missing[:5]} duplicated {dup[:5]} "
                      f"batch sizes {batch_rows}", {"desc": desc, "batch_rows": batch_rows})
    if form != "plain" and any(b > page for b in batch_rows):
        ctx.count("batches_over_page_size")  # counted, not judged

    # ---- (a) conservation
    stored = read_table(sa, path, t)
    got = sorted(r["p"] for r in stored)
    if got != sorted(want):
        viol("rows-lost-or-duplicated",
                      f"{desc}: table has {len(got)} rows for {n} parameter sets; missing "
                      f"{sorted(set(want) - set(got))[:5]} extra {[p for p in got if p not in set(want)][:5]}",
                      {"desc": desc, "table": got[:40]})
        ctx.case(desc, nontrivial=False)
        hook_end(ctx, hooks)
        return
    by_p = {r["p"]: r for r in stored}

    # python default: exactly once per row that omitted it (ties to C13, cheap here)
    if form in ("ret", "retdef", "plain") and not supply_dpy:
        if tok.n - calls0 != n:
            viol("python-default-call-count", f"{desc}: default called {tok.n - calls0}x for {n} rows", desc)

    # ---- (c)/(d) returned rows
    def check_seq(seq, what, mech_order):
        ps_ret = [r.get("p") for r in seq]
        if sorted(ps_ret) != sorted(want):
            viol(f"{what}-multiset", f"{desc}: {what} payloads {ps_ret[:30]} != parameters", desc)
            hook_end(ctx, hooks)
            return
        for r in seq:
            st = by_p[r["p"]]
            for nm, v in r.items():
                if st[nm] != v:
                    viol(f"{what}-value-mismatch", f"{desc}: {what} {nm}={v!r} stored {st[nm]!r} "
                                  f"for payload {r['p']}", desc)
                    hook_end(ctx, hooks)
                    return
        if sorted_expected:
            ctx.count("rows_checked_in_order", len(seq))
            if ps_ret != want:
                first = next(i for i, (a, b) in enumerate(zip(ps_ret, want)) if a != b)
                viol(mech_order, f"{desc}: {what}[{first}] is {ps_ret[first]} expected {want[first]}; "
                              f"permuted batches this case={perm.case_permuted}",
                              {"desc": desc, "got": ps_ret[:40], "want": want[:40]})

    if returned is not None:
        if len(returned) != n:
            viol("returning-row-count", f"{desc}: {len(returned)} rows returned for {n} parameter sets", desc)
        else:
            check_seq(returned, "returning", "returning-row-order")
    if pk_rows is not None:
        stored_pks = [tuple(by_p[p][nm] for nm in pkcols) for p in want]
        if len(pk_rows) != n:
            viol("inserted-pk-rows-count", f"{desc}: {len(pk_rows)} inserted_primary_key_rows for {n}", desc)
        elif pkcols:
            if sorted(map(repr, pk_rows)) != sorted(map(repr, stored_pks)):
                viol("inserted-pk-rows-multiset", f"{desc}: {pk_rows[:10]} vs stored {stored_pks[:10]}", desc)
            elif sort:
                ctx.count("rows_checked_in_order", n)
                if pk_rows != stored_pks:
                    viol("inserted-pk-rows-order", f"{desc}: inserted_primary_key_rows {pk_rows[:10]} but the "
                                  f"rows of the parameter sets have keys {stored_pks[:10]}", desc)
        if rd_rows is not None and sort and len(rd_rows) == n:
            for i, (r, p) in enumerate(zip(rd_rows, want)):
                st = by_p[p]
                bad = [nm for nm, v in r.items() if nm in st and norm(sa, t.c[nm], v) != st[nm]]
                if bad:
                    viol("returned-defaults-rows-order", f"{desc}: returned_defaults_rows[{i}] {r} is not "
                                  f"the row of parameter {i} ({st})", desc)
                    break
    if objs is not None:
        ctx.count("orm_objects_checked", len(objs))
        for i, o in enumerate(objs):
            st = by_p.get(o["p"])
            if o["p"] != want[i] or st is None or any(st[nm] != o[nm] for nm in pkcols) or st["d_py"] != o["d_py"]:
                viol("orm-object-row-mismatch", f"{desc}: object {i} has {o} but its row is {st}", desc)
                break

    multi = any(b >= 2 for b in batch_rows) or len(batch_rows) >= 2
    if sort and perm.case_permuted and (returned is not None or pk_rows is not None or objs is not None):
        ctx.count("sorted_batches_permuted", perm.case_permuted)
    elif form == "orm_add" and perm.case_permuted:
        ctx.count("sorted_batches_permuted", perm.case_permuted)
    ctx.seen("style_form_sort", f"{style}/{form}/{sort}")
    ctx.seen("paramstyle", ps)
    ctx.maxi("max_rows", n)
    ctx.case(desc, nontrivial=n >= 2 and multi)
    if k % 97 == 5:
        ctx.sample({"desc": desc, "batch_rows": batch_rows, "permuted_batches": perm.case_permuted,
                    "returned_first": (returned or pk_rows or objs or [None])[0]})
    hook_end(ctx, hooks)


# --------------------------------------------------------------------------------------
# Part B: other dialects at a recording fake DBAPI with fabricated, shuffled RETURNING
# --------------------------------------------------------------------------------------
FAKE_URLS = (
    "postgresql+psycopg2://u:p@h/db",
    "postgresql+pg8000://u:p@h/db",
    "postgresql+psycopg://u:p@h/db",
    "mariadb+pymysql://u:p@h/db",
    "mariadb+mariadbconnector://u:p@h/db",
    "mssql+pyodbc://u:p@dsn",
)

_COLLIST = re.compile(r"INSERT INTO \w+ \(([^)]*)\)")
_NAMED_IDX = re.compile(r"^(.*?)__(\d+)$")


class Fabricator:
    """fake.responder: derive the VALUES rows from (sql, params), assign serial ids in
    VALUES / sen_counter order, return the RETURNING/OUTPUT rows shuffled."""

    def __init__(self, rng, table_cols, serial_col):
        self.rng = rng
        self.serial = 0
        self.cols = table_cols
        self.serial_col = serial_col
        self.batches = []        # list of list of payloads per statement
        self.permuted = 0
        self.case_permuted = 0

    def rows_from(self, sql, params):
        m = _COLLIST.search(sql)
        inscols = [c.strip().strip('"[]`') for c in m.group(1).split(",")] if m else []
        rows = []
        if isinstance(params, dict):
            groups = {}
            for k, v in params.items():
                mm = _NAMED_IDX.match(k)
                if mm and mm.group(1) in self.cols:
                    groups.setdefault(int(mm.group(2)), {})[mm.group(1)] = v
                elif k in self.cols:
                    groups.setdefault(0, {})[k] = v
            rows = [groups[i] for i in sorted(groups)]
        else:
            params = list(params or ())
            k = len(inscols)
            if k and len(params) % k == 0:
                rows = [dict(zip(inscols, params[i:i + k])) for i in range(0, len(params), k)]
        return rows

    def __call__(self, sql, params, cursor):
        s = sql.lstrip()
        if not s.startswith("INSERT"):
            return None
        rows = self.rows_from(sql, params)
        self.batches.append([r.get("p") for r in rows])
        if "RETURNING" in sql:
            retlist = sql.split("RETURNING", 1)[1]
        elif "OUTPUT" in sql:
            retlist = re.split(r"\sSELECT\s|\sVALUES\s", sql.split("OUTPUT", 1)[1])[0]
        else:
            return None
        items = []
        for it in retlist.split(","):
            it = it.strip()
            mm = re.match(r"^[\w\"\[\]`]+\.([\w\"\[\]`]+)(?:\s+AS\s+(\w+))?$", it)
            if not mm:
                raise AssertionError(f"fabricator cannot parse returning item {it!r} in {sql!r}")
            items.append((mm.group(1).strip('"[]`'), mm.group(2) or mm.group(1).strip('"[]`')))
        out = []
        for r in rows:
            if self.serial_col and self.serial_col not in r:
                self.serial += 1
                r = dict(r, **{self.serial_col: self.serial})
            out.append(tuple(r.get(col) for col, _ in items))
        if len(out) > 1:
            orig = list(out)
            self.rng.shuffle(out)
            if out == orig:
                out = out[1:] + out[:1]
            self.permuted += 1
            self.case_permuted += 1
        description = [(alias, None, None, None, None, None, None) for _, alias in items]
        return description, out


def fake_part(ctx, sa, uuid, first):
    import random
    import warnings

    from vf.mon.fake_dbapi import recording_engine

    rng = ctx.rng
    ncases = ctx.pick({"quick": 60, "thorough": 1200})
    N = ctx.pick({"quick": 25, "thorough": 120})
    head = 18
    for k in (range(head) if first else range(head, ncases)):
        if not first and not ctx.budget_ok():
            break
        url = FAKE_URLS[(k + ctx.shard) % len(FAKE_URLS)]
        style = ("autoinc", "uuid_pk", "composite")[(k // len(FAKE_URLS)) % 3]
        md = sa.MetaData()
        if style == "autoinc":
            t = sa.Table("t", md, sa.Column("id", sa.Integer, primary_key=True), sa.Column("p", sa.String(80)))
            serial = "id"
        elif style == "uuid_pk":
            t = sa.Table("t", md, sa.Column("id", sa.Uuid(native_uuid=True), primary_key=True,
                                           default=lambda: uuid.UUID(int=rng.getrandbits(128), version=4)),
                         sa.Column("p", sa.String(80)))
            serial = None
        else:
            t = sa.Table("t", md, sa.Column("a", sa.Integer, primary_key=True, autoincrement=False),
                         sa.Column("b", sa.Integer, primary_key=True, autoincrement=False), sa.Column("p", sa.String(80)))
            serial = None
        if style == "uuid_pk" and not url.startswith("postgresql"):
            # non-native uuid wire formats need a symmetrical fabricated result format: PG only
            style = "autoinc"
            md = sa.MetaData()
            t = sa.Table("t", md, sa.Column("id", sa.Integer, primary_key=True), sa.Column("p", sa.String(80)))
            serial = "id"
        n, page = choose_n_page(rng, N)
        sort = rng.random() < 0.8
        prefix = f"f{ctx.shard}.{k}:"
        ints = rng.sample(range(1, 10 * n + 10), n)
        params = []
        for i in range(n):
            d = {"p": f"{prefix}{i}"}
            if style == "composite":
                d["a"], d["b"] = ints[i] % 4, ints[i]
            params.append(d)
        want = [d["p"] for d in params]
        desc = {"fake": url.split(":")[0], "style": style, "n": n, "page": page, "sort": sort}
        eng, fake = recording_engine(url)
        fab = Fabricator(random.Random(rng.random()), [c.name for c in t.c], serial)
        fake.responder = fab
        pk = [c for c in t.primary_key]
        stmt = sa.insert(t).returning(t.c.p, *pk, sort_by_parameter_order=sort)
        try:
            with warnings.catch_warnings():
                warnings.simplefilter("ignore")
                with eng.connect() as c:
                    res = c.execute(stmt, params, execution_options={"insertmanyvalues_page_size": page})
                    rows = [tuple(r) for r in res.all()]
        except Exception as e:
            ctx.violation(f"fake-insert-raised-{type(e).__name__}", f"{desc} raised {e!r}"[:500], desc)
            ctx.case(desc, nontrivial=False)
            eng.dispose()
            continue
        eng.dispose()
        flat = [p for b in fab.batches for p in b]
        if sorted(flat) != sorted(want):
            ctx.violation("fake-batch-accounting", f"{desc}: batches {fab.batches} do not partition the parameters", desc)
        got = [r[0] for r in rows]
        if sorted(got) != sorted(want):
            ctx.violation("fake-returning-multiset", f"{desc}: returned {got[:20]}", desc)
        elif sort:
            ctx.count("rows_checked_in_order", n)
            if fab.case_permuted:
                ctx.count("fake_sorted_batches_permuted", fab.case_permuted)
            if got != want:
                first = next(i for i, (a, b) in enumerate(zip(got, want)) if a != b)
                ctx.violation("fake-returning-row-order", f"{desc}: row {first} is {got[first]} expected {want[first]}",
                              {"desc": desc, "got": got[:40]})
            if style == "composite":
                exp = [(d["p"], d["a"], d["b"]) for d in params]
                if rows != exp:
                    ctx.violation("fake-returning-row-order", f"{desc}: composite keys out of line", desc)
        ctx.seen("fake_dialect_style", f"{desc['fake']}/{style}")
        ctx.count("fake_statements", len(fab.batches))
        ctx.case(desc, nontrivial=n >= 2)


FAKE_UPSERT = (
    ("postgresql+psycopg2://u:p@h/db", "pg", None),      # stock: use_insertmanyvalues_wo_returning = True
    ("postgresql+psycopg2://u:p@h/db", "pg", False),
    ("postgresql+pg8000://u:p@h/db", "pg", True),
    ("postgresql+psycopg://u:p@h/db", "pg", None),
    ("mysql+pymysql://u:p@h/db", "my", True),
    ("mariadb+mariadbconnector://u:p@h/db", "my", None),
)


def fake_upsert_part(ctx, sa, first):
    """executemany upsert with a per-row bound SET value and no RETURNING at the recording
    fake DBAPI, with the dialect's stock ``use_insertmanyvalues_wo_returning`` and with the
    attribute forced on / off: every parameter set must reach the driver exactly once, in a
    statement (or executemany entry) that also carries its own SET value."""
    import warnings

    from sqlalchemy.dialects import mysql as my
    from sqlalchemy.dialects import postgresql as pg

    from vf.mon.fake_dbapi import recording_engine

    rng = ctx.rng
    ncases = ctx.pick({"quick": 24, "thorough": 400})
    head = 6
    for k in (range(head) if first else range(head, ncases)):
        if not first and not ctx.budget_ok():
            break
        url, fam, force = FAKE_UPSERT[(k + ctx.shard) % len(FAKE_UPSERT)]
        md = sa.MetaData()
        t = sa.Table("t", md, sa.Column("id", sa.Integer, primary_key=True, autoincrement=False),
                     sa.Column("p", sa.String(80), unique=True), sa.Column("v", sa.String(80)))
        n = rng.randint(2, 9)
        page = rng.choice([1, 2, 3, 1000])
        prefix = f"u{ctx.shard}.{k}:"
        # per-row bound parameters in SET, in the DO UPDATE WHERE (PostgreSQL) or in both; with /
        # without RETURNING (PostgreSQL; rows fabricated, unsorted)
        binds = rng.choice(["set", "where", "both"]) if fam == "pg" else "set"
        ret = fam == "pg" and rng.random() < 0.5
        params = []
        for i in range(n):
            d = {"id": 10 + i, "p": f"{prefix}{i}", "v": f"v{i}"}
            if binds != "where":
                d["bp"] = f"bp-{prefix}{i}"
            if binds != "set":
                d["wp"] = f"wp-{prefix}{i}"
            params.append(d)
        if fam == "pg":
            stmt = pg.insert(t)
            stmt = stmt.on_conflict_do_update(
                index_elements=[t.c.p], set_={"v": sa.bindparam("bp") if binds != "where" else stmt.excluded.v},
                where=(t.c.v < sa.bindparam("wp")) if binds != "set" else None)
            if ret:
                stmt = stmt.returning(t.c.p, t.c.v)
        else:
            stmt = my.insert(t).on_duplicate_key_update(v=sa.bindparam("bp"))
        eng, fake = recording_engine(url)
        if ret:
            import random

            fake.responder = Fabricator(random.Random(rng.random()), [c_.name for c_ in t.c], None)
        if force is not None:
            eng.dialect.use_insertmanyvalues_wo_returning = force
        desc = {"fake": url.split(":")[0], "wo_returning": eng.dialect.use_insertmanyvalues_wo_returning, "n": n, "page": page,
                "binds": binds, "returning": ret}
        try:
            with warnings.catch_warnings():
                warnings.simplefilter("ignore")
                with eng.connect() as c:
                    c.execute(stmt, params, execution_options={"insertmanyvalues_page_size": page})
        except Exception as e:
            ctx.violation(f"fake-insert-raised-{type(e).__name__}", f"{desc} raised {e!r}"[:500], desc)
            eng.dispose()
            continue
        eng.dispose()
        seen = {}
        bad = badw = None
        for e in fake.log:
            if e.kind not in ("execute", "executemany") or not (e.sql or "").lstrip().startswith("INSERT"):
                continue
            for dl in (e.params if e.kind == "executemany" else [e.params]):
                ps_in = payloads_in(dl, prefix)
                bps = set(payloads_in(dl, "bp-" + prefix))
                wps = set(payloads_in(dl, "wp-" + prefix))
                ctx.count("fake_upsert_deliveries")
                if binds != "set":
                    ctx.count("fake_upsert_where_bind_deliveries")
                for p in ps_in:
                    seen[p] = seen.get(p, 0) + 1
                    if binds != "where" and "bp-" + p not in bps and bad is None:
                        bad = (p, sorted(bps)[:3], e.sql[:200])
                    if binds != "set" and "wp-" + p not in wps and badw is None:
                        badw = (p, sorted(wps)[:3], e.sql[:260])
        if bad:
            ctx.violation("fake-upsert-set-value-not-delivered-with-its-parameter-set",
                          f"{desc}: parameter set {bad[0]} travels in a statement whose SET values are {bad[1]}: {bad[2]}", desc)
        if badw:
            ctx.violation("fake-upsert-where-value-not-delivered-with-its-parameter-set",
                          f"{desc}: parameter set {badw[0]} travels in a statement whose DO UPDATE WHERE values are "
                          f"{badw[1]}: {badw[2]}", desc)
        if sorted(seen) != sorted(d["p"] for d in params) or any(v != 1 for v in seen.values()):
            ctx.violation("fake-batch-accounting", f"{desc}: deliveries {sorted(seen.items())[:6]}", desc)
        ctx.seen("fake_upsert_dialect", f"{desc['fake']}/{desc['wo_returning']}")
        ctx.case(desc, nontrivial=True)
