"""C13 -- column defaults / onupdate fire exactly when the value is omitted, once per row; a
supplied value (including None) is never overridden; returned defaults and inserted
primary keys equal what was stored.

Workload: per case a fresh table ``id, p (unique payload), mark, c0..c{m-1}`` where every
``c{j}`` draws an INSERT default kind from {none, scalar (also the falsy ''), callable,
context-sensitive, SQL expression, server_default} and an onupdate kind from {none,
scalar, callable, context-sensitive, SQL expression}; ``implicit_returning`` on/off.  On
it a sequence of statements, each with a per-column choice {omitted, value, '' , None,
SQL expression}:

  Core INSERT   single (params dict / .values()), executemany (homogeneous keys),
                multi-VALUES ``.values([..])``, each with / without RETURNING or
                return_defaults()
  Core UPDATE   single (one row or a group of rows per statement; SET values given as
                values(**kw), values({Column: v}), ordered_values() with string keys or with
                Column-object keys in shuffled order, or as execute() parameters), executemany
                with bindparam() criteria, with / without return_defaults()
  ORM           add_all + flush with per-object attribute states {unset, value, None}
                (heterogeneous -> the unit of work groups them), then modify + flush
  negative      Core executemany whose later dict lacks a key of the first: must raise
                (or else behave per the model) - never silently store something else.

Declaration styles: the same table is declared in one of: Table(Column...), Table.to_metadata(),
Table(..., extend_existing=True) over a stub, Column._copy(), declarative mapped_column(), pep-593
``Annotated[T, mapped_column(<some generators>)]`` with the remaining generators (``default=`` /
``insert_default=`` / ``onupdate=`` / ``server_default=``) on the attribute's own right-hand
mapped_column(), a registry type_annotation_map supplying the SQL type, a mixin (attribute and
declared_attr), MappedAsDataclass (dataclass ``default=None`` + insert_default), and dataclass +
Annotated.  First the Table column must carry every declared generator, then the whole
supplied/omitted matrix below runs on it (ORM part through the declaring class).

Oracle: a small model of "supplied vs omitted".  Callable defaults hand out unique
tokens and log every call, the context-sensitive default derives its value from *the
current row's* payload (``get_current_parameters()``), so a stored value identifies
which default ran for which row; the call log makes "exactly once per row needing it
and never otherwise" observable.  The table is read back through an independent raw
sqlite3 connection.  ``inserted_primary_key``, ``returned_defaults``,
``last_inserted_params()``, RETURNING rows and ORM attributes after flush are compared
with the stored row.

Guards (documented behaviour encoded in the model):
 * ORM INSERT: an attribute left / set to None is *omitted* (default fires); Core None
   is stored as NULL.
 * Core UPDATE: Python-side onupdate runs once per *parameter set* (it is a bound
   value), so all rows matched by one parameter set share the value; the workload makes
   every parameter set match >= 1 row.
 * ORM UPDATE is only emitted for objects with a net change; an object left untouched
   keeps its values and must not consume a default.  Attributes are always assigned
   fresh values (assigning the current value is no change by design).
 * Core executemany with extra keys in later dicts is outside the API and not generated.
"""
from __future__ import annotations

META = {
    "id": "C13",
    "level": "exploration",
    "technique": "supplied/omitted model vs stored rows; token-issuing callable defaults with call log; row-derived context defaults",
    "level_text": "Seeded exploration of default-kind x onupdate-kind x supplied/omitted/None/falsy per column x single/executemany/multi-values x Core/ORM x RETURNING on real SQLite; every stored cell is compared with the model and every Python default invocation is accounted for.",
    "level_note": "SQLite only. Sequences / Identity / server_onupdate cannot execute here. UPDATE exactly-once is per parameter set (a Core onupdate is one bound value). insert().from_select() defaults are not covered.",
    "design_ref": "DESIGN.md section 4, C13",
    "rule": "case = (schema kinds, statement form, per-column supply states); non-trivial = >= 1 column omitted with a default and >= 1 column supplied on the same statement",
    "shards": {"quick": 8, "thorough": 16},
    "soft_s": {"quick": 50, "thorough": 800},
    "exhaustive": {"quick": False, "thorough": False},
    "require": ["cells_checked", "default_calls_accounted", "supplied_none_cells", "supplied_falsy_cells",
                "onupdate_fired_cells", "orm_cells_checked", "returned_values_checked",
                "declared_generators_checked"],
    "assumptions": ["model of documented supplied/omitted semantics (about 40 lines)"],
}

DEF_KINDS = ("none", "scalar", "scalar_falsy", "callable", "ctx", "sql", "server")
UPD_KINDS = ("none", "none", "scalar", "callable", "ctx", "sql")


class CallLog:
    def __init__(self):
        self.calls = []   # (tag, value)

    def mark(self):
        return len(self.calls)

    def since(self, m):
        return self.calls[m:]


# the ways the same table can be DECLARED
DECL_STYLES = ("table", "table", "to_metadata", "extend_existing", "column_copy", "mapped_column", "annotated",
               "annotated", "type_annotation_map", "mixin", "dataclass", "dataclass_annotated")


class Schema:
    def __init__(self, sa, rng, log, name, m, orm=None):
        self.sa = sa
        self.cls = None
        self.registry = None
        self.log = log
        self.name = name
        self.kinds = [(rng.choice(DEF_KINDS), rng.choice(UPD_KINDS)) for _ in range(m)]
        self.implicit_returning = rng.random() < 0.7
        self.counter = 0
        md = sa.MetaData()
        cols = [sa.Column("id", sa.Integer, primary_key=True), sa.Column("p", sa.String, unique=True),
                sa.Column("g", sa.Integer), sa.Column("mark", sa.String)]
        kws = []
        for j, (dk, uk) in enumerate(self.kinds):
            kw = {}
            kws.append(kw)
            if dk == "scalar":
                kw["default"] = f"sd{j}"
            elif dk == "scalar_falsy":
                kw["default"] = ""
            elif dk == "callable":
                kw["default"] = self._callable(f"ci{j}")
            elif dk == "ctx":
                kw["default"] = self._ctx(f"xi{j}", "p")
            elif dk == "sql":
                kw["default"] = sa.func.lower(sa.literal("SQI") + str(j))
            elif dk == "server":
                kw["server_default"] = f"srv{j}"
            if uk == "scalar":
                kw["onupdate"] = f"su{j}"
            elif uk == "callable":
                kw["onupdate"] = self._callable(f"cu{j}")
            elif uk == "ctx":
                kw["onupdate"] = self._ctx(f"xu{j}", "mark")
            elif uk == "sql":
                kw["onupdate"] = sa.func.lower(sa.literal("SQU") + str(j))
            cols.append(sa.Column(f"c{j}", sa.String, **kw))
        self.cnames = [f"c{j}" for j in range(m)]
        self.decl = rng.choice(DECL_STYLES) if orm is not None else "table"
        self.decl_detail = {}
        if self.decl == "table":
            self.md = md
            self.t = sa.Table(name, md, *cols, implicit_returning=self.implicit_returning)
        elif self.decl == "to_metadata":
            t0 = sa.Table(name, md, *cols, implicit_returning=self.implicit_returning)
            self.md = sa.MetaData()
            self.t = t0.to_metadata(self.md)
        elif self.decl == "extend_existing":
            self.md = md
            sa.Table(name, md, sa.Column("id", sa.Integer, primary_key=True), sa.Column("c0", sa.String))
            self.t = sa.Table(name, md, *cols, extend_existing=True, implicit_returning=self.implicit_returning)
        elif self.decl == "column_copy":
            self.md = md
            self.t = sa.Table(name, md, *[c._copy() for c in cols], implicit_returning=self.implicit_returning)
        else:
            self._declarative(sa, orm, rng, name, kws)
        # the Table column must carry every declared generator, of the declared kind
        self.declared = kws

    def _declarative(self, sa, orm, rng, name, kws):
        """the same columns through the ORM's declarative forms: mapped_column() directly, pep-593
        Annotated[...] types carrying some of the generators while the attribute's own
        mapped_column() carries the rest, a type_annotation_map supplying the SQL type, a mixin
        (plain attributes and declared_attr), dataclass mappings"""
        import types
        from typing import Annotated
        from typing import Optional

        Mapped, mc = orm.Mapped, orm.mapped_column
        dataclass = self.decl.startswith("dataclass")
        bases = (orm.MappedAsDataclass, orm.DeclarativeBase) if dataclass else (orm.DeclarativeBase,)
        base_ns = {}
        if self.decl == "type_annotation_map":
            base_ns["type_annotation_map"] = {str: sa.String(77)}
        Base = types.new_class("Base", bases, {}, lambda ns: ns.update(base_ns))
        ann = {"id": Mapped[int], "p": Mapped[Optional[str]], "g": Mapped[Optional[int]], "mark": Mapped[Optional[str]]}
        dflt = {"default": None} if dataclass else {}
        ns = {"__tablename__": name, "__table_args__": {"implicit_returning": self.implicit_returning},
              "id": mc(sa.Integer, primary_key=True, **({"init": False} if dataclass else {})),
              "p": mc(sa.String, unique=True, **dflt), "g": mc(sa.Integer, **dflt), "mark": mc(sa.String, **dflt)}
        mixin_ns, mixin_ann = {}, {}
        for j, kw in enumerate(kws):
            cn = f"c{j}"
            kw = dict(kw)
            # dataclass fields: ``default=`` is the dataclass-level default (and, for a plain scalar,
            # also the Column default); it is mutually exclusive with insert_default=, so a field
            # with an INSERT default generator is init=False, every other field defaults to None
            field = {}
            if dataclass:
                if isinstance(kw.get("default"), str) and rng.random() < 0.5:
                    pass                                   # scalar: dataclass default == Column default
                elif "default" in kw:
                    kw["insert_default"] = kw.pop("default")
                    field = {"init": False}
                else:
                    field = {"default": None}
            elif "default" in kw and rng.random() < 0.5:
                kw["insert_default"] = kw.pop("default")     # the two spellings of the INSERT default
            typ = () if self.decl == "type_annotation_map" else (sa.String,)
            if self.decl in ("annotated", "dataclass_annotated"):
                # each generator is declared in exactly one place: inside the Annotated type or on
                # the attribute's own right-hand mapped_column()
                inside = {k2: v for k2, v in kw.items() if rng.random() < 0.5}
                outside = {k2: v for k2, v in kw.items() if k2 not in inside}
                self.decl_detail[cn] = {"annotated": sorted(inside), "attribute": sorted(outside)}
                ann[cn] = Mapped[Annotated[Optional[str], mc(*typ, **inside)]]
                if dataclass and ("default" in inside or "insert_default" in inside):
                    field = {"init": False}                # (the INSERT default lives in the annotation)
                if outside or field or rng.random() < 0.5:
                    ns[cn] = mc(**outside, **field)
            elif self.decl == "mixin" and j % 2 == 0:
                if j % 4 == 0:
                    mixin_ann[cn] = Mapped[Optional[str]]
                    mixin_ns[cn] = mc(*typ, **kw)
                    self.decl_detail[cn] = "mixin attribute"
                else:
                    def attr(cls, typ=typ, kw=kw):
                        return mc(*typ, **kw)

                    attr.__annotations__ = {"return": Mapped[Optional[str]]}   # (module has postponed annotations)
                    mixin_ns[cn] = orm.declared_attr(attr)
                    self.decl_detail[cn] = "mixin declared_attr"
            else:
                ann[cn] = Mapped[Optional[str]]
                ns[cn] = mc(*typ, **kw, **field)
        ns["__annotations__"] = ann
        cls_bases = (Base,)
        if mixin_ns:
            mixin_ns["__annotations__"] = mixin_ann
            cls_bases = (type("Mix", (), mixin_ns), Base)
        kwds = {"kw_only": True} if dataclass else {}
        self.cls = types.new_class("D" + name, cls_bases, kwds, lambda n_: n_.update(ns))
        self.registry = Base.registry
        self.md = Base.metadata
        self.t = self.cls.__table__

    def declared_generators_missing(self):
        """[(column, what)] for declared generators the Table column does not carry"""
        out = []
        for cn, kw in zip(self.cnames, self.declared):
            col = self.t.c[cn]
            for key, attr in (("default", "default"), ("onupdate", "onupdate"), ("server_default", "server_default")):
                have = getattr(col, attr)
                if (key in kw) != (have is not None):
                    out.append((cn, f"{key} declared={key in kw} on table column={have is not None}"))
                elif key in kw and key != "server_default":
                    arg = kw[key]
                    if callable(arg) and not have.is_callable or isinstance(arg, str) and not have.is_scalar:
                        out.append((cn, f"{key} kind differs: {have!r}"))
        return out

    def _callable(self, tag):
        def fn():
            self.counter += 1
            v = f"{tag}-{self.counter}"
            self.log.calls.append((tag, v))
            return v

        fn.__name__ = tag
        return fn

    def _ctx(self, tag, key):
        def fn(context):
            params = context.get_current_parameters()
            v = f"{tag}:{params.get(key)}"
            self.log.calls.append((tag, v))
            return v

        fn.__name__ = tag
        return fn

    # ---- the model ----------------------------------------------------------------
    def insert_expect(self, j, row_payload):
        """expected stored value of c{j} when omitted on INSERT:
        ('eq', v) | ('tok', tag) | ('null',)"""
        dk = self.kinds[j][0]
        if dk == "none":
            return ("null",)
        if dk == "scalar":
            return ("eq", f"sd{j}")
        if dk == "scalar_falsy":
            return ("eq", "")
        if dk == "callable":
            return ("tok", f"ci{j}")
        if dk == "ctx":
            return ("eq", f"xi{j}:{row_payload}")
        if dk == "sql":
            return ("eq", f"sqi{j}")
        if dk == "server":
            return ("eq", f"srv{j}")
        raise AssertionError(dk)

    def update_expect(self, j, mark):
        uk = self.kinds[j][1]
        if uk == "none":
            return ("keep",)
        if uk == "scalar":
            return ("eq", f"su{j}")
        if uk == "callable":
            return ("tok", f"cu{j}")
        if uk == "ctx":
            return ("eq", f"xu{j}:{mark}")
        if uk == "sql":
            return ("eq", f"squ{j}")
        raise AssertionError(uk)


def read_rows(path, name, cnames):
    import sqlite3

    con = sqlite3.connect(path, timeout=2.0)
    try:
        cols = ["id", "p", "g", "mark"] + cnames
        rows = con.execute(f"SELECT {', '.join(cols)} FROM {name}").fetchall()
    finally:
        con.close()
    return {r[1]: dict(zip(cols, r)) for r in rows}


class Judge:
    def __init__(self, ctx, schema, desc):
        self.ctx = ctx
        self.s = schema
        self.desc = desc
        self.ok = True

    def bad(self, mech, msg):
        self.ok = False
        self.ctx.violation(mech, f"{msg} :: {self.desc}"[:900], self.desc)

    def cell(self, phase, payload, cname, expect, stored, new_calls, supplied_state, shared=None):
        """compare one stored cell with its expectation. new_calls: list of (tag, value)
        issued during the statement."""
        ctx = self.ctx
        ctx.count("cells_checked")
        kind = expect[0]
        if kind == "eq":
            if stored != expect[1]:
                if supplied_state is not None:
                    mech = f"{phase}-supplied-value-overridden" if supplied_state != "omitted" else f"{phase}-default-not-applied"
                else:
                    mech = f"{phase}-wrong-value"
                self.bad(mech, f"{cname} of {payload}: stored {stored!r} expected {expect[1]!r} (state {supplied_state})")
                return False
        elif kind == "null":
            if stored is not None:
                mech = f"{phase}-supplied-none-overridden" if supplied_state == "none" else f"{phase}-unexpected-value"
                self.bad(mech, f"{cname} of {payload}: stored {stored!r} expected NULL (state {supplied_state})")
                return False
        elif kind == "tok":
            tag = expect[1]
            issued = [v for t, v in new_calls if t == tag]
            if stored not in issued:
                self.bad(f"{phase}-default-not-applied", f"{cname} of {payload}: stored {stored!r} is not a token issued by "
                         f"{tag} during this statement ({issued[:6]})")
                return False
        return True


def supply_states(rng, schema, allow_expr):
    """per column: omitted | value | falsy | none | expr"""
    out = {}
    for cn in schema.cnames:
        r = rng.random()
        if r < 0.45:
            out[cn] = "omitted"
        elif r < 0.7:
            out[cn] = "value"
        elif r < 0.8:
            out[cn] = "falsy"
        elif r < 0.93 or not allow_expr:
            out[cn] = "none"
        else:
            out[cn] = "expr"
    return out


def supplied_value(sa, state, uniq):
    if state == "value":
        return f"v-{uniq}", f"v-{uniq}"
    if state == "falsy":
        return "", ""
    if state == "none":
        return None, None
    if state == "expr":
        return sa.func.upper("ex-" + uniq), ("EX-" + uniq).upper()
    raise AssertionError(state)


def run(ctx):
    import warnings

    import sqlalchemy as sa
    from sqlalchemy import orm

    from vf.mon.dbapi_spy import Spy
    from vf.mon.sqlite_shim_gd import PARAMSTYLES, spy_engine

    rng = ctx.rng
    nschemas = ctx.pick({"quick": 60, "thorough": 1800})
    spy = Spy()
    spy.enabled = False
    engines = {}
    paths = {}
    for ps in ("qmark", "named", "numeric"):
        paths[ps] = ctx.tmppath(f"-{ps}.db")
        engines[ps] = spy_engine(spy, paths[ps], ps)
    warnings.simplefilter("ignore")
    try:
        for k in range(nschemas):
            if not ctx.budget_ok():
                break
            ps = ("qmark", "named", "numeric")[k % 3]
            log = CallLog()
            schema = Schema(sa, rng, log, f"t{ctx.shard}_{k}", rng.randint(3, 6), orm)
            ctx.seen("declaration_style", schema.decl)
            ctx.count("declared_generators_checked", sum(len(kw) for kw in schema.declared))
            missing = schema.declared_generators_missing()
            if missing:
                ctx.violation("declared-generator-not-on-table-column",
                              f"declaration style {schema.decl} {schema.decl_detail}: {missing[:4]}",
                              {"decl": schema.decl, "detail": schema.decl_detail, "kinds": schema.kinds})
            eng = engines[ps]
            schema.md.create_all(eng)
            try:
                drive(ctx, sa, orm, rng, eng, paths[ps], schema, log, ps, k)
            finally:
                schema.md.drop_all(eng)
                if schema.registry is not None:
                    schema.registry.dispose()
    finally:
        for e in engines.values():
            e.dispose()


def drive(ctx, sa, orm, rng, eng, path, schema, log, ps, k):
    t = schema.t
    uniq = [0]

    def fresh(tag="r"):
        uniq[0] += 1
        return f"{tag}{ctx.shard}.{k}.{uniq[0]}"

    base_desc = {"kinds": schema.kinds, "implicit_returning": schema.implicit_returning, "ps": ps, "decl": schema.decl}
    if schema.decl_detail:
        base_desc["decl_detail"] = schema.decl_detail
    model = {}   # payload -> dict colname -> value  (expected table state)

    def judge_table(j, phase):
        """whole-table comparison: rows not touched by the statement must be unchanged"""
        stored = read_rows(path, schema.name, schema.cnames)
        if sorted(stored) != sorted(model):
            j.bad(f"{phase}-row-set", f"rows {sorted(stored)[:8]} expected {sorted(model)[:8]}")
            return None
        return stored

    # ------------------------------------------------------------------ Core INSERT
    n_ins = rng.randint(2, 4)
    for _ in range(n_ins):
        form = rng.choice(["single_params", "single_values", "many", "many", "multivalues"])
        ret = rng.choice(["none", "returning", "return_defaults"])
        states = supply_states(rng, schema, allow_expr=form == "single_values")
        nrows = 1 if form.startswith("single") else rng.randint(2, 6)
        rows = []
        for _i in range(nrows):
            payload = fresh("p")
            d = {"p": payload, "g": rng.randint(0, 2), "mark": fresh("m")}
            exp = {}
            for cn in schema.cnames:
                st = states[cn]
                if st == "omitted":
                    continue
                # per-row variation inside executemany: value / '' / None are all "supplied"
                st_row = st if form.startswith("single") or st == "expr" else rng.choice([st, st, "value", "none", "falsy"])
                v, ev = supplied_value(sa, st_row, fresh("u"))
                d[cn] = v
                exp[cn] = (st_row, ev)
            rows.append((payload, d, exp))
        desc = dict(base_desc, op="insert", form=form, ret=ret, states=states, nrows=nrows)
        J = Judge(ctx, schema, desc)
        stmt = sa.insert(t)
        if ret == "returning":
            stmt = stmt.returning(t)
        elif ret == "return_defaults":
            stmt = stmt.return_defaults()
        m0 = log.mark()
        returned = None
        res_info = {}
        try:
            with eng.begin() as c:
                if form == "single_params":
                    res = c.execute(stmt, rows[0][1])
                elif form == "single_values":
                    if rng.random() < 0.5:
                        res = c.execute(stmt.values(**rows[0][1]))
                    else:   # the same values keyed by Column objects
                        desc["keys"] = "columns"
                        res = c.execute(stmt.values({t.c[kk]: vv for kk, vv in rows[0][1].items()}))
                elif form == "many":
                    res = c.execute(stmt, [d for _, d, _ in rows])
                else:
                    res = c.execute(stmt.values([d for _, d, _ in rows]))
                if ret == "returning":
                    returned = [dict(r._mapping) for r in res.all()]
                if form.startswith("single"):
                    if ret != "returning":  # documented: not available together with returning()
                        res_info["ipk"] = tuple(res.inserted_primary_key)
                    if ret == "return_defaults":
                        rd = res.returned_defaults
                        res_info["rd"] = dict(rd._mapping) if rd is not None else None
                    if form == "single_params":
                        res_info["lip"] = dict(res.last_inserted_params())
                elif form == "many" and ret == "return_defaults" and schema.implicit_returning:
                    # (without RETURNING the per-row keys of an executemany are documented as unavailable)
                    res_info["ipk_rows"] = [tuple(r) for r in res.inserted_primary_key_rows]
        except Exception as e:
            J.bad(f"insert-raised-{type(e).__name__}", f"valid INSERT raised {e!r}")
            ctx.case(desc, nontrivial=False)
            return
        new_calls = log.since(m0)
        for payload, d, exp in rows:
            model[payload] = None
        stored = judge_table(J, "insert")
        if stored is None:
            return
        n_default_cols = 0
        for payload, d, exp in rows:
            srow = stored[payload]
            for jx, cn in enumerate(schema.cnames):
                if cn in exp:
                    st_row, ev = exp[cn]
                    e = ("null",) if ev is None else ("eq", ev)
                    if st_row == "none":
                        ctx.count("supplied_none_cells")
                    elif st_row == "falsy":
                        ctx.count("supplied_falsy_cells")
                    J.cell("insert", payload, cn, e, srow[cn], new_calls, st_row)
                else:
                    e = schema.insert_expect(jx, payload)
                    if e[0] != "null":
                        n_default_cols += 1
                    J.cell("insert", payload, cn, e, srow[cn], new_calls, "omitted")
            model[payload] = dict(srow)
        # exactly once: every call issued during the statement is stored in exactly one cell
        account_calls(ctx, J, "insert", schema, new_calls, rows, stored, states, per_row=True)
        # returned things == stored
        if returned is not None:
            if sorted(r["p"] for r in returned) != sorted(p for p, _, _ in rows):
                J.bad("insert-returning-rows", f"RETURNING rows {[r['p'] for r in returned]}")
            else:
                for r in returned:
                    ctx.count("returned_values_checked")
                    if any(stored[r["p"]][cn] != r[cn] for cn in ["id"] + schema.cnames):
                        J.bad("insert-returning-not-stored", f"RETURNING row {r} but stored {stored[r['p']]}")
                        break
        if "ipk" in res_info:
            ctx.count("returned_values_checked")
            if res_info["ipk"] != (stored[rows[0][0]]["id"],):
                J.bad("inserted-primary-key-not-stored", f"inserted_primary_key {res_info['ipk']} stored id "
                      f"{stored[rows[0][0]]['id']}")
        if res_info.get("rd"):
            srow = stored[rows[0][0]]
            for cn, v in res_info["rd"].items():
                ctx.count("returned_values_checked")
                if cn in srow and srow[cn] != v:
                    J.bad("returned-defaults-not-stored", f"returned_defaults {cn}={v!r} stored {srow[cn]!r}")
                    break
        if "lip" in res_info:
            srow = stored[rows[0][0]]
            for cn, v in res_info["lip"].items():
                if cn in srow and schema_is_python_side(schema, cn, states):
                    ctx.count("returned_values_checked")
                    if srow[cn] != v:
                        J.bad("last-inserted-params-not-stored", f"last_inserted_params {cn}={v!r} stored {srow[cn]!r}")
                        break
        if "ipk_rows" in res_info:
            ctx.count("returned_values_checked")
            if sorted(res_info["ipk_rows"]) != sorted((stored[p]["id"],) for p, _, _ in rows):
                J.bad("inserted-primary-key-rows-not-stored", f"{res_info['ipk_rows']}")
        nsup = sum(1 for s in states.values() if s != "omitted")
        ctx.seen("insert_form_ret", f"{form}/{ret}")
        ctx.case(desc, nontrivial=n_default_cols > 0 and nsup > 0)
        if k % 40 == 3 and J.ok:
            ctx.sample({"desc": desc, "stored": stored[rows[0][0]]})

    # ------------------------------------------------------------------ negative: ragged executemany
    if rng.random() < 0.4 and schema.cnames:
        cn = rng.choice(schema.cnames)
        p1, p2 = fresh("p"), fresh("p")
        d1 = {"p": p1, "g": 0, "mark": "m", cn: "v-ragged"}
        d2 = {"p": p2, "g": 0, "mark": "m"}
        desc = dict(base_desc, op="insert-ragged", col=cn)
        J = Judge(ctx, schema, desc)
        m0 = log.mark()
        raised = False
        try:
            with eng.begin() as c:
                c.execute(sa.insert(t), [d1, d2])
        except sa.exc.StatementError:
            raised = True
        ctx.count("ragged_executemany_raised" if raised else "ragged_executemany_accepted")
        stored = read_rows(path, schema.name, schema.cnames)
        if raised:
            if p1 in stored or p2 in stored:
                J.bad("ragged-executemany-partial-insert", "raised but rows were stored")
        else:
            jx = schema.cnames.index(cn)
            J.cell("insert", p1, cn, ("eq", "v-ragged"), stored[p1][cn], log.since(m0), "value")
            J.cell("insert", p2, cn, schema.insert_expect(jx, p2), stored[p2][cn], log.since(m0), "omitted")
            model[p1], model[p2] = dict(stored[p1]), dict(stored[p2])
        ctx.case(desc, nontrivial=True)

    # ------------------------------------------------------------------ Core UPDATE
    for _ in range(rng.randint(1, 3)):
        if len(model) < 2:
            break
        form = rng.choice(["single_row", "single_group", "many"])
        ret = rng.choice(["none", "return_defaults", "returning"]) if form != "many" else "none"
        states = supply_states(rng, schema, allow_expr=form != "many")
        desc = dict(base_desc, op="update", form=form, ret=ret, states=states)
        J = Judge(ctx, schema, desc)
        payloads = sorted(model)
        psets = []   # (mark, matched payloads, dict of supplied, exp)
        if form == "single_row":
            targets = [[rng.choice(payloads)]]
        elif form == "single_group":
            g = model[rng.choice(payloads)]["g"]
            targets = [[p for p in payloads if model[p]["g"] == g]]
        else:
            chosen = rng.sample(payloads, min(len(payloads), rng.randint(2, 5)))
            targets = [[p] for p in chosen]
        for tg in targets:
            mark = fresh("m")
            d = {"mark": mark}
            exp = {}
            for cn in schema.cnames:
                st = states[cn]
                if st == "omitted":
                    continue
                st_row = st if form != "many" else rng.choice([st, "value", "none", "falsy"])
                v, ev = supplied_value(sa, st_row, fresh("u"))
                d[cn] = v
                exp[cn] = (st_row, ev)
            psets.append((mark, tg, d, exp))
        m0 = log.mark()
        res_info = {}
        returned = None
        try:
            with eng.begin() as c:
                if form == "single_row":
                    stmt = sa.update(t).where(t.c.p == targets[0][0])
                elif form == "single_group":
                    stmt = sa.update(t).where(t.c.g == model[targets[0][0]]["g"])
                else:
                    stmt = sa.update(t).where(t.c.p == sa.bindparam("b_p"))
                if ret == "return_defaults":
                    stmt = stmt.return_defaults()
                elif ret == "returning":
                    stmt = stmt.returning(t)
                if form == "many":
                    c.execute(stmt, [dict(d, b_p=tg[0]) for _, tg, d, _ in psets])
                else:
                    # how the SET values are handed over: values(**kw), values({Column: v}),
                    # ordered_values() with string keys / Column keys (shuffled order), or as
                    # execute() parameters
                    hows = ["values_kw", "values_columns", "ordered_names", "ordered_columns"]
                    if not any(st == "expr" for st, _ in psets[0][3].values()):
                        hows.append("params")
                    how = desc["how"] = rng.choice(hows)
                    items = list(psets[0][2].items())
                    rng.shuffle(items)
                    if how == "values_kw":
                        res = c.execute(stmt.values(**psets[0][2]))
                    elif how == "values_columns":
                        res = c.execute(stmt.values({t.c[kk]: vv for kk, vv in items}))
                    elif how == "ordered_names":
                        res = c.execute(stmt.ordered_values(*items))
                    elif how == "ordered_columns":
                        res = c.execute(stmt.ordered_values(*[(t.c[kk], vv) for kk, vv in items]))
                    else:
                        res = c.execute(stmt, psets[0][2])
                    ctx.seen("update_values_how", how)
                    if ret == "return_defaults" and form == "single_row":
                        rd = res.returned_defaults
                        res_info["rd"] = dict(rd._mapping) if rd is not None else None
                    if ret == "returning":
                        returned = [dict(r._mapping) for r in res.all()]
        except Exception as e:
            J.bad(f"update-raised-{type(e).__name__}", f"valid UPDATE raised {e!r}")
            ctx.case(desc, nontrivial=False)
            return
        new_calls = log.since(m0)
        stored = judge_table(J, "update")
        if stored is None:
            return
        touched = set()
        fired = 0
        for mark, tg, d, exp in psets:
            shared = {}
            for p in tg:
                touched.add(p)
                srow = stored[p]
                if srow["mark"] != mark:
                    J.bad("update-wrong-value", f"mark of {p} is {srow['mark']!r} expected {mark!r}")
                for jx, cn in enumerate(schema.cnames):
                    if cn in exp:
                        st_row, ev = exp[cn]
                        if st_row == "none":
                            ctx.count("supplied_none_cells")
                        elif st_row == "falsy":
                            ctx.count("supplied_falsy_cells")
                        J.cell("update", p, cn, ("null",) if ev is None else ("eq", ev), srow[cn], new_calls, st_row)
                    else:
                        e = schema.update_expect(jx, mark)
                        if e[0] == "keep":
                            e = ("null",) if model[p][cn] is None else ("eq", model[p][cn])
                            J.cell("update", p, cn, e, srow[cn], new_calls, None)
                        else:
                            fired += 1
                            ctx.count("onupdate_fired_cells")
                            if J.cell("update", p, cn, e, srow[cn], new_calls, "omitted") and e[0] == "tok":
                                # one bound value per parameter set: all matched rows share it
                                if shared.setdefault(cn, srow[cn]) != srow[cn]:
                                    J.bad("update-onupdate-differs-within-parameter-set", f"{cn}: {shared[cn]!r} vs {srow[cn]!r}")
        for p in model:
            if p not in touched and stored[p] != model[p]:
                J.bad("update-touched-unmatched-row", f"row {p} changed: {model[p]} -> {stored[p]}")
                break
        account_calls(ctx, J, "update", schema, new_calls, [(None, d, exp) for _, _, d, exp in psets], stored, states,
                      per_row=False, psets=psets)
        if res_info.get("rd"):
            srow = stored[targets[0][0]]
            for cn, v in res_info["rd"].items():
                ctx.count("returned_values_checked")
                if cn in srow and srow[cn] != v:
                    J.bad("returned-defaults-not-stored", f"UPDATE returned_defaults {cn}={v!r} stored {srow[cn]!r}")
                    break
        if returned is not None:
            for r in returned:
                ctx.count("returned_values_checked")
                if r["p"] not in stored or any(stored[r["p"]][cn] != r[cn] for cn in schema.cnames):
                    J.bad("update-returning-not-stored", f"RETURNING {r} stored {stored.get(r['p'])}")
                    break
        for p in stored:
            model[p] = dict(stored[p])
        nsup = sum(1 for s in states.values() if s != "omitted")
        ctx.seen("update_form_ret", f"{form}/{ret}")
        ctx.case(desc, nontrivial=fired > 0 and nsup > 0)

    # ------------------------------------------------------------------ ORM
    orm_part(ctx, sa, orm, rng, eng, path, schema, log, base_desc, model, fresh)


def schema_is_python_side(schema, cn, states):
    if states.get(cn) != "omitted":
        return True
    dk = schema.kinds[schema.cnames.index(cn)][0]
    return dk in ("scalar", "scalar_falsy", "callable", "ctx")


def account_calls(ctx, J, phase, schema, new_calls, rows, stored, states, per_row, psets=None):
    """every Python default call issued during the statement is needed: the number of calls
    per tag equals the number of rows (INSERT) / parameter sets (UPDATE) that omitted the
    column, and no default of a supplied column ran."""
    kind_ix = 0 if phase == "insert" else 1
    units = len(rows)
    by_tag = {}
    for tag, v in new_calls:
        by_tag.setdefault(tag, []).append(v)
    for jx, cn in enumerate(schema.cnames):
        kd = schema.kinds[jx][kind_ix]
        if kd not in ("callable", "ctx"):
            continue
        tag = {"callable": "ci", "ctx": "xi"}[kd] + str(jx) if phase == "insert" else {"callable": "cu", "ctx": "xu"}[kd] + str(jx)
        got = len(by_tag.get(tag, []))
        want = units if states[cn] == "omitted" else 0
        ctx.count("default_calls_accounted", max(got, want))
        if got != want:
            if want == 0:
                mech = f"{phase}-default-called-for-supplied-column"
            elif got > want:
                mech = f"{phase}-default-called-more-than-once-per-row"
            else:
                mech = f"{phase}-default-called-less-than-once-per-row"
            J.bad(mech, f"{tag} called {got}x, {want} needed ({units} {'rows' if per_row else 'parameter sets'}, "
                  f"state {states[cn]})")
    # the other phase's defaults must not run at all
    other = ("cu", "xu") if phase == "insert" else ("ci", "xi")
    stray = [t for t, _ in new_calls if t[:2] in other]
    if stray:
        J.bad(f"{phase}-ran-wrong-phase-default", f"calls {stray[:5]}")


def orm_part(ctx, sa, orm, rng, eng, path, schema, log, base_desc, model, fresh):
    t = schema.t
    reg = orm.registry()
    if schema.cls is not None:
        cls = schema.cls         # declarative styles: the class that declared the table
    else:
        cls = type("M", (object,), {})
        reg.map_imperatively(cls, t)
    try:
        nobj = rng.randint(2, 6)
        specs = []
        for _ in range(nobj):
            payload = fresh("p")
            st = {}
            for cn in schema.cnames:
                st[cn] = rng.choice(["unset", "unset", "value", "none", "falsy"])
            specs.append((payload, st))
        desc = dict(base_desc, op="orm-insert", states=[s for _, s in specs])
        J = Judge(ctx, schema, desc)
        m0 = log.mark()
        seen_attrs = []
        try:
            with orm.Session(eng) as s:
                objs = []
                for payload, st in specs:
                    o = cls()
                    o.p, o.g, o.mark = payload, rng.randint(0, 2), fresh("m")
                    o._exp = {}
                    for cn in schema.cnames:
                        if st[cn] == "unset":
                            continue
                        v, ev = supplied_value(sa, st[cn], fresh("u"))
                        setattr(o, cn, v)
                        o._exp[cn] = ev
                    objs.append(o)
                s.add_all(objs)
                s.flush()
                new_calls = log.since(m0)
                for o in objs:
                    seen_attrs.append({cn: getattr(o, cn) for cn in ["id"] + schema.cnames})
                s.commit()
                # ---- ORM update within the same session
                stored = read_rows(path, schema.name, schema.cnames)
                for (payload, st), o, attrs in zip(specs, objs, seen_attrs):
                    model[payload] = None
                if sorted(stored) != sorted(model):
                    J.bad("orm-insert-row-set", f"rows {sorted(stored)[:8]}")
                    return
                omitted_by_col = {cn: 0 for cn in schema.cnames}
                for (payload, st), o, attrs in zip(specs, objs, seen_attrs):
                    srow = stored[payload]
                    for jx, cn in enumerate(schema.cnames):
                        ctx.count("orm_cells_checked")
                        if st[cn] in ("unset", "none"):
                            # documented: ORM omits None on INSERT -> the default fires
                            omitted_by_col[cn] += 1
                            e = schema.insert_expect(jx, payload)
                            J.cell("orm-insert", payload, cn, e, srow[cn], new_calls, "omitted")
                        else:
                            if st[cn] == "falsy":
                                ctx.count("supplied_falsy_cells")
                            J.cell("orm-insert", payload, cn, ("eq", o._exp[cn]), srow[cn], new_calls, st[cn])
                        if attrs[cn] != srow[cn]:
                            J.bad("orm-attribute-not-stored", f"{cn} of {payload}: attribute {attrs[cn]!r} stored {srow[cn]!r}")
                    if attrs["id"] != srow["id"]:
                        J.bad("orm-attribute-not-stored", f"id of {payload}: attribute {attrs['id']!r} stored {srow['id']!r}")
                    model[payload] = dict(srow)
                orm_account(ctx, J, "insert", schema, new_calls, omitted_by_col)
                ctx.case(desc, nontrivial=True)

                # ---------------- ORM UPDATE
                desc2 = dict(base_desc, op="orm-update")
                J2 = Judge(ctx, schema, desc2)
                plan = []
                m1 = log.mark()
                for (payload, st), o in zip(specs, objs):
                    if rng.random() < 0.3:
                        plan.append((payload, None, None))
                        continue
                    mark = fresh("m")
                    o.mark = mark
                    sup = {}
                    for cn in schema.cnames:
                        r = rng.random()
                        if r < 0.3:
                            v = f"v-{fresh('u')}"
                            setattr(o, cn, v)
                            sup[cn] = v
                        elif r < 0.4 and model[payload][cn] is not None:
                            setattr(o, cn, None)
                            sup[cn] = None
                    plan.append((payload, mark, sup))
                desc2["plan"] = [(p, None if s is None else sorted(s)) for p, _, s in plan]
                s.flush()
                calls2 = log.since(m1)
                attrs2 = [{cn: getattr(o, cn) for cn in schema.cnames} for o in objs]
                s.commit()
                stored2 = read_rows(path, schema.name, schema.cnames)
                need = {cn: 0 for cn in schema.cnames}
                for (payload, mark, sup), a2 in zip(plan, attrs2):
                    srow = stored2[payload]
                    if mark is None:
                        if srow != model[payload]:
                            J2.bad("orm-update-touched-clean-object", f"{payload}: {model[payload]} -> {srow}")
                        continue
                    for jx, cn in enumerate(schema.cnames):
                        ctx.count("orm_cells_checked")
                        if cn in sup:
                            if sup[cn] is None:
                                ctx.count("supplied_none_cells")
                            J2.cell("orm-update", payload, cn, ("null",) if sup[cn] is None else ("eq", sup[cn]), srow[cn],
                                    calls2, "none" if sup[cn] is None else "value")
                        else:
                            e = schema.update_expect(jx, mark)
                            if e[0] == "keep":
                                e = ("null",) if model[payload][cn] is None else ("eq", model[payload][cn])
                                J2.cell("orm-update", payload, cn, e, srow[cn], calls2, None)
                            else:
                                need[cn] += 1
                                ctx.count("onupdate_fired_cells")
                                J2.cell("orm-update", payload, cn, e, srow[cn], calls2, "omitted")
                        if a2[cn] != srow[cn]:
                            others = {stored2[p][cn] for p, mk, _ in plan if mk is not None and p != payload}
                            if a2[cn] in others and cn not in sup and schema.kinds[jx][1] in ("callable", "ctx"):
                                # the object carries the onupdate value generated for another row (the
                                # first one) of its executemany batch
                                mech = "orm-batched-update-onupdate-attribute-from-first-row"
                            else:
                                mech = "orm-attribute-not-stored"
                            J2.bad(mech, f"after update {cn} of {payload}: attribute {a2[cn]!r} stored {srow[cn]!r}")
                    model[payload] = dict(srow)
                orm_account(ctx, J2, "update", schema, calls2, need)
                ctx.case(desc2, nontrivial=any(m is not None for _, m, _ in plan))
        except sa.exc.SQLAlchemyError as e:
            J.bad(f"orm-raised-{type(e).__name__}", f"valid ORM flush raised {e!r}")
    finally:
        reg.dispose()


def orm_account(ctx, J, phase, schema, calls, need_by_col):
    kind_ix = 0 if phase == "insert" else 1
    by_tag = {}
    for tag, v in calls:
        by_tag[tag] = by_tag.get(tag, 0) + 1
    for jx, cn in enumerate(schema.cnames):
        kd = schema.kinds[jx][kind_ix]
        if kd not in ("callable", "ctx"):
            continue
        pre = {"insert": {"callable": "ci", "ctx": "xi"}, "update": {"callable": "cu", "ctx": "xu"}}[phase][kd]
        tag = pre + str(jx)
        got, want = by_tag.get(tag, 0), need_by_col[cn]
        ctx.count("default_calls_accounted", max(got, want))
        if got != want:
            mech = (f"orm-{phase}-default-called-more-than-needed" if got > want
                    else f"orm-{phase}-default-called-less-than-needed")
            J.bad(mech, f"{tag} called {got}x, {want} rows needed it")
    other = ("cu", "xu") if phase == "insert" else ("ci", "xi")
    stray = [t for t in by_tag if t[:2] in other]
    if stray:
        J.bad(f"orm-{phase}-ran-wrong-phase-default", f"calls {stray[:5]}")
