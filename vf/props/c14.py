"""C14 -- DDL is emitted in dependency order for any foreign-key graph.

Three monitors judge every ``create_all`` / ``drop_all`` the workload runs:

1. SQLite execution (``PRAGMA foreign_keys=ON``): no error, ``sqlite_master`` +
   ``PRAGMA foreign_key_list`` (read through the raw connection) hold exactly the
   defined tables / indexes / foreign keys afterwards, nothing is left after
   ``drop_all``.  For acyclic graphs without ``use_alter`` one row per table is
   inserted first (parents first, by the harness' own order) so that SQLite's immediate
   foreign-key enforcement really rejects a parent-before-child DROP.
2. Strict-catalog trace monitor (``vf.models.catalog_ge``): the same metadata is sent
   through the postgresql, mysql, mssql and oracle dialects on a recording fake DBAPI;
   every recorded DDL statement is applied, in order, to a model of a backend that
   rejects REFERENCES to a missing table and DROP of a table that is still referenced;
   ``has_table`` / ``has_index`` for ``checkfirst`` are answered from the model.  The
   final catalog must hold exactly the defined objects (every foreign key either inline
   or added by ALTER) and be empty after ``drop_all``.
3. ``MetaData.sorted_tables`` is compared with the dependency edges directly, and a
   wrapper around the ``topological.sort`` the DDL sorter calls checks and counts its
   results while the workload runs.

Guards:
  * a cycle made of *unnamed* constraints only cannot be dropped on ALTER dialects
    (documented CircularDependencyError): the "mixed" variant names constraints at random
    but keeps the unnamed ones acyclic (partly named cycles, named cycle + unnamed FK to an
    outside table, unnamed self reference); "unnamed" is used for acyclic graphs only.
  * ``use_alter`` edges are, as documented, not dependencies for sorting; sorted_tables is
    judged only on edges whose two tables are on no cycle (cycle => documented warning
    and "foreign keys of these tables are omitted").
  * partial create/drop (``tables=``) uses subsets closed under the foreign keys
    (referenced tables included for create, referencing tables included for drop);
    anything else is a user error on a strict backend.
  * rows are inserted on SQLite only when no ``use_alter`` edge exists (SQLite has no
    ALTER, the flag then only removes the edge from the sort, as documented).
  * no enforcing server is executed: the strict catalog is a model, SQLite is the only
    real execution.
"""
from __future__ import annotations

import itertools
import warnings

META = {
    "id": "C14",
    "level": "exploration",
    "technique": "SQLite execution with FK enforcement + strict-catalog trace monitor over the DDL stream of 4 ALTER-capable dialects on a recording DBAPI + direct sorted_tables oracle",
    "level_text": "Exhaustive over all FK digraphs (self references included) on <=3 tables x 6 naming/use_alter variants (incl. per-constraint mixed naming), each on SQLite and on the postgresql/mysql/mssql/oracle DDL streams, plus seeded random graphs on 4-7 tables (multi-column keys, parallel edges, indexes, explicit dependencies), with checkfirst off/on and closed pre-existing subsets.",
    "level_note": "PostgreSQL/MySQL/MSSQL/Oracle are not executed: their DDL stream is replayed against a 150-line strict catalog model whose rules (dangling REFERENCES rejected, DROP of a referenced table rejected) are a transcription of those backends' documented behaviour; has_table/has_index are answered from the model, so the dialects' own catalog queries are not exercised.",
    "design_ref": "DESIGN.md section 4, C14",
    "rule": "case = (graph, variant, plan, backend); non-trivial = graph has >=2 foreign keys or a cycle; distinct by the graph spec + variant + plan",
    "shards": {"quick": 8, "thorough": 16},
    "modes": ["cext"],
    "soft_s": {"quick": 90, "thorough": 800},
    "exhaustive": {"quick": True, "thorough": True},
    "require": [
        "sqlite_create_drop_cycles", "sqlite_rows_enforced_drops", "strict_statements_applied",
        "strict_alter_add_fk", "strict_alter_drop_fk", "strict_final_states_checked",
        "sorted_tables_checks", "ddl_toposort_calls_checked", "cyclic_graphs", "acyclic_graphs",
        "checkfirst_partial_plans", "exhaustive_le3_done",
    ],
    "assumptions": [
        "strict catalog model rules match PostgreSQL/InnoDB/SQL Server/Oracle for CREATE TABLE / ALTER ADD|DROP FOREIGN KEY / DROP TABLE",
        "SQLite immediate FK enforcement (foreign_keys=ON) rejects dropping a parent table whose child rows exist",
    ],
}

FAKE_URLS = [
    ("postgresql", "postgresql+psycopg2://u:p@h/db"),
    ("mysql", "mysql+pymysql://u:p@h/db"),
    ("mssql", "mssql+pyodbc://u:p@dsn"),
    ("oracle", "oracle+oracledb://u:p@h/?service_name=x"),
]


# --------------------------------------------------------------------------
# graph specs
# --------------------------------------------------------------------------
def closure(n, edges):
    reach = [[False] * n for _ in range(n)]
    for a, b in edges:
        reach[a][b] = True
    for k in range(n):
        for i in range(n):
            if reach[i][k]:
                for j in range(n):
                    if reach[k][j]:
                        reach[i][j] = True
    return reach


def on_cycle(n, edges):
    """nodes on a cycle of length >= 2 (self references are not ordering cycles)."""
    reach = closure(n, [(a, b) for a, b in edges if a != b])
    return {i for i in range(n) if reach[i][i]}


def make_spec(n, pairs, variant, rng, wide_mask=0, parallel=()):
    """pairs: list of (child, parent).  variant: named | alter-cycles | alter-random |
    convention | unnamed."""
    cyc = on_cycle(n, pairs)
    edges = []
    for k, (c, p) in enumerate(list(pairs) + list(parallel)):
        in_cycle = c != p and c in cyc and p in cyc and closure(n, [(a, b) for a, b in pairs if a != b])[p][c]
        ua = False
        if variant == "alter-cycles":
            ua = in_cycle
        elif variant == "alter-random":
            ua = rng.random() < 0.4
        named = variant in ("named", "alter-cycles", "alter-random")
        if variant == "mixed":
            named = rng.random() < 0.5
        edges.append({"child": c, "parent": p, "use_alter": ua, "named": named, "k": k})
    if variant == "mixed":
        # per-constraint naming.  Droppable (documented: "ensure the constraints involved in
        # the cycle have names") as long as the *unnamed* constraints alone form no cycle:
        # name further edges until that holds.  Unnamed self references, unnamed edges to
        # tables outside a cycle and partly named cycles all stay in.
        while True:
            un = [(e["child"], e["parent"]) for e in edges if not e["named"] and e["child"] != e["parent"]]
            bad = on_cycle(n, un)
            if not bad:
                break
            cand = [e for e in edges if not e["named"] and e["child"] != e["parent"] and e["child"] in bad and e["parent"] in bad]
            rng.choice(cand)["named"] = True
    return {
        "n": n,
        "wide": [bool(wide_mask >> i & 1) for i in range(n)],
        "edges": edges,
        "convention": variant == "convention",
        "variant": variant,
        "indexes": [],
        "extra": [],
    }


def build(sa, spec):
    conv = {"fk": "fk_%(table_name)s_%(column_0_name)s", "ix": "ix_%(table_name)s_%(column_0_name)s"} if spec["convention"] else None
    md = sa.MetaData(naming_convention=conv) if conv else sa.MetaData()
    n = spec["n"]
    cols = {i: [] for i in range(n)}
    cons = {i: [] for i in range(n)}
    exp_fks = set()
    for e in spec["edges"]:
        c, p, k = e["child"], e["parent"], e["k"]
        lc = [f"f{k}_a"] + ([f"f{k}_b"] if spec["wide"][p] else [])
        rc = ["id"] + (["id2"] if spec["wide"][p] else [])
        for x in lc:
            cols[c].append(sa.Column(x, sa.Integer))
        kw = {}
        if e["named"]:
            kw["name"] = f"fk_t{c}_t{p}_{k}"
        if e["use_alter"]:
            kw["use_alter"] = True
        cons[c].append(sa.ForeignKeyConstraint(lc, [f"t{p}.{x}" for x in rc], **kw))
        exp_fks.add((f"t{c}", tuple(lc), f"t{p}", tuple(rc)))
    tables = []
    for i in range(n):
        base = [sa.Column("id", sa.Integer, primary_key=True, autoincrement=False)]
        if spec["wide"][i]:
            base.append(sa.Column("id2", sa.Integer, primary_key=True, autoincrement=False))
        base.append(sa.Column("v", sa.String(20)))
        tables.append(sa.Table(f"t{i}", md, *base, *cols[i], *cons[i]))
    exp_idx = set()
    for (ti, name, icols) in spec["indexes"]:
        sa.Index(name, *[tables[ti].c[x] for x in icols])
        exp_idx.add((f"t{ti}", name))
    for a, b in spec["extra"]:
        tables[a].add_is_dependent_on(tables[b])
    return md, tables, exp_fks, exp_idx


def closed_down(spec, seed_nodes):
    """smallest superset closed under 'references' (all FK edges)."""
    s = set(seed_nodes)
    changed = True
    while changed:
        changed = False
        for e in spec["edges"]:
            if e["child"] in s and e["parent"] not in s:
                s.add(e["parent"])
                changed = True
    return s


def closed_up(spec, seed_nodes):
    s = set(seed_nodes)
    changed = True
    while changed:
        changed = False
        for e in spec["edges"]:
            if e["parent"] in s and e["child"] not in s:
                s.add(e["child"])
                changed = True
    return s


# --------------------------------------------------------------------------
# backends
# --------------------------------------------------------------------------
class FakeBackend:
    """One ALTER-capable dialect on the recording DBAPI + the strict catalog."""

    def __init__(self, fam, url):
        from vf.mon import fake_dbapi

        self.fam = fam
        self.eng, self.fake = fake_dbapi.recording_engine(url)
        self.model = None
        self.rejected = None
        self.unparsed = []
        self.kinds = []
        d = self.eng.dialect
        d.has_table = lambda conn, name, schema=None, **kw: self.model.has_table(name)
        d.has_multi_table = lambda conn, names, schema=None, **kw: [((schema, nm), self.model.has_table(nm)) for nm in names]
        d.has_index = lambda conn, table, index, schema=None, **kw: self.model.has_index(table, index)
        d.has_sequence = lambda conn, name, schema=None, **kw: False
        self.fake.fault = self._observe

    def reset(self):
        from vf.models import catalog_ge

        self.model = catalog_ge.StrictCatalog()
        self.rejected = None
        self.unparsed = []
        self.kinds = []
        self.fake.clear()

    def _observe(self, ev):
        from vf.models import catalog_ge

        if ev.kind not in ("execute", "executemany"):
            return None
        try:
            self.kinds.append(self.model.apply(ev.sql))
        except catalog_ge.Rejected as r:
            if self.rejected is None:
                self.rejected = (r.reason, str(r), " ".join(ev.sql.split()))
        except catalog_ge.Unparsed as u:
            self.unparsed.append(" ".join(str(u).split())[:200])
        return None

    def state(self):
        return set(self.model.tables), self.model.fk_set(), self.model.index_set()

    def dispose(self):
        self.eng.dispose()


class SqliteBackend:
    fam = "sqlite"

    def __init__(self, sa):
        self.sa = sa
        self.eng = None
        self.conn = None

    def reset(self):
        sa = self.sa
        if self.conn is not None:
            self.conn.close()
            self.eng.dispose()
        self.eng = sa.create_engine("sqlite://")
        self.conn = self.eng.connect()
        self.conn.exec_driver_sql("PRAGMA foreign_keys=ON")
        self.conn.commit()
        self.raw = self.conn.connection.dbapi_connection

    def state(self):
        raw = self.raw
        tabs = {r[0] for r in raw.execute("SELECT name FROM sqlite_master WHERE type='table'")}
        idx = {(r[1], r[0]) for r in raw.execute("SELECT name, tbl_name FROM sqlite_master WHERE type='index' AND name NOT LIKE 'sqlite_autoindex%'")}
        fks = set()
        for t in tabs:
            groups = {}
            for r in raw.execute(f"PRAGMA foreign_key_list({t})"):
                groups.setdefault(r[0], []).append((r[1], r[2], r[3], r[4]))
            for g in groups.values():
                g.sort()
                fks.add((t, tuple(x[2] for x in g), g[0][1], tuple(x[3] for x in g)))
        return tabs, fks, idx

    def dispose(self):
        if self.conn is not None:
            self.conn.close()
            self.eng.dispose()
            self.conn = None


# --------------------------------------------------------------------------
# one case
# --------------------------------------------------------------------------
def run_case(ctx, sa, backends, spec, plan, rng, label):
    n = spec["n"]
    pairs = [(e["child"], e["parent"]) for e in spec["edges"]]
    cyc = on_cycle(n, pairs)
    ctx.count("cyclic_graphs" if cyc else "acyclic_graphs")
    any_alter = any(e["use_alter"] for e in spec["edges"])
    parallel_mixed = any(
        a["child"] == b["child"] and a["parent"] == b["parent"] and a["child"] != a["parent"]
        and a["child"] in cyc and not a["named"] and not a["use_alter"] and b["named"]
        for a in spec["edges"] for b in spec["edges"])
    desc = {"spec": {k: spec[k] for k in ("n", "wide", "edges", "convention", "indexes", "extra")}, "plan": plan, "label": label}

    # ---- (3) sorted_tables
    md, tables, exp_fks, exp_idx = build(sa, spec)
    with warnings.catch_warnings():
        warnings.simplefilter("ignore")
        order = [t.name for t in md.sorted_tables]
    ctx.count("sorted_tables_checks")
    if sorted(order) != sorted(t.name for t in tables):
        ctx.violation("sorted-tables-not-a-permutation", f"sorted_tables={order}", desc)
    else:
        pos = {nm: i for i, nm in enumerate(order)}
        deps = {(e["parent"], e["child"]) for e in spec["edges"] if not e["use_alter"] and e["child"] != e["parent"]}
        deps |= {(b, a) for a, b in spec["extra"]}
        dep_cyc = on_cycle(n, [(c, p) for p, c in deps])
        for p, c in sorted(deps):
            if p in dep_cyc or c in dep_cyc:
                continue
            if pos[f"t{p}"] > pos[f"t{c}"]:
                ctx.violation("sorted-tables-referencing-before-referenced",
                              f"sorted_tables={order}: t{c} depends on t{p} but comes first", desc)
                break

    exp_tabs = {t.name for t in tables}
    if ctx.quick and len(backends) > 3:
        # quick tier: SQLite + two of the four ALTER-capable dialects per case, rotating
        # (their DDL sequencing code is shared; every dialect still sees every 2nd case)
        rot = ctx.evaluations // 3
        fakes = backends[1:]
        backends = [backends[0], fakes[rot % len(fakes)], fakes[(rot + 1 + (rot // len(fakes)) % (len(fakes) - 1)) % len(fakes)]]
    for be in backends:
        md, tables, exp_fks, exp_idx = build(sa, spec)
        be.reset()
        strict = be.fam != "sqlite"
        target = be.conn if not strict else be.eng
        stage = ["start"]

        def fail(mech, msg):
            ctx.violation(mech, f"[{be.fam}] {label} plan={plan} stage={stage[0]}: {msg}", dict(desc, backend=be.fam, stage=stage[0],
                          stream=[" ".join(s.split()) for s, _ in be.fake.statements()][-40:] if strict else None))

        def check_strict():
            if not strict:
                return True
            if be.unparsed:
                ctx.count("strict_unparsed_statements", len(be.unparsed))
                ctx.seen("unparsed", be.unparsed[0])
                return False
            if be.rejected is not None:
                reason, msg, sql = be.rejected
                mech = f"strict-catalog-rejected:{reason}"
                if reason == "drop-referenced-table" and "drop" in stage[0] and parallel_mixed:
                    # computed from the graph: a cycle table holds a named and an unnamed FK to
                    # the same table; removing the named one from the sort also discards the
                    # (referred, table) pair the unnamed one still needs
                    mech = "drop-order-loses-dependency-of-unnamed-fk-parallel-to-named-fk"
                fail(mech, f"{msg} :: {sql}")
                return False
            return True

        def expect(tabs, fks, idx, what):
            got = be.state()
            if strict:
                ctx.count("strict_final_states_checked")
            want = (set(tabs), {f for f in fks}, {i for i in idx})
            for kind, g, w in zip(("tables", "foreign-keys", "indexes"), got, want):
                if g != w:
                    fail(f"catalog-mismatch-{what}:{kind}", f"catalog has {sorted(g)!r}, expected {sorted(w)!r}")
                    return False
            return True

        def sub(nodes):
            names = {f"t{i}" for i in nodes}
            return (names, {f for f in exp_fks if f[0] in names}, {i for i in exp_idx if i[0] in names})

        def do(stagename, fn):
            stage[0] = stagename
            try:
                with warnings.catch_warnings():
                    warnings.simplefilter("ignore")
                    fn()
                if not strict:
                    be.conn.commit()
                return True
            except Exception as e:  # the property: create_all / drop_all raise nothing
                fail(f"{'create' if 'create' in stagename else 'drop'}-all-raised:{type(e).__name__}", f"{type(e).__name__}: {str(e)[:300]}")
                return False

        ok = True
        if plan == "plain":
            ok = do("create_all", lambda: md.create_all(target, checkfirst=False)) and check_strict() and expect(exp_tabs, exp_fks, exp_idx, "after-create")
        elif plan == "checkfirst":
            ok = do("create_all(checkfirst)", lambda: md.create_all(target, checkfirst=True)) and check_strict() and expect(exp_tabs, exp_fks, exp_idx, "after-create")
            ok = ok and do("create_all(checkfirst) again", lambda: md.create_all(target, checkfirst=True)) and check_strict() and expect(exp_tabs, exp_fks, exp_idx, "after-second-create")
        else:  # partial
            seed_nodes = [i for i in range(n) if rng.random() < 0.4] or [rng.randrange(n)]
            s = closed_down(spec, seed_nodes)
            ctx.count("checkfirst_partial_plans")
            ok = do("create_all(tables=closed subset)", lambda: md.create_all(target, tables=[tables[i] for i in sorted(s)], checkfirst=False)) \
                and check_strict() and expect(*sub(s), "after-partial-create")
            ok = ok and do("create_all(checkfirst) rest", lambda: md.create_all(target, checkfirst=True)) and check_strict() and expect(exp_tabs, exp_fks, exp_idx, "after-create")

        if ok and not strict:
            ctx.count("sqlite_create_drop_cycles")
            if not cyc and not any_alter:
                # rows, parents first by the harness' own order, so that a wrong DROP order fails
                order = []
                left = set(range(n))
                while left:
                    ready = sorted(i for i in left if all(p == i or p not in left for c, p in pairs if c == i))
                    order.extend(ready)
                    left -= set(ready)
                raw = be.raw
                for i in order:
                    names, vals = ["id"], [1]
                    if spec["wide"][i]:
                        names.append("id2")
                        vals.append(1)
                    for e in spec["edges"]:
                        if e["child"] == i:
                            names.append(f"f{e['k']}_a")
                            vals.append(1)
                            if spec["wide"][e["parent"]]:
                                names.append(f"f{e['k']}_b")
                                vals.append(1)
                    raw.execute(f"INSERT INTO t{i} ({', '.join(names)}) VALUES ({', '.join('?' * len(vals))})", vals)
                raw.commit()
                if pairs:
                    ctx.count("sqlite_rows_enforced_drops")
        if ok and strict:
            ctx.count("strict_statements_applied", len(be.kinds))
            ctx.count("strict_alter_add_fk", be.kinds.count("add-fk"))

        if ok:
            if plan == "plain":
                ok = do("drop_all", lambda: md.drop_all(target, checkfirst=False)) and check_strict() and expect((), (), (), "after-drop")
            elif plan == "checkfirst":
                ok = do("drop_all(checkfirst)", lambda: md.drop_all(target, checkfirst=True)) and check_strict() and expect((), (), (), "after-drop")
                ok = ok and do("drop_all(checkfirst) again", lambda: md.drop_all(target, checkfirst=True)) and check_strict() and expect((), (), (), "after-second-drop")
            else:
                seed_nodes = [i for i in range(n) if rng.random() < 0.4] or [rng.randrange(n)]
                u = closed_up(spec, seed_nodes)
                rest = set(range(n)) - u
                ok = do("drop_all(tables=closed subset)", lambda: md.drop_all(target, tables=[tables[i] for i in sorted(u)], checkfirst=False)) \
                    and check_strict() and expect(*sub(rest), "after-partial-drop")
                ok = ok and do("drop_all(checkfirst) rest", lambda: md.drop_all(target, checkfirst=True)) and check_strict() and expect((), (), (), "after-drop")
            if strict:
                ctx.count("strict_alter_drop_fk", be.kinds.count("drop-fk"))
        nfk = len(spec["edges"])
        ctx.case({"spec": desc["spec"], "plan": plan, "be": be.fam}, nontrivial=nfk >= 2 or bool(cyc))


# --------------------------------------------------------------------------
def install_sort_monitor(ctx):
    """Check + count every topological.sort the DDL sorter performs."""
    from sqlalchemy.sql import ddl

    topo = ddl.topological
    orig = topo.sort

    def checked(tuples, allitems, deterministic_order=True):
        tuples = list(tuples)
        allitems = list(allitems)
        res = list(orig(tuples, allitems, deterministic_order))
        ctx.count("ddl_toposort_calls_checked")
        pos = {id(x): i for i, x in enumerate(res)}
        if len(res) != len(allitems) or set(pos) != {id(x) for x in allitems}:
            ctx.violation("ddl-toposort-not-a-permutation", f"{len(allitems)} items -> {len(res)}", None)
        for a, b in tuples:
            if a is not b and id(a) in pos and id(b) in pos and pos[id(a)] > pos[id(b)]:
                ctx.violation("ddl-toposort-dependency-after-dependent", f"{a!r} after {b!r}", None)
                break
        return iter(res)

    topo.sort = checked
    return lambda: setattr(topo, "sort", orig)


VARIANTS = ("named", "alter-cycles", "alter-random", "convention", "unnamed", "mixed")
PLANS = ("plain", "checkfirst", "partial")


def run(ctx):
    import sqlalchemy as sa

    rng = ctx.rng
    backends = [SqliteBackend(sa)]
    for fam, url in FAKE_URLS:
        try:
            backends.append(FakeBackend(fam, url))
        except Exception:
            ctx.count("dialect_unavailable")
    restore = install_sort_monitor(ctx)
    try:
        idx = 0
        # ---- exhaustive: every digraph with self references on <= 3 tables
        for n in (1, 2, 3):
            allpairs = [(a, b) for a in range(n) for b in range(n)]
            for mask in range(1 << len(allpairs)):
                pairs = [p for k, p in enumerate(allpairs) if mask >> k & 1]
                cyc = on_cycle(n, pairs)
                for vi, variant in enumerate(VARIANTS):
                    if variant == "unnamed" and cyc:
                        continue  # documented: unnamed cyclic constraints cannot be dropped
                    if variant in ("alter-cycles", "mixed") and not cyc:
                        continue  # identical to "named" / an acyclic graph needs no names at all
                    idx += 1
                    if not ctx.mine(idx):
                        continue
                    plans = PLANS if ctx.thorough else (PLANS[(mask + vi) % 3],)
                    for plan in plans:
                        spec = make_spec(n, pairs, variant, rng, wide_mask=(mask * 7 + vi) % (1 << n))
                        run_case(ctx, sa, backends, spec, plan, rng, f"exh n={n} mask={mask} {variant}")
                        if ctx.evaluations <= 15 and len(pairs) >= 2 and cyc:
                            ctx.sample({"n": n, "pairs": pairs, "variant": variant, "plan": plan})
        ctx.count("exhaustive_le3_done")
        # ---- random graphs on 4..7 tables
        nrand = ctx.pick({"quick": 50, "thorough": 1500})
        for k in range(nrand):
            if not ctx.budget_ok():
                break
            n = rng.randint(4, 7)
            dens = rng.choice([0.08, 0.15, 0.25, 0.4])
            pairs = [(a, b) for a in range(n) for b in range(n) if rng.random() < dens and (a != b or rng.random() < 0.4)]
            if rng.random() < 0.5:  # acyclic: orient along a random order
                perm = list(range(n))
                rng.shuffle(perm)
                rank = {v: i for i, v in enumerate(perm)}
                pairs = [(a, b) if rank[a] > rank[b] or a == b else (b, a) for a, b in pairs]
                pairs = sorted(set(pairs))
            cyc = on_cycle(n, pairs)
            variant = rng.choice([v for v in VARIANTS if not (v == "unnamed" and cyc)])
            parallel = [p for p in pairs if rng.random() < 0.15]
            spec = make_spec(n, pairs, variant, rng, wide_mask=rng.getrandbits(n), parallel=parallel)
            for t in range(n):
                if rng.random() < 0.4:
                    spec["indexes"].append((t, f"ix_t{t}_v", ["v"] if rng.random() < 0.6 else ["v", "id"]))
            if not cyc and rng.random() < 0.5:
                # explicit dependencies consistent with some valid order
                reach = closure(n, [(c, p) for c, p in pairs if c != p])
                for _ in range(rng.randint(1, 3)):
                    a, b = rng.sample(range(n), 2)
                    if not reach[b][a]:        # b does not (transitively) depend on a
                        spec["extra"].append((a, b))
                        reach = closure(n, [(c, p) for c, p in pairs if c != p] + spec["extra"])
            plan = rng.choice(PLANS)
            run_case(ctx, sa, backends, spec, plan, rng, f"random#{k}")
            if k < 2:
                ctx.sample({"n": n, "pairs": pairs, "variant": variant, "plan": plan, "extra": spec["extra"]})
    finally:
        restore()
        for be in backends:
            be.dispose()
