"""C15 -- reflection reproduces the schema that was created (executed on SQLite).

Workload: seeded schemas of 1-3 tables (type palette, nullable / PK styles, server
defaults, single and multi-column foreign keys with ON DELETE / ON UPDATE / DEFERRABLE,
named and unnamed unique / check / primary-key constraints, plain / unique / partial
indexes, computed columns, quoted names, optionally inside an ATTACHed schema) are
created with ``MetaData.create_all`` and read back through the Inspector
(``get_columns / get_pk_constraint / get_foreign_keys / get_unique_constraints /
get_indexes / get_check_constraints`` and their ``get_multi_*`` forms),
``Table(autoload_with=)`` and ``MetaData.reflect``.

The generator also crosses dialect-specific options (``sqlite_autoincrement``, ``WITHOUT
ROWID``, ``Column(autoincrement=True/False/"auto")``) with primary keys that are also foreign
keys, composite and non-integer keys; what was really created (columns *and* primary key)
is confirmed through raw PRAGMA before reflection is judged.  Every case further drives
three of nine reflection entry-point sequences into one MetaData (two-step
``reflect()`` / ``reflect(schema=, only=list|callable, extend_existing, views,
resolve_fks)``, ``Inspector.reflect_table``, mixed ``Table(autoload_with=)``); attached-schema
cases hold *different* tables of the same bare names in ``main``.

Oracle: field-by-field comparison with the *definition* through a normaliser that encodes
only what SQLite documents as lossy:
  * types are compared by SQLite type affinity (datatype3.html section 3.1, implemented
    here independently over the declared type text) - plus length/precision digits, which
    SQLite keeps verbatim in the declared type;
  * an unnamed constraint reflects with name None; comments are unsupported and not
    compared; ``NO ACTION`` is the absent FK action;
  * a server default reflects as the SQL text of the DEFAULT clause.
Second generation: the reflected MetaData is created in a fresh database and reflected
again; every Inspector answer must equal the first generation exactly (types by their
compiled text).

Guards:
  * names avoid the characters for which C06 already reports the constraint-name regular
    expressions (``"`` ``)`` newline ``$``) and SQLAlchemy marker text (``%(``).
  * expression indexes are not generated (reflection documents them as skipped with a
    warning); unique constraints never repeat the primary key or each other (SQLite keeps
    one automatic index per distinct column list, so duplicates are indistinguishable).
  * partial-index predicates, check texts and defaults are literal SQL texts chosen by
    the generator, compared after whitespace normalisation only.
  * only SQLite is executed; PostgreSQL / MySQL reflection needs their catalogs and is
    out of reach here.
"""
from __future__ import annotations

import re
import warnings

META = {
    "id": "C15",
    "level": "exploration",
    "technique": "create on SQLite, reflect through Inspector / autoload / MetaData.reflect, field-by-field comparison with the generated definition; second-generation reflect-create-reflect fixpoint",
    "level_text": "Seeded generated schemas covering the SQLite feature set (19 types, 4 PK styles, defaults, FK options, named/unnamed constraints, partial/unique indexes, computed columns, quoted names, attached schema); every reflected field is compared with the definition and the second generation with the first.",
    "level_note": "Only SQLite executes; PostgreSQL/MariaDB reflection queries need server catalogs and are not reachable. Types are compared by SQLite affinity plus length digits; comments are not compared (unsupported on SQLite). Independent raw PRAGMA reads confirm what was created before the Inspector is judged.",
    "design_ref": "DESIGN.md section 4, C15",
    "rule": "case = one generated schema; non-trivial = it has at least one foreign key or unique/check constraint or index besides columns; distinct by the full definition",
    "shards": {"quick": 8, "thorough": 16},
    "modes": ["cext"],
    "soft_s": {"quick": 90, "thorough": 800},
    "exhaustive": {"quick": False, "thorough": False},
    "require": [
        "tables_reflected", "columns_compared", "fks_compared", "uniques_compared", "indexes_compared",
        "checks_compared", "defaults_compared", "pk_compared", "second_generation_tables", "autoload_tables",
        "metadata_reflect_tables", "multi_api_compared", "attached_schema_cases", "raw_pragma_confirmations",
        "tables_with_dialect_options", "pk_is_also_fk_tables", "entry_point_sequences", "entry_points_with_name_collision",
    ],
    "assumptions": ["SQLite affinity rules transcribed from datatype3.html section 3.1"],
}

RESERVED = ["select", "order", "group", "table", "index", "from", "where", "values", "primary", "check", "unique", "references", "key"]


def gen_name(rng, used, kind):
    while True:
        r = rng.random()
        if r < 0.45:
            x = kind + "".join(rng.choice("abcdefxyz_0123") for _ in range(rng.randint(1, 6)))
        elif r < 0.6:
            x = rng.choice(["My", "Col", "Tbl", "X"]) + "".join(rng.choice("abcXYZ_") for _ in range(rng.randint(1, 5)))
        elif r < 0.72:
            x = rng.choice(RESERVED)
        elif r < 0.86:
            x = "".join(rng.choice("ab c-d.e;f:g[h]i'j`k%l#m@n!o,p(q") for _ in range(rng.randint(2, 7))).strip() or "sp c"
        else:
            x = rng.choice(["é", "ß", "漢", "ё"]) + "".join(rng.choice("abé漢 _") for _ in range(rng.randint(1, 4)))
        x = " ".join(x.split()) or "n"   # no leading/trailing/double blanks: SQL texts are compared whitespace-normalised
        if "%(" in x or x.lower().startswith("sqlite_") or x.lower() in ("main", "temp"):
            continue
        if x.lower() in used or x.casefold() in used:
            continue
        used.add(x.lower())
        used.add(x.casefold())
        return x


def affinity(decl):
    """SQLite column affinity of a declared type (datatype3.html 3.1)."""
    d = decl.upper()
    if "INT" in d:
        return "INTEGER"
    if "CHAR" in d or "CLOB" in d or "TEXT" in d:
        return "TEXT"
    if "BLOB" in d or not d.strip():
        return "BLOB"
    if "REAL" in d or "FLOA" in d or "DOUB" in d:
        return "REAL"
    return "NUMERIC"


def lit(sql):
    """literal SQL for text(): a colon must be escaped or text() reads a bind parameter."""
    return sql.replace(":", "\\:")


def norm_sql(s):
    return " ".join(str(s).split())


# --------------------------------------------------------------------------
# schema generator: produces a plain description (JSON-able) + builds MetaData from it
# --------------------------------------------------------------------------
def type_palette(sa):
    return {
        "Integer": lambda: sa.Integer(), "BigInteger": lambda: sa.BigInteger(), "SmallInteger": lambda: sa.SmallInteger(),
        "Numeric(10,2)": lambda: sa.Numeric(10, 2), "Numeric(6,0)": lambda: sa.Numeric(6, 0), "Float": lambda: sa.Float(),
        "Double": lambda: sa.Double(), "String(20)": lambda: sa.String(20), "String(7)": lambda: sa.String(7),
        "Unicode(30)": lambda: sa.Unicode(30), "Text": lambda: sa.Text(), "Boolean": lambda: sa.Boolean(),
        "Date": lambda: sa.Date(), "DateTime": lambda: sa.DateTime(), "Time": lambda: sa.Time(),
        "LargeBinary": lambda: sa.LargeBinary(), "JSON": lambda: sa.JSON(), "Uuid": lambda: sa.Uuid(),
        "Enum": lambda: sa.Enum("a", "bb", "ccc", name="en"), "Interval": lambda: sa.Interval(), "CHAR(3)": lambda: sa.CHAR(3),
    }


DEFAULTS = {
    # kind -> list of (server_default spec, expected reflected text)
    "int": [("text:0", "0"), ("text:-1", "-1"), ("text:42", "42"), ("text:(1 + 2)", "(1 + 2)"), ("str:7", "'7'")],
    "str": [("str:abc", "'abc'"), ("str:it's", "'it''s'"), ("str:", "''"), ("text:'x y'", "'x y'"), ("str:a,b (c)", "'a,b (c)'")],
    "dt": [("text:CURRENT_TIMESTAMP", "CURRENT_TIMESTAMP"), ("str:2020-01-01", "'2020-01-01'")],
    "num": [("text:1.5", "1.5"), ("text:0", "0")],
}
KIND = {
    "Integer": "int", "BigInteger": "int", "SmallInteger": "int", "Numeric(10,2)": "num", "Numeric(6,0)": "num",
    "Float": "num", "Double": "num", "String(20)": "str", "String(7)": "str", "Unicode(30)": "str", "Text": "str",
    "CHAR(3)": "str", "DateTime": "dt", "Date": "dt",
}
FK_ACTIONS = [None, "CASCADE", "SET NULL", "RESTRICT", "SET DEFAULT", "NO ACTION"]


def gen_schema(rng, sa, want_schema):
    used_t = set()
    tables = []
    ntab = rng.randint(1, 3)
    pal = sorted(type_palette(sa))
    idx_names = used_t  # tables and indexes share SQLite's namespace
    con_names = set()
    for ti in range(ntab):
        tname = gen_name(rng, used_t, "t")
        used_c = set()
        cols = []
        # earlier tables whose primary key is one integer column: a pk column here may also be
        # a foreign key to it (joined-table-inheritance layout)
        int_parents = [x for x in tables if [c["type"] for c in x["cols"] if c["pk"]] == ["Integer"]]
        pk_style = rng.choice(["int", "int", "composite", "string", "none"] + (["fk-int", "fk-int", "fk-composite"] if int_parents else []))
        pk_fk = None
        if pk_style in ("int", "fk-int"):
            cols.append({"name": gen_name(rng, used_c, "id"), "type": "Integer", "pk": True, "nullable": False})
        elif pk_style in ("composite", "fk-composite"):
            cols.append({"name": gen_name(rng, used_c, "ka"), "type": "Integer", "pk": True, "nullable": False})
            cols.append({"name": gen_name(rng, used_c, "kb"), "type": rng.choice(["Integer", "String(7)"]), "pk": True, "nullable": False})
        elif pk_style == "string":
            cols.append({"name": gen_name(rng, used_c, "code"), "type": "String(20)", "pk": True, "nullable": False})
        if pk_style.startswith("fk-"):
            par = rng.choice(int_parents)
            pk_fk = {"cols": [cols[0]["name"]], "ref": par["name"], "refcols": [c["name"] for c in par["cols"] if c["pk"]],
                     "name": gen_name(rng, con_names, "fkc") if rng.random() < 0.5 else None,
                     "ondelete": rng.choice(FK_ACTIONS), "onupdate": None, "deferrable": None, "initially": None}
        # Column(autoincrement=...) on primary key columns: True only where SQLite allows it
        for c in cols:
            if rng.random() < 0.5:
                c["autoinc"] = rng.choice(["auto", False] + ([True] if len(cols) == 1 and c["type"] == "Integer" else []))
        # dialect-specific table options
        opts = {}
        if rng.random() < 0.3:
            opts["sqlite_autoincrement"] = True
        elif cols and rng.random() < 0.2:
            opts["sqlite_with_rowid"] = False
        for _ in range(rng.randint(1, 5)):
            ty = rng.choice(pal)
            c = {"name": gen_name(rng, used_c, "c"), "type": ty, "pk": False, "nullable": rng.random() < 0.6}
            if ty in KIND and rng.random() < 0.4:
                c["default"] = rng.choice(DEFAULTS[KIND[ty]])
            cols.append(c)
        t = {"name": tname, "cols": cols, "pk_name": None, "fks": [pk_fk] if pk_fk else [], "uqs": [], "cks": [], "idx": [], "computed": [],
             "opts": opts}
        pkcols = [c["name"] for c in cols if c["pk"]]
        # (an inline "PRIMARY KEY AUTOINCREMENT" cannot carry a constraint name)
        if pkcols and rng.random() < 0.3 and not opts.get("sqlite_autoincrement"):
            t["pk_name"] = gen_name(rng, con_names, "pk")
        # PRIMARY KEY (kb, ka): key order differs from column order
        t["pk_rev"] = len(pkcols) == 2 and rng.random() < 0.5
        # computed column
        intcols = [c["name"] for c in cols if c["type"] in ("Integer", "BigInteger", "SmallInteger")]
        if intcols and rng.random() < 0.2:
            cn = gen_name(rng, used_c, "g")
            t["computed"].append({"name": cn, "sqltext": "42 + 1", "persisted": rng.choice([True, False])})
        # foreign keys to earlier tables (or self)
        for target in tables + [t]:
            tpk = [c for c in target["cols"] if c["pk"]]
            if not tpk or rng.random() > 0.5:
                continue
            lc = []
            for pc in tpk:
                nm = gen_name(rng, used_c, "fk")
                cols.append({"name": nm, "type": pc["type"], "pk": False, "nullable": True})
                lc.append(nm)
            fk = {"cols": lc, "ref": target["name"], "refcols": [c["name"] for c in tpk],
                  "name": gen_name(rng, con_names, "fkc") if rng.random() < 0.6 else None,
                  "ondelete": rng.choice(FK_ACTIONS), "onupdate": rng.choice(FK_ACTIONS),
                  "deferrable": rng.choice([None, None, True, False]), "initially": None}
            if fk["deferrable"] is not None and rng.random() < 0.6:
                fk["initially"] = rng.choice(["DEFERRED", "IMMEDIATE"])
            t["fks"].append(fk)
        # unique constraints: distinct column lists, never the PK list
        taken = {tuple(pkcols)}
        plain = [c["name"] for c in cols if not c["pk"] and c["type"] not in ("JSON", "LargeBinary")]
        for _ in range(rng.randint(0, 2)):
            if not plain:
                break
            k = rng.randint(1, min(2, len(plain)))
            uc = tuple(rng.sample(plain, k))
            if uc in taken or tuple(sorted(uc)) in {tuple(sorted(x)) for x in taken}:
                continue
            taken.add(uc)
            t["uqs"].append({"cols": list(uc), "name": gen_name(rng, con_names, "uq") if rng.random() < 0.6 else None})
        # check constraints (literal SQL over an int column, one line each)
        for _ in range(rng.randint(0, 2)):
            if not intcols:
                break
            t["cks"].append({"col": rng.choice(intcols), "op": rng.choice(["> 0", "< 100", "<> 7", "IN (1, 2, 3)", "BETWEEN 1 AND (2 + 3)"]),
                             "name": gen_name(rng, con_names, "ck") if rng.random() < 0.6 else None})
        # indexes
        for _ in range(rng.randint(0, 2)):
            if not plain:
                break
            k = rng.randint(1, min(2, len(plain)))
            ic = rng.sample(plain, k)
            ix = {"name": gen_name(rng, idx_names, "ix"), "cols": ic, "unique": rng.random() < 0.3, "where": None}
            if ix["unique"] and tuple(sorted(ic)) in {tuple(sorted(x)) for x in taken}:
                continue
            if intcols and rng.random() < 0.3:
                ix["where"] = (rng.choice(intcols), rng.choice(["> 5", "IS NOT NULL", "<> 0"]))
            t["idx"].append(ix)
        tables.append(t)
    return {"schema": gen_name(rng, set(), "sch") if want_schema else None, "tables": tables}


def build(sa, spec, prep):
    pal = type_palette(sa)
    md = sa.MetaData()
    sch = spec["schema"]
    q = prep.quote
    built = {}
    for t in spec["tables"]:
        args = []
        for c in t["cols"]:
            kw = {"nullable": c["nullable"]}
            if c["pk"]:
                kw["primary_key"] = True
                kw.pop("nullable")
                if "autoinc" in c:
                    kw["autoincrement"] = c["autoinc"]
            d = c.get("default")
            if d:
                kind, _, val = d[0].partition(":")
                kw["server_default"] = sa.text(val) if kind == "text" else val
            args.append(sa.Column(c["name"], pal[c["type"]](), **kw))
        for g in t["computed"]:
            args.append(sa.Column(g["name"], sa.Integer, sa.Computed(g["sqltext"], persisted=g["persisted"])))
        pkcols = [c["name"] for c in t["cols"] if c["pk"]]
        if t.get("pk_rev"):
            pkcols = pkcols[::-1]
        if t["pk_name"] or t.get("pk_rev"):
            args.append(sa.PrimaryKeyConstraint(*pkcols, name=t["pk_name"]))
        for u in t["uqs"]:
            args.append(sa.UniqueConstraint(*u["cols"], name=u["name"]))
        for k in t["cks"]:
            args.append(sa.CheckConstraint(sa.text(lit(f"{q(k['col'])} {k['op']}")), name=k["name"]))
        T = sa.Table(t["name"], md, *args, schema=sch, **t.get("opts", {}))
        built[t["name"]] = T
        for fk in t["fks"]:  # targets are earlier tables or the table itself: Column objects, so any name works
            R = built[fk["ref"]]
            T.append_constraint(sa.ForeignKeyConstraint(
                [T.c[x] for x in fk["cols"]], [R.c[x] for x in fk["refcols"]],
                name=fk["name"], ondelete=fk["ondelete"], onupdate=fk["onupdate"], deferrable=fk["deferrable"], initially=fk["initially"]))
        for ix in t["idx"]:
            kw = {}
            if ix["where"]:
                kw["sqlite_where"] = sa.text(lit(f"{q(ix['where'][0])} {ix['where'][1]}"))
            sa.Index(ix["name"], *[T.c[x] for x in ix["cols"]], unique=ix["unique"], **kw)
    return md


# --------------------------------------------------------------------------
def run(ctx):
    import sqlalchemy as sa

    from sqlalchemy.dialects import sqlite

    prep = sqlite.dialect().identifier_preparer
    rng = ctx.rng
    ncases = ctx.pick({"quick": 120, "thorough": 2500})
    for k in range(ncases):
        if not ctx.budget_ok():
            break
        spec = gen_schema(rng, sa, want_schema=(k % 3 == 2))
        one_case(ctx, sa, prep, spec, k)


def one_case(ctx, sa, prep, spec, k):
    from sqlalchemy import inspect

    sch = spec["schema"]
    q = prep.quote
    md = build(sa, spec, prep)
    compiler = sa.create_engine("sqlite://").dialect.type_compiler_instance
    pal = type_palette(sa)
    desc = {"spec": spec}

    # name-level causes that are separate, specific mechanisms (computed from the definition)
    dotted_fk = any(("." in f["ref"]) or any("." in x for x in f["refcols"]) or bool(sch and "." in sch)
                    for t in spec["tables"] for f in t["fks"])
    colon_where = any(i["where"] and ":" in i["where"][0] for t in spec["tables"] for i in t["idx"])
    colon_check = any(":" in x["col"] for t in spec["tables"] for x in t["cks"])

    def bad(mech, msg, **extra):
        if dotted_fk and (mech.startswith(("reflect-raised", "second-generation-raised")) or "foreign-keys" in mech or "foreign-key" in mech):
            mech = "reflect-table-fk-refspec-dotted-name"
        elif colon_where and (mech == "indexes" or mech.endswith(":indexes")):
            mech = "reflected-sql-text-colon-read-as-bind"
        elif colon_check and (mech == "check-constraints" or mech.endswith(":check-constraints")):
            mech = "reflected-sql-text-colon-read-as-bind"
        ctx.violation(mech, msg, dict(desc, **extra))

    def hq(name):
        return '"' + name.replace('"', '""') + '"'

    def attach(conn):
        if sch:
            conn.exec_driver_sql(f"ATTACH DATABASE ':memory:' AS {hq(sch)}")

    eng = sa.create_engine("sqlite://")
    eng2 = sa.create_engine("sqlite://")
    try:
        with eng.connect() as c, warnings.catch_warnings():
            warnings.simplefilter("error", sa.exc.SAWarning)  # a reflection warning is a finding, not noise
            attach(c)
            try:
                md.create_all(c)
            except sa.exc.SAWarning as w:
                raise RuntimeError(f"generator produced a schema create_all warns about: {w}")
            raw = c.connection.dbapi_connection
            pre = f"{hq(sch)}." if sch else ""
            twins = []
            if sch:
                # name collisions across schemas: a *different* table of the same bare name in main
                for t in spec["tables"]:
                    if not twins or k % 2:
                        raw.execute(f"CREATE TABLE {hq(t['name'])} (tw_id INTEGER PRIMARY KEY, tw_only VARCHAR(5))")
                        twins.append(t["name"])
            if sch:
                ctx.count("attached_schema_cases")
            insp = inspect(c)
            gen1 = {}
            for t in spec["tables"]:
                tn = t["name"]
                where = f"table {tn!r}"
                # ---- independent confirmation of what exists (raw PRAGMA), so that a
                # mismatch below is a reflection fault and not a creation fault
                rawcols = [r[1] for r in raw.execute(f"PRAGMA {pre}table_xinfo({hq(tn)})")]
                expcols = [x["name"] for x in t["cols"]] + [g["name"] for g in t["computed"]]
                ctx.count("raw_pragma_confirmations")
                if rawcols != expcols:
                    bad("created-columns-differ-from-definition", f"{where}: PRAGMA has {rawcols!r}, defined {expcols!r}")
                    continue
                rawpk = [r[1] for r in sorted((r for r in raw.execute(f"PRAGMA {pre}table_xinfo({hq(tn)})") if r[5]), key=lambda r: r[5])]
                defpk = [x["name"] for x in t["cols"] if x["pk"]]
                if t.get("pk_rev"):
                    defpk = defpk[::-1]
                if rawpk != defpk:
                    bad("created-primary-key-differs-from-definition",
                        f"{where} (options {t.get('opts')}): created table has primary key {rawpk!r}, defined {defpk!r}")
                    continue
                if t.get("opts"):
                    ctx.count("tables_with_dialect_options")
                if any(f["cols"] == defpk for f in t["fks"]) and defpk:
                    ctx.count("pk_is_also_fk_tables")
                try:
                    cols = insp.get_columns(tn, schema=sch)
                    pk = insp.get_pk_constraint(tn, schema=sch)
                    fks = insp.get_foreign_keys(tn, schema=sch)
                    uqs = insp.get_unique_constraints(tn, schema=sch)
                    idx = insp.get_indexes(tn, schema=sch)
                    cks = insp.get_check_constraints(tn, schema=sch)
                except (sa.exc.SAWarning, sa.exc.SQLAlchemyError, AssertionError, KeyError, IndexError, TypeError, ValueError) as e:
                    bad(f"inspector-raised:{type(e).__name__}", f"{where}: {type(e).__name__}: {str(e)[:300]}")
                    continue
                ctx.count("tables_reflected")
                gen1[tn] = snapshot(compiler, cols, pk, fks, uqs, idx, cks)
                # ---- columns: names, order, affinity (+digits), nullable, pk flag, default, computed
                if [x["name"] for x in cols] != expcols:
                    bad("columns-name-or-order", f"{where}: reflected {[x['name'] for x in cols]!r} expected {expcols!r}")
                    continue
                for cd, rc in zip(t["cols"], cols):
                    ctx.count("columns_compared")
                    decl = compiler.process(pal[cd["type"]]())
                    rdecl = compiler.process(rc["type"])
                    if affinity(decl) != affinity(rdecl):
                        bad("column-type-affinity", f"{where} column {cd['name']!r}: declared {decl} ({affinity(decl)}) reflected {rdecl} ({affinity(rdecl)})")
                    elif re.findall(r"\d+", decl) != re.findall(r"\d+", rdecl):
                        bad("column-type-length-or-precision", f"{where} column {cd['name']!r}: declared {decl} reflected {rdecl}")
                    exp_null = False if cd["pk"] else cd["nullable"]
                    if bool(rc["nullable"]) != exp_null:
                        bad("column-nullable", f"{where} column {cd['name']!r}: nullable reflected {rc['nullable']} expected {exp_null}")
                    if bool(rc.get("primary_key")) != cd["pk"]:
                        bad("column-primary-key-flag", f"{where} column {cd['name']!r}: primary_key reflected {rc.get('primary_key')}")
                    exp_def = cd["default"][1] if cd.get("default") else None
                    if exp_def and exp_def.startswith("(") and exp_def.endswith(")"):
                        exp_def = exp_def[1:-1]  # PRAGMA table_info reports a parenthesised default without the outer parentheses
                    ctx.count("defaults_compared")
                    if (None if rc["default"] is None else norm_sql(rc["default"])) != exp_def:
                        bad("column-server-default", f"{where} column {cd['name']!r}: default reflected {rc['default']!r} expected {exp_def!r}")
                for g, rc in zip(t["computed"], cols[len(t["cols"]):]):
                    comp = rc.get("computed")
                    if not comp or norm_sql(comp["sqltext"]) != g["sqltext"] or bool(comp["persisted"]) != g["persisted"]:
                        bad("column-computed", f"{where} column {g['name']!r}: computed reflected {comp!r} expected {g!r}")
                # ---- primary key
                exp_pk = [x["name"] for x in t["cols"] if x["pk"]]
                if t.get("pk_rev"):
                    exp_pk = exp_pk[::-1]
                ctx.count("pk_compared")
                if pk["constrained_columns"] != exp_pk:
                    bad("pk-columns", f"{where}: pk reflected {pk['constrained_columns']!r} expected {exp_pk!r}")
                if exp_pk and pk.get("name") != t["pk_name"]:
                    bad("pk-name", f"{where}: pk name reflected {pk.get('name')!r} expected {t['pk_name']!r}")
                # ---- foreign keys
                def fkey(f):
                    o = f.get("options", {})
                    return (tuple(f["constrained_columns"]), f["referred_schema"], f["referred_table"], tuple(f["referred_columns"]),
                            f["name"], o.get("ondelete"), o.get("onupdate"), o.get("deferrable"), o.get("initially"))

                exp = sorted((tuple(f["cols"]), sch, f["ref"], tuple(f["refcols"]), f["name"],
                              None if f["ondelete"] in (None, "NO ACTION") else f["ondelete"],
                              None if f["onupdate"] in (None, "NO ACTION") else f["onupdate"],
                              f["deferrable"], f["initially"]) for f in t["fks"])
                got = sorted(map(fkey, fks), key=repr)
                ctx.count("fks_compared", max(1, len(exp)))
                if got != sorted(exp, key=repr):
                    aspect = "columns-or-target"
                    if sorted(x[:4] for x in got) == sorted(x[:4] for x in exp):
                        aspect = "name" if sorted(x[:4] + x[5:] for x in got) == sorted(x[:4] + x[5:] for x in exp) else "options"
                    bad(f"foreign-key-{aspect}", f"{where}: foreign keys reflected {got!r} expected {sorted(exp, key=repr)!r}")
                # ---- unique constraints
                exp = sorted(((u["name"], tuple(u["cols"])) for u in t["uqs"]), key=repr)
                got = sorted(((u["name"], tuple(u["column_names"])) for u in uqs), key=repr)
                ctx.count("uniques_compared", max(1, len(exp)))
                if got != exp:
                    bad("unique-constraints", f"{where}: unique constraints reflected {got!r} expected {exp!r}")
                # ---- indexes
                exp = sorted(((i["name"], tuple(i["cols"]), bool(i["unique"]),
                               f"{q(i['where'][0])} {i['where'][1]}" if i["where"] else None) for i in t["idx"]), key=repr)
                got = sorted(((i["name"], tuple(i["column_names"]), bool(i["unique"]),
                               norm_sql(i.get("dialect_options", {}).get("sqlite_where")) if i.get("dialect_options", {}).get("sqlite_where") is not None else None)
                              for i in idx), key=repr)
                ctx.count("indexes_compared", max(1, len(exp)))
                if got != exp:
                    bad("indexes", f"{where}: indexes reflected {got!r} expected {exp!r}")
                # ---- check constraints
                exp = sorted(((x["name"], f"{q(x['col'])} {x['op']}") for x in t["cks"]), key=repr)
                got = sorted(((x["name"], norm_sql(x["sqltext"])) for x in cks), key=repr)
                ctx.count("checks_compared", max(1, len(exp)))
                if got != exp:
                    bad("check-constraints", f"{where}: check constraints reflected {got!r} expected {exp!r}")
            # ---- get_multi_* must agree with the single-table API
            try:
                for meth, single in (("get_multi_columns", "get_columns"), ("get_multi_foreign_keys", "get_foreign_keys"),
                                     ("get_multi_indexes", "get_indexes"), ("get_multi_unique_constraints", "get_unique_constraints"),
                                     ("get_multi_pk_constraint", "get_pk_constraint"), ("get_multi_check_constraints", "get_check_constraints")):
                    multi = getattr(insp, meth)(schema=sch)
                    for t in spec["tables"]:
                        ctx.count("multi_api_compared")
                        a = multi.get((sch, t["name"]))
                        b = getattr(insp, single)(t["name"], schema=sch)
                        if plain(compiler, a) != plain(compiler, b):
                            bad(f"multi-api-differs:{meth}", f"{meth}[{t['name']!r}] = {plain(compiler, a)!r} but {single} = {plain(compiler, b)!r}")
            except (sa.exc.SAWarning, sa.exc.SQLAlchemyError, AssertionError, KeyError, IndexError, TypeError, ValueError) as e:
                bad(f"inspector-raised:{type(e).__name__}", f"get_multi_*: {type(e).__name__}: {str(e)[:300]}")
            # ---- Table(autoload_with=) and MetaData.reflect assemble the same thing
            try:
                mdr = sa.MetaData()
                mdr.reflect(c, schema=sch)
                for t in spec["tables"]:
                    key = (sch + "." if sch else "") + t["name"]
                    ctx.count("metadata_reflect_tables")
                    if key not in mdr.tables:
                        bad("metadata-reflect-missing-table", f"{key!r} not in {sorted(mdr.tables)!r}")
                        continue
                    if t["name"] in gen1:
                        table_vs_inspector(ctx, bad, compiler, mdr.tables[key], gen1[t["name"]], t, "metadata-reflect")
                    mda = sa.MetaData()
                    A = sa.Table(t["name"], mda, autoload_with=c, schema=sch)
                    ctx.count("autoload_tables")
                    if t["name"] in gen1:
                        table_vs_inspector(ctx, bad, compiler, A, gen1[t["name"]], t, "autoload")
            except (sa.exc.SAWarning, sa.exc.SQLAlchemyError, AssertionError, KeyError, IndexError, TypeError, ValueError) as e:
                bad(f"reflect-raised:{type(e).__name__}", f"{type(e).__name__}: {str(e)[:300]}")
                mdr = None
            # ---- the other reflection entry points, into one MetaData, with name collisions
            if len(gen1) == len(spec["tables"]):
                entry_points(ctx, sa, c, insp, spec, gen1, twins, compiler, bad, k)
            # ---- second generation
            if mdr is not None and len(gen1) == len(spec["tables"]):
                with eng2.connect() as c2:
                    attach(c2)
                    try:
                        mdr.create_all(c2)
                        insp2 = inspect(c2)
                        for t in spec["tables"]:
                            tn = t["name"]
                            g2 = snapshot(compiler, insp2.get_columns(tn, schema=sch), insp2.get_pk_constraint(tn, schema=sch),
                                          insp2.get_foreign_keys(tn, schema=sch), insp2.get_unique_constraints(tn, schema=sch),
                                          insp2.get_indexes(tn, schema=sch), insp2.get_check_constraints(tn, schema=sch))
                            ctx.count("second_generation_tables")
                            for aspect in g2:
                                if g2[aspect] != gen1[tn][aspect]:
                                    bad(f"second-generation-differs:{aspect}", f"table {tn!r} {aspect}: first {gen1[tn][aspect]!r} second {g2[aspect]!r}")
                    except (sa.exc.SAWarning, sa.exc.SQLAlchemyError, AssertionError, KeyError, IndexError, TypeError, ValueError) as e:
                        bad(f"second-generation-raised:{type(e).__name__}", f"{type(e).__name__}: {str(e)[:300]}")
    finally:
        eng.dispose()
        eng2.dispose()
    nontriv = any(t["fks"] or t["uqs"] or t["cks"] or t["idx"] for t in spec["tables"])
    ctx.case(spec, nontrivial=nontriv)
    if k < 2:
        ctx.sample(spec)


def entry_points(ctx, sa, c, insp, spec, gen1, twins, compiler, bad, k):
    """MetaData.reflect with schema / only=list / only=callable / views / extend_existing /
    resolve_fks in two-step (automap style) sequences, Inspector.reflect_table and
    Table(autoload_with=) into one MetaData that already holds the same bare names of the
    other schema.  Every created table must be present under its key with what the
    Inspector reported; the main-schema twins must keep their own definition."""
    sch = spec["schema"]
    names = [t["name"] for t in spec["tables"]]
    every = lambda name, m: True                      # noqa: E731
    subset = set(names[: max(1, len(names) // 2)])

    def v_plain_then_callable(md):
        md.reflect(c)
        md.reflect(c, schema=sch, only=every)

    def v_plain_then_list(md):
        md.reflect(c)
        md.reflect(c, schema=sch, only=list(names))

    def v_schema_then_plain(md):
        md.reflect(c, schema=sch)
        md.reflect(c)

    def v_callable_extend(md):
        md.reflect(c)
        md.reflect(c, schema=sch, only=every, extend_existing=True)

    def v_views_nofk(md):
        md.reflect(c, schema=sch, views=True, resolve_fks=False)
        md.reflect(c, views=True)

    def v_twice(md):
        md.reflect(c, schema=sch, only=every)
        md.reflect(c, schema=sch, only=every)
        md.reflect(c, only=every)

    def v_subset_callable(md):
        md.reflect(c)
        md.reflect(c, schema=sch, only=lambda name, m: name in subset)
        md.reflect(c, schema=sch, only=lambda name, m: name not in subset)

    def v_reflect_table(md):
        for tw in twins:
            sa.Table(tw, md, autoload_with=c)
        for nm in names:
            insp.reflect_table(sa.Table(nm, md, schema=sch), None)

    def v_autoload_mixed(md):
        for nm in names:
            if nm in twins:
                sa.Table(nm, md, autoload_with=c)
            sa.Table(nm, md, autoload_with=c, schema=sch)

    variants = [v_plain_then_callable, v_plain_then_list, v_schema_then_plain, v_callable_extend, v_views_nofk, v_twice,
                v_subset_callable, v_reflect_table, v_autoload_mixed]
    outer_bad = bad
    for j in range(3):
        fn = variants[(k * 3 + j) % len(variants)]
        md = sa.MetaData()
        # re-reflecting tables that are already present with extend_existing=True appends their
        # indexes a second time: a separate, reported mechanism (selftest/C15/proposed/)
        rereflect = fn is v_callable_extend and not sch

        def bad(mech, msg, _r=rereflect, **extra):
            if _r and mech == "entry-point-table-indexes-differ-from-inspector":
                mech = "extend-existing-rereflect-duplicates-indexes"
            outer_bad(mech, msg, **extra)

        try:
            fn(md)
        except (sa.exc.SAWarning, sa.exc.SQLAlchemyError, AssertionError, KeyError, IndexError, TypeError, ValueError) as e:
            bad(f"reflect-raised:{type(e).__name__}", f"entry point {fn.__name__}: {type(e).__name__}: {str(e)[:300]}")
            continue
        ctx.count("entry_point_sequences")
        if twins:
            ctx.count("entry_points_with_name_collision")
        for t in spec["tables"]:
            key = (sch + "." if sch else "") + t["name"]
            if key not in md.tables:
                bad("reflect-entry-point-missing-table", f"{fn.__name__}: {key!r} not in MetaData.tables {sorted(md.tables)!r}")
                continue
            try:
                table_vs_inspector(ctx, bad, compiler, md.tables[key], gen1[t["name"]], t, "entry-point")
            except (sa.exc.SQLAlchemyError, AssertionError, KeyError) as e:
                bad(f"reflect-raised:{type(e).__name__}", f"entry point {fn.__name__}: {type(e).__name__}: {str(e)[:300]}")
        if fn not in (v_reflect_table, v_autoload_mixed) or True:
            for tw in twins:
                if tw in md.tables:
                    got = [col.name for col in md.tables[tw].columns]
                    if got != ["tw_id", "tw_only"]:
                        bad("reflect-entry-point-wrong-schema-table", f"{fn.__name__}: main table {tw!r} has columns {got!r}")
                elif fn is not v_autoload_mixed or True:
                    bad("reflect-entry-point-missing-table", f"{fn.__name__}: main table {tw!r} not in MetaData.tables {sorted(md.tables)!r}")


def plain(compiler, obj):
    """Inspector answer -> comparable plain data (types by compiled text)."""
    from sqlalchemy.types import TypeEngine

    if isinstance(obj, dict):
        return {k: plain(compiler, v) for k, v in sorted(obj.items())}
    if isinstance(obj, (list, tuple)):
        return [plain(compiler, v) for v in obj]
    if isinstance(obj, TypeEngine):
        return compiler.process(obj)
    if obj is None or isinstance(obj, (str, int, bool, float)):
        return obj
    return norm_sql(obj)


def snapshot(compiler, cols, pk, fks, uqs, idx, cks):
    return {
        "columns": plain(compiler, cols), "pk": plain(compiler, pk),
        "foreign-keys": sorted(plain(compiler, fks), key=repr), "unique-constraints": sorted(plain(compiler, uqs), key=repr),
        "indexes": sorted(plain(compiler, idx), key=repr), "check-constraints": sorted(plain(compiler, cks), key=repr),
    }


def table_vs_inspector(ctx, bad, compiler, T, snap, t, how):
    """The reflected Table object must carry what the Inspector reported."""
    cols = snap["columns"]
    got = [(c.name, compiler.process(c.type), bool(c.nullable), bool(c.primary_key)) for c in T.columns]
    want = [(c["name"], c["type"], bool(c["nullable"]), bool(c.get("primary_key"))) for c in cols]
    if got != want:
        bad(f"{how}-table-columns-differ-from-inspector", f"table {t['name']!r}: Table has {got!r}, inspector {want!r}")
    gotfk = sorted((tuple(c.name for c in f.columns), f.referred_table.name, tuple(e.column.name for e in f.elements), f.name,
                    f.ondelete, f.onupdate) for f in T.foreign_key_constraints)
    wantfk = sorted((tuple(f["constrained_columns"]), f["referred_table"], tuple(f["referred_columns"]), f["name"],
                     f.get("options", {}).get("ondelete"), f.get("options", {}).get("onupdate")) for f in snap["foreign-keys"])
    if sorted(gotfk, key=repr) != sorted(wantfk, key=repr):
        bad(f"{how}-table-foreign-keys-differ-from-inspector", f"table {t['name']!r}: Table has {gotfk!r}, inspector {wantfk!r}")
    goti = sorted((i.name, tuple(c.name for c in i.columns), bool(i.unique)) for i in T.indexes)
    wanti = sorted((i["name"], tuple(i["column_names"]), bool(i["unique"])) for i in snap["indexes"])
    if goti != wanti:
        bad(f"{how}-table-indexes-differ-from-inspector", f"table {t['name']!r}: Table has {goti!r}, inspector {wanti!r}")
    gotpk = [c.name for c in T.primary_key.columns]
    if gotpk != snap["pk"].get("constrained_columns", []):
        bad(f"{how}-table-pk-differs-from-inspector", f"table {t['name']!r}: Table pk {gotpk!r}, inspector {snap['pk']!r}")
