"""C16 -- schema_translate_map renders the mapped schemas regardless of cache state.

Rig: two identical sets of four SQLite files (``main`` + ATTACHed ``s1 s2 s3``); every
schema holds tables ``t`` and ``u`` with *schema-unique payloads* (value // 1000 names
the schema).  The *subject* engine keeps its compiled cache for the whole sequence and
executes logical statements (tables with schema None / "s1" / "s2" / logical-only
names "alias_x" / "alias_y") under a schema_translate_map drawn per step; the *twin*
engine has no cache and executes the same statement built on tables that literally
carry the translated schema, without any map.

Per step (SELECT shapes with joins / CTE / subquery / union / expanding IN, INSERT
single + executemany (insertmanyvalues) + RETURNING + FROM SELECT, UPDATE, DELETE,
CREATE / DROP TABLE + INDEX + FK with checkfirst, CREATE TABLE AS SELECT, CREATE VIEW), judged:

* SQL: the (statement, parameters) stream at the DBAPI of the subject equals the twin's;
* rows: identical rows, and the payloads carry the code of the schema the map names
  (known from the generator, independent of the twin);
* effects: after the step's commit, dumps of all tables of all eight files read through
  independent raw sqlite3 connections are pairwise equal (a write that landed in
  another schema, or was lost, shows up) - including sqlite_master for DDL;
* errors: subject and twin raise the same exception class or none.

Maps are fresh literals, the very same dict object again, a dict used by an earlier execution and
updated in place, or a copy taken from such a dict after its use (with changed targets, None key
added / removed).  The map is supplied, at random, through Connection.execution_options,
Engine.execution_options or the per-statement execution_options; map objects are
rebuilt or reused; statements are rebuilt (fresh objects, same cache key) or reused.

Guards: (1) a map whose target is None renders the dialect's default schema ("main"):
the twin uses schema "main"; (2) the library documents in its error message that the
presence of the ``None`` key must be consistent between executions sharing a compiled
form: InvalidRequestError mentioning "consistent keys" is accepted iff an earlier
truthy map for the same statement on this engine differed in None-key presence (the
step is then skipped on the twin); a *correct* execution is of course also accepted;
(3) empty map == no map; (4) label style TABLENAME_PLUS_COL is not used (its labels
contain the logical schema name by design).
"""
from __future__ import annotations

import os
import sqlite3

META = {
    "id": "C16",
    "level": "exploration",
    "technique": "differential execution against literal-schema twin statements (uncached) + DBAPI spy on both + independent per-file observers with schema-unique payloads",
    "level_text": "Seeded sequences of (statement, map) steps over one engine-wide compiled cache; maps with None keys, identity, None targets, unused keys, logical-only schema names; three ways of supplying the map; SELECT/DML/DDL; effects observed in every schema after every step.",
    "level_note": "SQLite ATTACHed databases play the role of schemas (only backend that executes here). Sequences, PG search_path interplay and server-side default schemas other than 'main' are out of reach. The twin is SQLAlchemy itself compiling literal-schema tables without the translate feature and without cache.",
    "design_ref": "DESIGN.md section 4, C16",
    "rule": "case = one step (statement kind, logical variant, map); non-trivial = map changes at least one schema and the statement's compiled form was already in the cache under another map",
    "shards": {"quick": 8, "thorough": 16},
    "soft_s": {"quick": 45, "thorough": 700},
    "exhaustive": {"quick": False, "thorough": False},
    "require": ["steps", "sql_streams_compared", "rows_compared", "dumps_compared", "cache_hits_other_map", "payload_checks", "ddl_steps", "dml_steps",
                "imv_steps", "none_key_maps", "writes_observed", "ddl_with_select_steps", "empty_map_then_real_map", "maps_mutated_in_place", "maps_copied_after_use"],
    "assumptions": ["literal-schema statements compile correctly without schema_translate_map (twin)"],
}

SCHEMAS = ["main", "s1", "s2", "s3"]
CODE = {"main": 1, "s1": 2, "s2": 3, "s3": 4}
VARIANTS = {
    "L1": {"t": None, "u": None},
    "L2": {"t": "s1", "u": "s1"},
    "L3": {"t": None, "u": "s2"},
    "L4": {"t": "alias_x", "u": "alias_y"},
    "L5": {"t": "s2", "u": None},
}


def make_files(workdir, tag):
    paths = {}
    for s in SCHEMAS:
        p = os.path.join(workdir, f"{tag}_{s}.db")
        if os.path.exists(p):
            os.remove(p)
        con = sqlite3.connect(p)
        con.execute("CREATE TABLE t (id INTEGER PRIMARY KEY, v INTEGER)")
        con.execute("CREATE TABLE u (id INTEGER PRIMARY KEY, tid INTEGER, w INTEGER)")
        c = CODE[s] * 1000
        con.executemany("INSERT INTO t VALUES (?,?)", [(i, c + i) for i in range(1, 6)])
        con.executemany("INSERT INTO u VALUES (?,?,?)", [(i, (i % 5) + 1, c + 100 + i) for i in range(1, 9)])
        con.commit()
        con.close()
        paths[s] = p
    return paths


def dump_all(paths):
    out = {}
    for s, p in paths.items():
        con = sqlite3.connect(p, timeout=2.0)
        try:
            objs = con.execute("SELECT type, name, tbl_name, CASE WHEN type = 'view' THEN sql END FROM sqlite_master ORDER BY type, name").fetchall()
            d = {"__objects__": objs}
            for ty, name, _, _ in objs:
                if ty == "table":
                    d[name] = con.execute(f'SELECT * FROM "{name}" ORDER BY 1').fetchall()
            out[s] = d
        finally:
            con.close()
    return out


def effective(schema, m):
    """twin schema of a table whose logical schema is ``schema`` under map ``m``"""
    if not m:
        return schema
    if schema in m:
        return m[schema] or "main"
    return schema


class Rig:
    def __init__(self, ctx, sa):
        from vf.mon.dbapi_spy import Spy

        self.sa = sa
        self.ctx = ctx
        self.tagn = getattr(ctx, "_c16n", 0)
        ctx._c16n = self.tagn + 1
        self.subj_paths = make_files(ctx.workdir, f"a{self.tagn}")
        self.twin_paths = make_files(ctx.workdir, f"b{self.tagn}")
        self.subj_spy, self.twin_spy = Spy(), Spy()
        self.subj = self._engine(self.subj_spy, self.subj_paths)
        self.twin = self._engine(self.twin_spy, self.twin_paths).execution_options(compiled_cache=None)
        self.tables = {}
        self.xid = 100

    def _engine(self, spy, paths):
        base = spy.creator(paths["main"])

        def creator():
            c = base()
            for s in SCHEMAS[1:]:
                c.raw.execute(f"ATTACH DATABASE '{paths[s]}' AS {s}")
            return c

        return self.sa.create_engine("sqlite://", creator=creator)

    def tabs(self, schemas, fresh=False):
        """Table objects t, u, x for the given {name: schema}; cached per schema pair unless fresh"""
        sa = self.sa
        key = (schemas["t"], schemas["u"])
        if not fresh and key in self.tables:
            return self.tables[key]
        md = sa.MetaData()
        t = sa.Table("t", md, sa.Column("id", sa.Integer, primary_key=True), sa.Column("v", sa.Integer), schema=schemas["t"])
        u = sa.Table("u", md, sa.Column("id", sa.Integer, primary_key=True), sa.Column("tid", sa.Integer), sa.Column("w", sa.Integer), schema=schemas["u"])
        tq = ("%s.t.id" % schemas["t"]) if schemas["t"] else "t.id"
        x = sa.Table("x", md, sa.Column("id", sa.Integer, primary_key=True), sa.Column("tid", sa.ForeignKey(tq)), sa.Column("a", sa.Integer),
                     sa.Index("ix_x_a", "a"),  # explicit: the default index name embeds the *logical* schema by design
                     schema=schemas["t"])
        out = {"t": t, "u": u, "x": x, "md": md}
        if not fresh:
            self.tables[key] = out
        return out

    def close(self):
        self.subj.dispose()
        self.twin.dispose()


# ---- statements: builder(tabs, p) -> (stmt, params, returns_rows, ordered) ---------------
def st_select_in(sa, T, p):
    t = T["t"]
    return sa.select(t.c.id, t.c.v).where(t.c.id.in_(p["ids"])).order_by(t.c.id), None, True


def st_join(sa, T, p):
    t, u = T["t"], T["u"]
    return sa.select(t.c.id, t.c.v, u.c.w).join(u, u.c.tid == t.c.id).where(u.c.w % 2 == p["par"]).order_by(u.c.id), None, True


def st_cte(sa, T, p):
    t, u = T["t"], T["u"]
    c = sa.select(u.c.tid, sa.func.sum(u.c.w).label("sw")).group_by(u.c.tid).cte("c")
    return sa.select(t.c.v, c.c.sw).join(c, c.c.tid == t.c.id).where(t.c.id <= p["lim"]).order_by(t.c.id), None, True


def st_exists(sa, T, p):
    t, u = T["t"], T["u"]
    sub = sa.select(sa.func.max(u.c.w)).where(u.c.tid == t.c.id).scalar_subquery()
    return sa.select(t.c.v, sub.label("mw")).where(sa.exists().where(u.c.tid == t.c.id, u.c.id > p["lim"])).order_by(t.c.id), None, True


def st_union(sa, T, p):
    t, u = T["t"], T["u"]
    a = sa.select(t.c.id, t.c.v.label("val")).where(t.c.id <= p["lim"])
    b = sa.select(u.c.id, u.c.w.label("val")).where(u.c.id.in_(p["ids"]))
    return sa.union_all(a, b).order_by("val"), None, True


def st_subq(sa, T, p):
    t, u = T["t"], T["u"]
    sq = sa.select(t.c.id, t.c.v).where(t.c.id > p["par"]).subquery("sq")
    return sa.select(sq.c.v, u.c.w).join(u, u.c.tid == sq.c.id).order_by(u.c.id).limit(p["lim"] + 2), None, True


def st_insert(sa, T, p):
    t = T["t"]
    return sa.insert(t).values(id=p["newid"], v=p["val"]), None, False


def st_insert_ret(sa, T, p):
    t = T["t"]
    return sa.insert(t).values(id=p["newid"], v=p["val"]).returning(t.c.id, t.c.v), None, True


def st_insert_many(sa, T, p):
    t = T["t"]
    return sa.insert(t), [{"id": p["newid"] + i, "v": p["val"] + i} for i in range(p["nrows"])], False


def st_insert_many_ret(sa, T, p):
    t = T["t"]
    return sa.insert(t).returning(t.c.id, t.c.v, sort_by_parameter_order=True), [{"id": p["newid"] + i, "v": p["val"] + i} for i in range(p["nrows"])], True


def st_insert_many_sub(sa, T, p):
    """executemany + RETURNING whose VALUES contain a scalar subquery on the other table: the
    insertmanyvalues batches carry schema tokens inside the repeated VALUES group"""
    t, u = T["t"], T["u"]
    sub = sa.select(sa.func.max(u.c.w)).scalar_subquery()
    stmt = sa.insert(t).values(id=sa.bindparam("pid"), v=sa.bindparam("pv", type_=sa.Integer) + sub).returning(t.c.id, t.c.v)
    return stmt, [{"pid": p["newid"] + i, "pv": p["val"] + i} for i in range(p["nrows"])], True


def st_insert_u_many(sa, T, p):
    u = T["u"]
    return sa.insert(u), [{"id": p["newid"] + i, "tid": 1 + i % 5, "w": p["val"] + i} for i in range(p["nrows"])], False


def st_update(sa, T, p):
    t = T["t"]
    return sa.update(t).where(t.c.id.in_(p["ids"])).values(v=t.c.v + p["val"]), None, False


def st_update_corr(sa, T, p):
    t, u = T["t"], T["u"]
    sub = sa.select(sa.func.max(u.c.w)).where(u.c.tid == t.c.id).scalar_subquery()
    return sa.update(t).where(t.c.id <= p["lim"]).values(v=sub + p["val"]).returning(t.c.id, t.c.v), None, True


def st_delete(sa, T, p):
    t, u = T["t"], T["u"]
    return sa.delete(u).where(u.c.tid.in_(sa.select(t.c.id).where(t.c.id == p["lim"]))), None, False


def st_insert_from_select(sa, T, p):
    t, u = T["t"], T["u"]
    sel = sa.select(t.c.id + p["newid"], t.c.id, t.c.v + p["val"]).where(t.c.id <= p["lim"])
    return sa.insert(u).from_select(["id", "tid", "w"], sel), None, False


def st_executemany_update(sa, T, p):
    t = T["t"]
    return (sa.update(t).where(t.c.id == sa.bindparam("pid")).values(v=sa.bindparam("pv")),
            [{"pid": i, "pv": p["val"] + i} for i in p["ids"]], False)


SELECTS = [st_select_in, st_join, st_cte, st_exists, st_union, st_subq]
DML = [st_insert, st_insert_ret, st_insert_many, st_insert_many_ret, st_insert_many_sub, st_insert_u_many, st_update, st_update_corr, st_delete, st_insert_from_select,
       st_executemany_update]
IMV = {st_insert_many_ret, st_insert_many_sub}


def draw_map(rng, variant, none_mode):
    """a map that makes ``variant`` executable (logical-only schemas are always mapped)"""
    logical = VARIANTS[variant]
    m = {}
    targets = ["s1", "s2", "s3", "s1", "s2", "s3", None, "main"]
    keys = set(logical.values())
    for k in ("alias_x", "alias_y"):
        if k in keys:
            m[k] = rng.choice(["s1", "s2", "s3"])
    for k in ("s1", "s2"):
        if k in keys:
            c = rng.random()
            if c < 0.5:
                m[k] = rng.choice(targets)
            elif c < 0.65:
                m[k] = k  # identity
    if none_mode:
        m[None] = rng.choice(targets)
    if rng.random() < 0.3:
        m["unused_schema"] = rng.choice(["s1", "s3"])
    if rng.random() < 0.15 and "s3" not in m:
        m["s3"] = "s1"
    return m


def run_stmt(rig, eng, spy, build, T, p, m, how, reuse_conn=None):
    """execute; returns (exc_class_name|None, rows|None, sql stream)"""
    sa = rig.sa
    stmt, params, returns = build(sa, T, p)
    mark = spy.mark()
    rows, err = None, None
    e = eng
    try:
        if m is not None and how == "engine":
            e = eng.execution_options(schema_translate_map=m)
        with e.connect() as conn:
            if m is not None and how == "connection":
                conn = conn.execution_options(schema_translate_map=m)
            kw = {}
            if m is not None and how == "statement":
                kw["execution_options"] = {"schema_translate_map": m}
            with conn.begin():
                res = conn.execute(stmt, params, **kw) if params is not None else conn.execute(stmt, **kw)
                if returns:
                    rows = [tuple(r) for r in res.all()]
    except sa.exc.DBAPIError as ex:
        err = type(ex.orig).__name__
    except (sa.exc.InvalidRequestError, sa.exc.StatementError) as ex:
        if isinstance(ex, sa.exc.StatementError) and not isinstance(ex.orig, sa.exc.InvalidRequestError):
            raise
        err = "InvalidRequestError:" + ("consistent-keys" if "consistent keys" in str(ex) else str(ex)[:60])
    except (AssertionError, KeyError, AttributeError, TypeError, IndexError) as ex:
        # compared with the twin's outcome: an internal error only on the translated side is a divergence
        err = "internal:" + type(ex).__name__
    sql = _stream(spy, mark)
    return err, rows, sql


def _stream(spy, mark):
    """(sql, params) handed to the DBAPI; the has_table() introspection PRAGMAs of checkfirst are left
    out (with a None target the dialect probes main+temp instead of the named schema - same answer,
    different probes); their *effect* (table created / skipped / error) is judged by outcome + dumps"""
    return [(ev.sql, _canon(ev.params)) for ev in spy.since(mark, ("execute", "executemany")) if not ev.sql.lstrip().upper().startswith("PRAGMA")]


def _canon(p):
    if isinstance(p, dict):
        return tuple(sorted(p.items()))
    if isinstance(p, (list, tuple)):
        return tuple(_canon(x) if isinstance(x, (list, tuple, dict)) else x for x in p)
    return p


def run_ddl(rig, eng, spy, T, m, how, op, p=None):
    sa = rig.sa
    from sqlalchemy.sql.ddl import CreateTableAs, CreateView, DropView

    mark = spy.mark()
    err = None
    rows = None
    try:
        e = eng.execution_options(schema_translate_map=m) if (m is not None and how != "connection") else eng
        with e.connect() as conn:
            if m is not None and how == "connection":
                conn = conn.execution_options(schema_translate_map=m)
            with conn.begin():
                if op == "create":
                    T["md"].create_all(conn, tables=[T["x"]], checkfirst=True)
                elif op == "create_direct":
                    T["x"].create(conn, checkfirst=False)
                elif op in ("ctas", "view"):
                    # DDL that embeds a SELECT: the created object *and* the tables inside the SELECT
                    # are subject to the map.  (SQLite views may only reference their own database.)
                    t, u = T["t"], T["u"]
                    name = "snap_%d" % p["newid"]
                    if op == "ctas":
                        sel = sa.select(t.c.id, t.c.v, u.c.w).join(u, u.c.tid == t.c.id).where(t.c.id <= p["lim"])
                        el = CreateTableAs(sel, name, schema=t.schema)
                    else:
                        sel = sa.select(t.c.id, t.c.v).where(t.c.id.in_(p["ids"]))
                        el = CreateView(sel, name, schema=t.schema)
                    conn.execute(el)
                    rows = [tuple(r) for r in conn.execute(sa.select(el.table).order_by(el.table.c.id))]
                    if op == "view":
                        # a stored view text with schema-qualified names makes the database file unreadable
                        # for the stand-alone observers: the view lives only inside this step
                        conn.execute(DropView(el.table))
                elif op == "drop":
                    T["md"].drop_all(conn, tables=[T["x"]], checkfirst=True)
                else:
                    T["x"].drop(conn, checkfirst=False)
    except sa.exc.DBAPIError as ex:
        err = type(ex.orig).__name__
    except (sa.exc.InvalidRequestError, sa.exc.StatementError) as ex:
        if isinstance(ex, sa.exc.StatementError) and not isinstance(ex.orig, sa.exc.InvalidRequestError):
            raise
        err = "InvalidRequestError:" + ("consistent-keys" if "consistent keys" in str(ex) else str(ex)[:60])
    except (AssertionError, KeyError, AttributeError, TypeError, IndexError) as ex:
        # compared with the twin's outcome: an internal error only on the translated side is a divergence
        err = "internal:" + type(ex).__name__
    sql = _stream(spy, mark)
    return err, rows, sql


def sequence(ctx, sa, length):
    rng = ctx.rng
    rig = Rig(ctx, sa)
    seen_none = {}   # statement key -> set of None-presence among truthy maps executed OK or attempted
    seen_maps = {}   # statement key -> set of canonical maps already executed (cache populated)
    newid = [1000]
    primed = set()
    try:
        none_mode = rng.random() < 0.5
        shared_maps = {}
        used_maps = []
        # few statement shapes / variants per sequence, so that the same compiled form is met under many maps
        pool_variants = rng.sample(list(VARIANTS), 2)
        pool_builds = rng.sample(SELECTS, 2) + rng.sample(DML, 3)
        for step in range(length):
            if not ctx.budget_ok():
                break
            variant = rng.choice(pool_variants)
            flip = rng.random() < 0.12
            nm = (not none_mode) if flip else none_mode
            if VARIANTS[variant]["t"] is None or VARIANTS[variant]["u"] is None:
                pass
            c = rng.random()
            # an *empty* map ("default tenant") is drawn often at the start of a sequence, so that most
            # statement shapes are first compiled under {} and later met with a real map
            p_empty = 0.5 if step < 4 else 0.08
            if c < p_empty and variant != "L4":
                m = None if (rng.random() < 0.5 and step >= 4) else {}
            else:
                m = draw_map(rng, variant, nm)
                ck = repr(sorted(m.items(), key=repr))
                evolve = rng.random()
                if used_maps and evolve < 0.4:
                    # the map for this execution is derived from a dict that an earlier execution already
                    # used (and that the library may have written to): updated in place, or copied afterwards
                    base = rng.choice(used_maps)
                    if evolve < 0.2:
                        base.update(m)
                        m = base
                        ctx.count("maps_mutated_in_place")
                    else:
                        m = {**base, **m}
                        ctx.count("maps_copied_after_use")
                    if not nm and None in m and rng.random() < 0.7:
                        del m[None]       # (a residue key written by the library may stay behind)
                elif rng.random() < 0.5:
                    m = shared_maps.setdefault(ck, m)  # reuse the very same dict object
                if not any(x is m for x in used_maps):
                    used_maps.append(m)
            # the library writes an alias key "_none" into the caller's dict; a map derived from such a dict
            # *without* the None key still carries it and silently keeps translating schema-less tables
            residue = bool(m) and "_none" in m and None not in m

            def V(mech, msg, d, residue=residue):
                ctx.violation("none-alias-residue-in-user-map" if residue else mech, msg, d)

            how = rng.choice(["connection", "engine", "statement"])
            logical = VARIANTS[variant]
            twin_sch = {k: effective(v, m) for k, v in logical.items()}
            fresh = rng.random() < 0.5
            TL = rig.tabs(logical, fresh=fresh)
            TT = rig.tabs(twin_sch, fresh=True)
            kindc = rng.random()
            p = {"ids": sorted(rng.sample(range(1, 9), rng.randint(1, 4))), "par": rng.randint(0, 1), "lim": rng.randint(1, 5),
                 "val": rng.randint(1, 9) * 10000, "nrows": rng.choice([1, 2, 3, 7]), "newid": newid[0]}
            newid[0] += 10
            before = dump_all(rig.subj_paths)
            if kindc < 0.12:
                op = rng.choice(["create", "create", "create_direct", "drop", "drop_direct", "ctas", "ctas", "view"])
                build = None
                skey = ("ddl", op, variant)
                err_s, rows_s, sql_s = run_ddl(rig, rig.subj, rig.subj_spy, TL, m, how if how != "statement" else "engine", op, p)
                if op in ("ctas", "view"):
                    ctx.count("ddl_with_select_steps")
                ctx.count("ddl_steps")
            else:
                build = rng.choice(pool_builds)
                skey = (build.__name__, variant)
                err_s, rows_s, sql_s = run_stmt(rig, rig.subj, rig.subj_spy, build, TL, p, m, how)
                if build in DML:
                    ctx.count("dml_steps")
                if build in IMV:
                    ctx.count("imv_steps")
            ctx.count("steps")
            desc = {"step": step, "stmt": skey[0], "variant": variant, "map": repr(m), "how": how, "fresh_objects": fresh,
                    "subject_sql": [s for s, _ in sql_s][:3]}
            if any("__[SCHEMA_" in q for q, _ in sql_s):
                # the cached Compiled consults the truthiness of the *caller's* dict it was first compiled
                # with; once that dict was emptied in place the tokens are no longer rendered
                ctx.violation("raw-schema-token-sent-to-database",
                              f"{skey[0]}: map={m!r}: the statement reached the DBAPI with an unrendered __[SCHEMA_x] token", desc)
                return
            has_none = bool(m) and None in m
            if m:
                if has_none:
                    ctx.count("none_key_maps")
            # ---- documented refusal
            if err_s == "InvalidRequestError:consistent-keys":
                prev = seen_none.get(skey, set())
                if m and any(x != has_none for x in prev):
                    ctx.count("refused_inconsistent_none_key")
                    seen_none.setdefault(skey, set()).add(has_none)
                    if dump_all(rig.subj_paths) != before:
                        V("refused-step-changed-database", "a refused execution changed the database", desc)
                    continue
                V("none-key-refusal-without-inconsistency", f"{skey[0]}: refused with 'consistent keys' but no earlier map differed in None-key presence", desc)
                continue
            if m:
                seen_none.setdefault(skey, set()).add(has_none)
            # ---- twin
            if build is None:
                err_t, rows_t, sql_t = run_ddl(rig, rig.twin, rig.twin_spy, TT, None, "engine", op, p)
            else:
                err_t, rows_t, sql_t = run_stmt(rig, rig.twin, rig.twin_spy, build, TT, p, None, "engine")
            desc["twin_sql"] = [s for s, _ in sql_t][:3]
            desc["twin_schemas"] = twin_sch
            mk = repr(sorted((m or {}).items(), key=repr))
            if m and "[]" in seen_maps.get(skey, ()) and skey not in primed:
                primed.add(skey)
                ctx.count("empty_map_then_real_map")
            if seen_maps.get(skey) and mk not in seen_maps[skey] and m:
                ctx.count("cache_hits_other_map")
                nontriv = True
            else:
                nontriv = False
            seen_maps.setdefault(skey, set()).add(mk)
            ctx.case({"k": skey, "m": mk, "seq": rig.tagn, "step": step, "shard": ctx.shard}, nontrivial=nontriv and twin_sch != logical)
            if err_s != err_t:
                V(f"outcome-differs:{skey[0]}", f"subject raised {err_s}, literal-schema twin raised {err_t}; map={m!r}", desc)
                _resync(rig)
                return
            ctx.count("sql_streams_compared")
            if sql_s != sql_t:
                k = next((i for i in range(min(len(sql_s), len(sql_t))) if sql_s[i] != sql_t[i]), min(len(sql_s), len(sql_t)))
                a = sql_s[k] if k < len(sql_s) else None
                b = sql_t[k] if k < len(sql_t) else None
                what = "sql" if (a and b and a[0] != b[0]) else ("params" if a and b else "count")
                V(f"sql-stream-differs:{what}:{skey[0]}", f"map={m!r}: statement {k}: subject {a} != twin {b}", desc)
            if rows_s is not None or rows_t is not None:
                ctx.count("rows_compared")
                srt = (lambda r: r) if build not in (st_update_corr, st_insert_many_sub) else sorted
                if srt(rows_s or []) != srt(rows_t or []):
                    V(f"rows-differ:{skey[0]}", f"map={m!r}: subject rows {rows_s[:3] if rows_s else rows_s} twin rows {rows_t[:3] if rows_t else rows_t}", desc)
                # absolute payload check for the simple shapes
                if build is None and rows_s and twin_sch["t"] is not None:
                    # CREATE TABLE AS / CREATE VIEW: the new object must hold the *target* schema's payload
                    want = CODE[twin_sch["t"]]
                    ctx.count("payload_checks")
                    if any(isinstance(r[1], int) and r[1] < 10000 and r[1] // 1000 != want for r in rows_s):
                        V("ddl-select-payload-from-wrong-schema", f"map={m!r}: created object holds {rows_s[:3]}, expected schema code {want}", desc)
                if build in (st_select_in, st_insert_ret, st_insert_many_ret) and rows_s:
                    if build is st_select_in:
                        want = CODE[twin_sch["t"] or "main"]
                        ctx.count("payload_checks")
                        if any(r[1] // 1000 != want for r in rows_s if isinstance(r[1], int) and r[1] < 10000):
                            V("payload-from-wrong-schema", f"map={m!r}: rows {rows_s[:3]} should carry schema code {want}", desc)
            a, b = dump_all(rig.subj_paths), dump_all(rig.twin_paths)
            ctx.count("dumps_compared")
            if a != before:
                ctx.count("writes_observed")
                changed = [s for s in SCHEMAS if a[s] != before[s]]
                exp_sch = set()
                tgt_qualified = False
                if build is None or build in DML:
                    tgt = "u" if build in (st_insert_u_many, st_delete, st_insert_from_select) else "t"
                    exp_sch = {twin_sch[tgt] or "main"}
                    tgt_qualified = twin_sch[tgt] is not None
                ctx.count("payload_checks")
                # an unqualified name is resolved by SQLite's own search order (main, then attached): only
                # schema-qualified targets have a generator-known destination
                if tgt_qualified and set(changed) - exp_sch:
                    V(f"write-landed-in-wrong-schema:{skey[0]}", f"map={m!r}: schemas changed {changed}, expected only {sorted(exp_sch)}", desc)
            if a != b:
                diff = [s for s in SCHEMAS if a[s] != b[s]]
                V(f"database-state-differs:{skey[0]}", f"map={m!r}: schemas {diff} differ between subject and literal-schema twin", desc)
                _resync(rig)
                return
    finally:
        rig.close()


def _resync(rig):
    """after a divergence the two databases can no longer be compared: end the sequence"""
    return


def run(ctx):
    import warnings

    import sqlalchemy as sa

    warnings.simplefilter("ignore", sa.exc.SAWarning)
    nseq = ctx.pick({"quick": 14, "thorough": 90})
    length = ctx.pick({"quick": 9, "thorough": 24})
    for k in range(nseq):
        if not ctx.budget_ok():
            break
        sequence(ctx, sa, length)
        if k == 0:
            ctx.sample({"sequence_length": length, "variants": list(VARIANTS)})
