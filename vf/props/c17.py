"""C17 -- lambda statements never reuse stale closure values.

A family of lambda *templates* (``lambda_stmt`` + added criteria, inline ``where(lambda)``,
``with_loader_criteria`` lambdas, closures over scalars, strings, dates, lists for
``in_``, columns, tables, entities / aliased entities, lists of columns, ``None``,
object attributes with ``track_closure_variables=False``, ``track_on``, module globals,
DML) is invoked in long, randomly interleaved sequences with closure values that change
in value *and* in SQL-structure-relevant ways (which column / table / entity, list
length, None vs value).  In the same iteration the equivalent statement is built
directly from the current closure values (the *twin*).

Monitors / oracle:
* both are executed on SQLite through a DBAPI spy: the lambda on an engine with a warm
  compiled cache (plus the process-wide lambda cache), the twin on an engine whose cache
  is disabled.  ``(sql text, positional parameters)`` at the DBAPI boundary and the
  fetched rows must be equal.  (qmark paramstyle makes the comparison independent of the
  bind *names*, which legitimately differ: ``v_1`` vs ``x_1``.)
* both are compiled with ``render_postcompile`` on postgresql(format), mysql(format) and
  mssql(qmark); SQL text and positional parameter lists must be equal.

Guards:
* a lambda SQLAlchemy rejects with InvalidRequestError / ArgumentError (uncacheable
  closure variable, function call inside the lambda ...) is *held* (counted).
* closure values ``True`` / ``False``: the direct form renders boolean constants inline
  (``flag = 1``) while the lambda binds them, as the property's second clause allows
  ("literal closure values become fresh bound parameters"); for those invocations rows
  are compared, SQL text is not.
* templates never compute Python expressions on closure values inside the lambda (the
  documentation forbids it; there is no single "equivalent" statement for those).
* DML runs in a transaction that is rolled back.
* closure values have the Python type of the column they are compared with (a float for a Float column):
  the direct form types a bind from the *value* (``f > 5`` gives an Integer bind, ``::INTEGER`` on
  PostgreSQL) while the lambda form types it from the column, which is not a staleness question.
* LIMIT/OFFSET closures are not compared on MSSQL: the lambda form binds the value as a
  generic parameter, the direct form as a "simple integer" limit which MSSQL renders as
  ``TOP n`` (same rows, legitimately different text).

Candidate genuine defect reported on the unchanged tree: ``none-closure-value-bound-as-parameter``
(a closure value of None is bound as a parameter: ``y = ?`` [None] instead of ``y IS NULL``,
``LIMIT ?`` [None] instead of no LIMIT); proposed patch in selftest/C17/proposed_fix_gb.patch.txt.
"""
from __future__ import annotations

import collections
import datetime
import decimal

META = {
    "id": "C17",
    "level": "exploration",
    "technique": "differential execution: each lambda invocation vs. its directly-built twin, at the DBAPI boundary (spy) and on rows, over long interleaved invocation histories",
    "level_text": "~30 lambda templates x long random invocation sequences with changing closure values; every invocation is compared with a freshly built non-lambda twin (SQL + parameters + rows on SQLite, SQL + parameters on three more dialects).",
    "level_note": "Only SQLite executes. The lambda cache and AnalyzedCode registry are process-wide: each shard is its own history. Templates are hand-written (code objects are the cache keys), the sequences and values are random. Lambda shapes outside the templates are not covered.",
    "design_ref": "DESIGN.md section 4, C17",
    "rule": "case = one invocation of one template; non-trivial = the template had been invoked before with a different value at some closure slot (so a stale value would be visible); distinct by (template, closure values)",
    "shards": {"quick": 8, "thorough": 16},
    "modes": ["cext"],
    "soft_s": {"quick": 90, "thorough": 600},
    "exhaustive": {"quick": False, "thorough": False},
    "require": ["invocations_compared", "invocations_after_value_change", "structure_changes", "lambda_cache_reuses", "rows_compared_nonempty"],
    "assumptions": ["the directly built statement executed without compiled cache is the reference"],
}

G_VAL = 7  # module global read by one template


def run(ctx):
    import warnings

    import sqlalchemy as sa
    from sqlalchemy import exc as sa_exc
    from sqlalchemy import lambda_stmt, orm, select
    from sqlalchemy.dialects import mssql, mysql, postgresql
    from sqlalchemy.pool import StaticPool

    warnings.simplefilter("ignore", sa_exc.SAWarning)
    from vf.gen import stmt_gb as G
    from vf.mon.dbapi_spy import Spy

    env = G.make_env()
    ta, tb, tc = env.tables["a"], env.tables["b"], env.tables["c"]
    A, B, C = env.entities["A"], env.entities["B"], env.entities["C"]
    A1 = orm.aliased(A, name="a_1")
    rng = ctx.rng
    # plain functions as closure variables are tracked by their code object; module objects (sa, orm) are not cacheable
    update, delete, case, selectinload = sa.update, sa.delete, sa.case, orm.selectinload

    # ------------------------------------------------------------------ value sources
    def ival():
        return rng.randint(-2, 45)

    def sval():
        return rng.choice(G.WORDS)

    class Obj:
        pass

    # ------------------------------------------------------------------ templates
    # each: name -> (gen_values(prev) -> dict, make(vals) -> (lambda_stmt, twin), flags)
    T = {}

    def template(name, orm_=False, dml=False):
        def deco(fn):
            T[name] = {"fn": fn, "orm": orm_, "dml": dml}
            return fn
        return deco

    @template("eq_scalar")
    def _(v=None):
        v = ival() if v is None else v
        return {"v": v}, lambda_stmt(lambda: select(ta).where(ta.c.x != v)), select(ta).where(ta.c.x != v)

    @template("two_links")
    def _():
        v, w = ival(), ival()
        s = lambda_stmt(lambda: select(ta.c.id, ta.c.x))
        s += lambda s_: s_.where(ta.c.x > v)
        s += lambda s_: s_.where(ta.c.y < w).order_by(ta.c.id)
        return {"v": v, "w": w}, s, select(ta.c.id, ta.c.x).where(ta.c.x > v).where(ta.c.y < w).order_by(ta.c.id)

    @template("in_list")
    def _():
        vals = [ival() for _ in range(rng.choice([0, 1, 2, 3, 5]))]
        return {"vals": vals}, lambda_stmt(lambda: select(tb.c.id).where(tb.c.q.in_(vals))), select(tb.c.id).where(tb.c.q.in_(vals))

    @template("not_in_list_plus_scalar")
    def _():
        vals = [ival() for _ in range(rng.choice([1, 2, 4]))]
        v = ival()
        s = lambda_stmt(lambda: select(tb.c.id, tb.c.q).where(tb.c.q.not_in(vals)))
        s += lambda s_: s_.where(tb.c.id > v)
        return {"vals": vals, "v": v}, s, select(tb.c.id, tb.c.q).where(tb.c.q.not_in(vals)).where(tb.c.id > v)

    @template("column_closure")
    def _():
        col = rng.choice([ta.c.x, ta.c.y, ta.c.id])
        v = ival()
        return ({"col": col.name, "v": v}, lambda_stmt(lambda: select(ta.c.id).where(col > v)),
                select(ta.c.id).where(col > v))

    @template("table_closure")
    def _():
        tab = rng.choice([ta, tb, tc])
        v = ival()
        return ({"tab": tab.name, "v": v}, lambda_stmt(lambda: select(tab.c.id).where(tab.c.id != v)),
                select(tab.c.id).where(tab.c.id != v))

    @template("column_list_closure")
    def _():
        cols = rng.choice([[ta.c.id], [ta.c.id, ta.c.x], [ta.c.x, ta.c.id], [ta.c.y, ta.c.s, ta.c.id]])
        v = ival()
        s = lambda_stmt(lambda: select(*cols))
        s += lambda s_: s_.where(ta.c.id < v)
        return {"cols": [c.name for c in cols], "v": v}, s, select(*cols).where(ta.c.id < v)

    @template("none_or_value")
    def _():
        v = rng.choice([None, ival(), ival()])
        return {"v": v}, lambda_stmt(lambda: select(ta.c.id).where(ta.c.y == v)), select(ta.c.id).where(ta.c.y == v)

    @template("is_distinct_none_or_value")
    def _():
        v = rng.choice([None, ival()])
        return ({"v": v}, lambda_stmt(lambda: select(ta.c.id).where(ta.c.y.is_distinct_from(v))),
                select(ta.c.id).where(ta.c.y.is_distinct_from(v)))

    @template("limit_closure")
    def _():
        n = rng.randint(1, 9)
        o = rng.randint(0, 5)
        return ({"n": n, "o": o}, lambda_stmt(lambda: select(tb.c.id).order_by(tb.c.id).limit(n).offset(o)),
                select(tb.c.id).order_by(tb.c.id).limit(n).offset(o))

    @template("limit_none_or_value")
    def _():
        n = rng.choice([None, rng.randint(1, 9)])
        return ({"n": n}, lambda_stmt(lambda: select(tb.c.id).order_by(tb.c.id).limit(n)),
                select(tb.c.id).order_by(tb.c.id).limit(n))

    @template("arith_in_columns")
    def _():
        a, b = ival(), ival()
        return ({"a": a, "b": b}, lambda_stmt(lambda: select(ta.c.id, ta.c.x + a, ta.c.id * b).where(ta.c.x + a > b)),
                select(ta.c.id, ta.c.x + a, ta.c.id * b).where(ta.c.x + a > b))

    @template("string_ops")
    def _():
        p, q = sval()[:1], sval()
        return ({"p": p, "q": q},
                lambda_stmt(lambda: select(ta.c.id, ta.c.s + q).where(ta.c.s.startswith(p) | (ta.c.s == q))),
                select(ta.c.id, ta.c.s + q).where(ta.c.s.startswith(p) | (ta.c.s == q)))

    @template("like_closure")
    def _():
        p = sval()[:2] + "%"
        return {"p": p}, lambda_stmt(lambda: select(tb.c.id).where(tb.c.t.like(p))), select(tb.c.id).where(tb.c.t.like(p))

    @template("between_closure")
    def _():
        lo, hi = sorted([ival(), ival()])
        return ({"lo": lo, "hi": hi}, lambda_stmt(lambda: select(tb.c.id).where(tb.c.q.between(lo, hi))),
                select(tb.c.id).where(tb.c.q.between(lo, hi)))

    @template("same_value_twice")
    def _():
        v = ival()
        return ({"v": v}, lambda_stmt(lambda: select(ta.c.id).where((ta.c.x > v) | (ta.c.y > v))),
                select(ta.c.id).where((ta.c.x > v) | (ta.c.y > v)))

    @template("date_decimal")
    def _():
        d = datetime.date(2020, rng.randint(1, 12), rng.randint(1, 27))
        n = decimal.Decimal(rng.randint(0, 900)) / 100
        return ({"d": d, "n": n}, lambda_stmt(lambda: select(tc.c.id).where(tc.c.d > d).where(tc.c.n < n)),
                select(tc.c.id).where(tc.c.d > d).where(tc.c.n < n))

    @template("case_closure")
    def _():
        a, b, c = ival(), ival(), ival()
        return ({"a": a, "b": b, "c": c},
                lambda_stmt(lambda: select(ta.c.id, case((ta.c.x > a, b), else_=c))),
                select(ta.c.id, sa.case((ta.c.x > a, b), else_=c)))

    @template("inline_where_lambda")
    def _():
        v = ival()
        return {"v": v}, select(ta.c.id).where(lambda: ta.c.x < v), select(ta.c.id).where(ta.c.x < v)

    @template("inline_where_lambda_column")
    def _():
        col = rng.choice([tb.c.q, tb.c.id, tb.c.a_id])
        v = ival()
        return {"col": col.name, "v": v}, select(tb.c.id).where(lambda: col >= v), select(tb.c.id).where(col >= v)

    @template("object_attr_untracked")
    def _():
        o = Obj()
        o.val, o.other = ival(), ival()
        s = lambda_stmt(lambda: select(ta.c.id).where(ta.c.x != o.val).where(ta.c.y != o.other), track_closure_variables=False)
        return {"val": o.val, "other": o.other}, s, select(ta.c.id).where(ta.c.x != o.val).where(ta.c.y != o.other)

    @template("object_attr_tracked")  # documented to be rejected (uncacheable closure variable)
    def _():
        o = Obj()
        o.val = ival()
        return {"val": o.val}, lambda_stmt(lambda: select(ta.c.id).where(ta.c.x != o.val)), select(ta.c.id).where(ta.c.x != o.val)

    @template("track_on")
    def _():
        col = rng.choice([ta.c.x, ta.c.y])
        v = ival()
        s = lambda_stmt(lambda: select(ta.c.id))
        s = s.add_criteria(lambda s_: s_.where(col > v), track_on=[col])
        return {"col": col.name, "v": v}, s, select(ta.c.id).where(col > v)

    @template("global_value")
    def _():
        global G_VAL
        G_VAL = ival()
        return {"g": G_VAL}, lambda_stmt(lambda: select(ta.c.id).where(ta.c.x > G_VAL)), select(ta.c.id).where(ta.c.x > G_VAL)

    @template("function_call_inside")  # documented to be rejected
    def _():
        v = ival()

        def get():
            return v

        return {"v": v}, lambda_stmt(lambda: select(ta.c.id).where(ta.c.x > get())), select(ta.c.id).where(ta.c.x > v)

    @template("bool_closure")
    def _():
        b = rng.choice([True, False])
        v = ival()
        return ({"b": b, "v": v}, lambda_stmt(lambda: select(ta.c.id).where(ta.c.flag == b).where(ta.c.id != v)),
                select(ta.c.id).where(ta.c.flag == b).where(ta.c.id != v))

    @template("join_closure")
    def _():
        v, w = ival(), ival()
        s = lambda_stmt(lambda: select(ta.c.id, tb.c.id).join_from(ta, tb, ta.c.id == tb.c.a_id))
        s += lambda s_: s_.where(ta.c.x > v, tb.c.q != w)
        return ({"v": v, "w": w}, s,
                select(ta.c.id, tb.c.id).join_from(ta, tb, ta.c.id == tb.c.a_id).where(ta.c.x > v, tb.c.q != w))

    @template("subquery_closure")
    def _():
        v, w = ival(), ival()
        return ({"v": v, "w": w},
                lambda_stmt(lambda: select(ta.c.id).where(ta.c.id.in_(select(tb.c.a_id).where(tb.c.q > v))).where(ta.c.x != w)),
                select(ta.c.id).where(ta.c.id.in_(select(tb.c.a_id).where(tb.c.q > v))).where(ta.c.x != w))

    @template("prebuilt_criterion_closure")
    def _():
        v, w = ival(), ival()
        crit = ta.c.x > v          # SQL element with its own bound value, built outside the lambda
        s = lambda_stmt(lambda: select(ta.c.id).where(crit))
        s += lambda s_: s_.where(ta.c.y != w)
        return {"v": v, "w": w}, s, select(ta.c.id).where(crit).where(ta.c.y != w)

    @template("prebuilt_subquery_closure")
    def _():
        v, w = ival(), ival()
        sq = select(tb.c.a_id).where(tb.c.q > v).scalar_subquery()
        col = rng.choice([ta.c.id, ta.c.x])
        return ({"v": v, "w": w, "col": col.name},
                lambda_stmt(lambda: select(ta.c.id).where(col.in_(sq)).where(ta.c.y != w)),
                select(ta.c.id).where(col.in_(sq)).where(ta.c.y != w))

    @template("prebuilt_criteria_list_closure")
    def _():
        vs = [ival() for _ in range(rng.choice([1, 2, 3]))]
        crits = [ta.c.x != x for x in vs]
        return ({"vals": vs}, lambda_stmt(lambda: select(ta.c.id).where(*crits)), select(ta.c.id).where(*crits))

    # -- chains of 3+ links built from *shared* link functions on top of different roots.  The roots close over
    #    the same objects (identical closure keys): only their code objects tell them apart.
    def shared_tail(s, v):
        s += lambda s_: s_.where(ta.c.id > v)
        s += lambda s_: s_.order_by(ta.c.id)
        return s

    def shared_tail4(s, v, w):
        s += lambda s_: s_.where(ta.c.id > v)
        s += lambda s_: s_.where(ta.c.id != w)
        s += lambda s_: s_.order_by(ta.c.id.desc())
        return s

    @template("three_links_shared_tail_roots")
    def _():
        v = ival()
        which = rng.randrange(3)
        if which == 0:
            root, direct = lambda_stmt(lambda: select(ta.c.id, ta.c.x)), select(ta.c.id, ta.c.x)
        elif which == 1:
            root, direct = lambda_stmt(lambda: select(ta.c.id, ta.c.y)), select(ta.c.id, ta.c.y)
        else:
            root, direct = lambda_stmt(lambda: select(ta.c.s, ta.c.id).where(ta.c.flag.is_not(None))), \
                select(ta.c.s, ta.c.id).where(ta.c.flag.is_not(None))
        return {"root": which, "v": v}, shared_tail(root, v), direct.where(ta.c.id > v).order_by(ta.c.id)

    @template("four_links_shared_tail_roots")
    def _():
        v, w = ival(), ival()
        which = rng.randrange(2)
        if which == 0:
            root, direct = lambda_stmt(lambda: select(ta.c.id)), select(ta.c.id)
        else:
            root, direct = lambda_stmt(lambda: select(ta.c.id, ta.c.f)), select(ta.c.id, ta.c.f)
        # roots differ two and three levels above the last link
        return ({"root": which, "v": v, "w": w}, shared_tail4(root, v, w),
                direct.where(ta.c.id > v).where(ta.c.id != w).order_by(ta.c.id.desc()))

    @template("shared_tail_middle_differs")
    def _():
        v = ival()
        which = rng.randrange(2)
        s = lambda_stmt(lambda: select(ta.c.id, ta.c.x))
        if which == 0:
            s += lambda s_: s_.where(ta.c.x.is_not(None))
            direct = select(ta.c.id, ta.c.x).where(ta.c.x.is_not(None))
        else:
            s += lambda s_: s_.where(ta.c.y.is_not(None))
            direct = select(ta.c.id, ta.c.x).where(ta.c.y.is_not(None))
        return {"mid": which, "v": v}, shared_tail(s, v), direct.where(ta.c.id > v).order_by(ta.c.id)

    # -- a track_on link followed by links whose SQL-construct closure variables vary
    @template("track_on_then_column_link")
    def _():
        col = rng.choice([ta.c.x, ta.c.y, ta.c.id])
        v, w = ival(), ival() + 0.5   # a float for the Float column (see guards)
        s = lambda_stmt(lambda: select(ta.c.id))
        s = s.add_criteria(lambda s_: s_.where(ta.c.f > w), track_on=[ta.c.f])
        s += lambda s_: s_.where(col != v)
        return {"col": col.name, "v": v, "w": w}, s, select(ta.c.id).where(ta.c.f > w).where(col != v)

    @template("track_on_then_table_and_column_links")
    def _():
        tab = rng.choice([tb, tc])
        col = rng.choice([ta.c.x, ta.c.y])
        v = ival()
        s = lambda_stmt(lambda: select(ta.c.id))
        s = s.add_criteria(lambda s_: s_.where(col > v), track_on=[col])
        s = s.add_criteria(lambda s_: s_.where(ta.c.id.in_(select(tab.c.id))))
        s += lambda s_: s_.order_by(ta.c.id)
        return ({"tab": tab.name, "col": col.name, "v": v}, s,
                select(ta.c.id).where(col > v).where(ta.c.id.in_(select(tab.c.id))).order_by(ta.c.id))

    # -- one closure variable used in the same lambda both as a literal value itself and through .attr / [index] paths
    class IntWithExtra(int):
        """an int (usable as a bound value as it is) that also carries an attribute"""

    @template("date_and_its_attributes")
    def _():
        day = datetime.date(2020, rng.randint(1, 12), rng.randint(1, 27))
        return ({"day": day},
                lambda_stmt(lambda: select(tc.c.id).where(tc.c.d >= day).where(tc.c.id != day.month).where(tc.c.b_id != day.day)),
                select(tc.c.id).where(tc.c.d >= day).where(tc.c.id != day.month).where(tc.c.b_id != day.day))

    @template("attribute_first_then_whole_value")
    def _():
        day = datetime.date(2020, rng.randint(1, 12), rng.randint(1, 27))
        s = lambda_stmt(lambda: select(tc.c.id).where(tc.c.b_id > day.day))
        s += lambda s_: s_.where(tc.c.d != day).where(tc.c.id >= day.month)
        return {"day": day}, s, select(tc.c.id).where(tc.c.b_id > day.day).where(tc.c.d != day).where(tc.c.id >= day.month)

    @template("int_subclass_and_its_attribute")
    def _():
        obj = IntWithExtra(ival())
        obj.extra = ival()
        return ({"obj": int(obj), "extra": obj.extra},
                lambda_stmt(lambda: select(ta.c.id).where(ta.c.x != obj).where(ta.c.y != obj.extra)),
                select(ta.c.id).where(ta.c.x != int(obj)).where(ta.c.y != obj.extra))

    Triple = collections.namedtuple("Triple", "first second third")

    @template("namedtuple_whole_and_by_field")
    def _():
        nt = Triple(ival(), ival(), ival())
        return ({"nt": list(nt)},
                lambda_stmt(lambda: select(tb.c.id).where(tb.c.q.not_in(nt)).where(tb.c.id != nt.first).where(tb.c.a_id != nt.third)),
                select(tb.c.id).where(tb.c.q.not_in(nt)).where(tb.c.id != nt.first).where(tb.c.a_id != nt.third))

    @template("dict_items_by_key")
    def _():
        d = {"lo": ival(), "hi": ival(), "vals": [ival(), ival()]}
        s = lambda_stmt(lambda: select(tb.c.id).where(tb.c.q != d["lo"]), track_closure_variables=False)
        s = s.add_criteria(lambda s_: s_.where(tb.c.id != d["hi"]).where(tb.c.a_id.not_in(d["vals"])), track_closure_variables=False)
        return ({"d": d}, s, select(tb.c.id).where(tb.c.q != d["lo"]).where(tb.c.id != d["hi"]).where(tb.c.a_id.not_in(d["vals"])))

    # -- ORM loader option chains: relationship criteria with a closure value at any level of the chain, not
    #    necessarily on its last element; every loader strategy; plain criteria and lambda criteria; the statement
    #    as such and wrapped in lambda_stmt
    loaders = {"selectinload": orm.selectinload, "lazyload": orm.lazyload, "joinedload": orm.joinedload,
               "subqueryload": orm.subqueryload, "immediateload": orm.immediateload}

    chain_shapes = []

    @template("orm_loader_chain_criteria", orm_=True)
    def _():
        val, w = ival(), rng.randint(3, 12)
        if not chain_shapes:
            # a handful of chain shapes per history, so that each shape is invoked again and again with new values
            for _ in range(8):
                chain_shapes.append((rng.choice(sorted(loaders)), rng.choice(sorted(loaders)), rng.choice([1, 2, 2]),
                                     rng.choice(["expr", "lambda"]), rng.choice(["none", "selectinload", "joinedload", "load_only", "defer"]),
                                     rng.choice(["plain", "plain", "lambda_stmt"])))
        # s1/s2: loader strategy per level; pos: level that carries the criteria; tail: what follows the criteria
        s1, s2, pos, form, tail, wrap = rng.choice(chain_shapes)

        def build(wrap):
            def crit(rel, col):
                return rel.and_(col >= val) if form == "expr" else rel.and_(lambda: col >= val)
            first = crit(A.bs, B.q) if pos == 1 else A.bs
            second = crit(B.cs, C.id) if pos == 2 else B.cs
            opt = getattr(loaders[s1](first), s2)(second)
            if tail in ("selectinload", "joinedload"):
                opt = getattr(opt, tail)(C.b)
            elif tail == "load_only":
                opt = opt.load_only(C.u)
            elif tail == "defer":
                opt = opt.defer(C.n)
            if wrap == "plain":
                return select(A).options(opt).where(A.id < w).order_by(A.id)
            st = lambda_stmt(lambda: select(A).options(opt))
            st += lambda s_: s_.where(A.id < w).order_by(A.id)
            return st
        # the direct twin is always the plain select(), executed without a compiled cache
        return ({"s1": s1, "s2": s2, "pos": pos, "form": form, "tail": tail, "wrap": wrap, "val": val, "w": w}, build(wrap), build("plain"))

    @template("update_lambda", dml=True)
    def _():
        v, w = ival(), ival()
        return ({"v": v, "w": w},
                lambda_stmt(lambda: update(tb).where(tb.c.q > v).values(q=w).returning(tb.c.id, tb.c.q)),
                sa.update(tb).where(tb.c.q > v).values(q=w).returning(tb.c.id, tb.c.q))

    @template("delete_lambda", dml=True)
    def _():
        v = ival()
        return ({"v": v}, lambda_stmt(lambda: delete(tc).where(tc.c.id > v).returning(tc.c.id)),
                sa.delete(tc).where(tc.c.id > v).returning(tc.c.id))

    @template("orm_entity", orm_=True)
    def _():
        v = ival()
        s = lambda_stmt(lambda: select(A))
        s += lambda s_: s_.where(A.x > v).order_by(A.id)
        return {"v": v}, s, select(A).where(A.x > v).order_by(A.id)

    @template("orm_entity_closure", orm_=True)
    def _():
        ent = rng.choice([A, A1])
        v = ival()
        return ({"ent": "A" if ent is A else "A1", "v": v}, lambda_stmt(lambda: select(ent).where(ent.x != v).order_by(ent.id)),
                select(ent).where(ent.x != v).order_by(ent.id))

    @template("orm_selectinload", orm_=True)
    def _():
        v = ival()
        s = lambda_stmt(lambda: select(A).options(selectinload(A.bs)))
        s += lambda s_: s_.where(A.id < v).order_by(A.id)
        return {"v": v}, s, select(A).options(orm.selectinload(A.bs)).where(A.id < v).order_by(A.id)

    @template("orm_loader_criteria_lambda", orm_=True)
    def _():
        v, w = ival(), ival()
        return ({"v": v, "w": w},
                select(A).options(orm.selectinload(A.bs), orm.with_loader_criteria(B, lambda cls: cls.q > v)).where(A.id < w).order_by(A.id),
                select(A).options(orm.selectinload(A.bs), orm.with_loader_criteria(B, B.q > v)).where(A.id < w).order_by(A.id))

    @template("orm_loader_criteria_lambda_in", orm_=True)
    def _():
        vals = [ival() for _ in range(rng.choice([1, 2, 3]))]
        return ({"vals": vals},
                select(B).options(orm.with_loader_criteria(B, lambda cls: cls.q.not_in(vals))).order_by(B.id),
                select(B).options(orm.with_loader_criteria(B, B.q.not_in(vals))).order_by(B.id))

    # ------------------------------------------------------------------ engines
    path = ctx.tmppath(".db")
    e0 = sa.create_engine("sqlite:///" + path)
    G.create_and_seed(env, e0)
    e0.dispose()
    spy_l, spy_d = Spy(), Spy()
    eng_l = spy_l.engine(path, poolclass=StaticPool)
    eng_d0 = spy_d.engine(path, poolclass=StaticPool)
    eng_d = eng_d0.execution_options(compiled_cache=None)
    for e, sp in ((eng_l, spy_l), (eng_d0, spy_d)):
        with e.connect():
            pass
        sp.clear()
    others = {"postgresql": postgresql.dialect(paramstyle="format"), "mysql": mysql.dialect(), "mssql": mssql.dialect(paramstyle="qmark")}

    def graph(v):
        """entity -> (class, id, loaded/lazy-loaded collections two levels deep), by plain attribute access"""
        if type(v).__name__ == "A" and not sa.inspect(v).mapper.class_ is A1:
            try:
                return ("A", v.id, tuple((b.id, tuple(c.id for c in b.cs)) for b in v.bs))
            except sa_exc.InvalidRequestError:
                return ("A", v.id, "raise")
        return None

    def norm(v):
        st = getattr(v, "_sa_instance_state", None)
        if st is not None and GRAPH[0]:
            g_ = graph(v)
            if g_ is not None:
                return g_
        if st is not None:
            d = {k: x for k, x in st.dict.items() if not k.startswith("_")}
            out = []
            for k in sorted(d):
                x = d[k]
                if isinstance(x, list):
                    out.append((k, tuple(sorted(repr(getattr(y, "id", y)) for y in x))))
                elif getattr(x, "_sa_instance_state", None) is not None:
                    out.append((k, repr(getattr(x, "id", None))))
                else:
                    out.append((k, repr(x)))
            return (type(v).__name__, tuple(out))
        return v

    GRAPH = [False]

    def execute(engine, spy, stmt, is_orm, ordered):
        mark = spy.mark()
        try:
            if is_orm:
                with orm.Session(engine) as s:
                    rows = [tuple(norm(v) for v in row) for row in s.execute(stmt).unique().all()]
                    s.rollback()
            else:
                with engine.connect() as conn:
                    res = conn.execute(stmt)
                    rows = [tuple(r) for r in res.fetchall()] if res.returns_rows else [("rowcount", res.rowcount)]
                    conn.rollback()
            rr = [repr(r) for r in rows]
            outcome = ("rows", rr if ordered else sorted(rr))
        except sa_exc.DBAPIError as e:
            outcome = ("dbapi-error", type(e.orig).__name__)
        stream = [(ev.sql, tuple(ev.params) if isinstance(ev.params, (list, tuple)) else ev.params)
                  for ev in spy.since(mark, kinds=("execute", "executemany"))]
        spy.clear()
        return outcome, stream

    def compiled_sig(stmt, d):
        try:
            c = stmt.compile(dialect=d, compile_kwargs={"render_postcompile": True})
            pos = c.positiontup
            params = c.params
            return (str(c), [repr(params[k]) for k in pos] if pos is not None else sorted((k, repr(v)) for k, v in params.items()))
        except (sa_exc.CompileError, sa_exc.InvalidRequestError, NotImplementedError) as e:
            return ("EXC", type(e).__name__)

    # ------------------------------------------------------------------ histories
    names = sorted(T)
    ninv = ctx.pick({"quick": 700, "thorough": 12000})
    prev = {}      # template -> last values dict
    seen_struct = {}
    from sqlalchemy.sql import lambdas as _lm

    try:
        for it in range(ninv):
            if not ctx.budget_ok():
                break
            name = rng.choice(names)
            t = T[name]
            try:
                vals, lam, twin = t["fn"]()
            except (sa_exc.InvalidRequestError, sa_exc.ArgumentError) as e:
                ctx.count("rejected_by_library")
                ctx.seen("rejected_templates", name)
                ctx.case({"t": name, "rejected": type(e).__name__}, nontrivial=False)
                continue
            has_none = any(v is None for v in vals.values())
            has_bool = any(isinstance(v, bool) for v in vals.values())
            struct_keys = {k: v for k, v in vals.items() if k in ("col", "tab", "cols", "ent", "root", "mid", "s1", "s2", "pos", "form", "tail", "wrap") or v is None or isinstance(v, list) and k == "vals" and False}
            struct = repr(sorted(struct_keys.items())) + (":len%d" % len(vals["vals"]) if "vals" in vals else "")
            p = prev.get(name)
            changed = p is not None and any(p.get(k) != v for k, v in vals.items())
            if changed:
                ctx.count("invocations_after_value_change")
            if p is not None and seen_struct.get(name) != struct:
                ctx.count("structure_changes")
            seen_struct[name] = struct
            prev[name] = vals
            size0 = len(_lm._closure_per_cache_key)
            try:
                GRAPH[0] = name == "orm_loader_chain_criteria"
                out_l = execute(eng_l, spy_l, lam, t["orm"], ordered=True)
            except (sa_exc.InvalidRequestError, sa_exc.ArgumentError) as e:
                ctx.count("rejected_by_library")
                ctx.seen("rejected_templates", name)
                ctx.case({"t": name, "rejected": type(e).__name__}, nontrivial=False)
                continue
            if len(_lm._closure_per_cache_key) == size0 and p is not None:
                ctx.count("lambda_cache_reuses")
            out_d = execute(eng_d, spy_d, twin, t["orm"], ordered=True)
            ctx.count("invocations_compared")
            ctx.seen("templates_compared", name)
            (res_l, str_l), (res_d, str_d) = out_l, out_d
            if res_d[0] == "rows" and res_d[1] and res_d[1] != ["('rowcount', 0)"]:
                ctx.count("rows_compared_nonempty")
            what = None
            if not has_bool and [s for s, _ in str_l] != [s for s, _ in str_d]:
                what = "sql"
            elif not has_bool and str_l != str_d:
                what = "params"
            elif res_l != res_d:
                what = "rows"
            if what is None and not has_bool:
                for dn, d in others.items():
                    if dn == "mssql" and name.startswith("limit_"):
                        # a LIMIT taken from a closure is a generic bound parameter, not the "simple integer"
                        # the direct form gives; MSSQL renders TOP n only for the latter (same rows, other text)
                        continue
                    a, b = compiled_sig(lam, d), compiled_sig(twin, d)
                    ctx.count("cross_dialect_compares")
                    if a != b:
                        what = "sql-" + dn if a[0] != b[0] else "params-" + dn
                        str_l, str_d = a, b
                        break
            if what is not None:
                if has_none:
                    mech = "none-closure-value-bound-as-parameter"
                elif name == "orm_loader_chain_criteria" and vals.get("wrap") == "lambda_stmt":
                    # a loader option carrying criteria with their own bound value, held in the closure of a
                    # lambda_stmt that has further links with literals
                    mech = "lambda-differs-from-direct:loader-criteria-option-in-lambda_stmt-closure"
                else:
                    mech = f"lambda-differs-from-direct:{name}:{what.split('-')[0]}"
                ctx.violation(
                    mech,
                    f"template {name}, closure values {vals!r} (previous {p!r}): {what} differ; lambda -> {str_l!r:.400} {res_l!r:.200}; "
                    f"direct -> {str_d!r:.400} {res_d!r:.200}",
                    {"template": name, "values": vals, "previous_values": p, "what": what,
                     "lambda": {"stream": str_l, "result": res_l}, "direct": {"stream": str_d, "result": res_d}})
            ctx.case({"t": name, "v": vals}, nontrivial=changed)
            if it < 400 and it % 100 == 7:
                ctx.sample({"template": name, "values": vals, "stream": str_l[:2], "rows": res_l[1][:3] if res_l[0] == "rows" else res_l})
    finally:
        eng_l.dispose()
        eng_d0.dispose()
