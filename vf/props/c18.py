"""C18 -- LIMIT/OFFSET and their dialect emulations return exactly the requested slice.

Every case is an *ordered* query whose ORDER BY ends in a unique key (so the slice is
well defined), plus a limit / offset pair.  The reference is computed from the rows of
the same query without any row limiting, executed on SQLite:
``expected = full[offset:][:limit]``.

Judged forms
  native     the statement executed by the SQLite dialect (LIMIT / OFFSET as int, bound
             parameter and SQL expression; nested limited subqueries; UNION ALL) - exact
             list equality, order included.
  structure  MSSQL ``ROW_NUMBER()`` emulation (server < 2012): a wrapper around the live
             ``MSSQLCompiler.translate_select_structure`` captures the *translated Select
             structure* while the MSSQL compiler runs; that structure is executed on
             SQLite 3.40 (window functions) by a SQLite compiler subclass that - exactly
             like the MSSQL compiler - renders no row limiting for the inner select that
             carries the ``_mssql_visit`` marker.  The outer query of the wrapper has no
             ORDER BY, so rows are compared as a multiset.
  text       the SQL text each dialect renders (``literal_binds``) executed on SQLite
             where a *sound* translation exists: MSSQL ROW_NUMBER text, PostgreSQL
             ``LIMIT n OFFSET m`` and MySQL ``LIMIT o, n`` are SQLite syntax already;
             a leading ``SELECT [DISTINCT] TOP n`` and a trailing ``OFFSET x ROWS
             [FETCH FIRST n ROWS ONLY]`` (MSSQL 2012+, Oracle 12c+, PostgreSQL fetch())
             of the *outermost* select are rewritten to ``LIMIT n OFFSET x``.  Anything
             else (WITH TIES, PERCENT, row limiting left inside a subquery, a text SQLite
             cannot parse) is counted as ``text_forms_untranslatable`` = inconclusive for
             that case, never a violation.

  chains     2-4 chained ``offset() / limit() / slice()`` calls on Select, CompoundSelect and ORM
             ``Query`` (plus ``Query[a:b]``, ``[:b]``, ``[a:]``), ints, bound parameters and
             expressions; reference = the same operations applied as Python slices to the list
             of fully ordered rows.  What a slice reaching beyond an existing LIMIT does is left
             open by the documentation, so only slices inside the current window are generated.
  rownum     legacy Oracle (``enable_offset_fetch=False``) ROWNUM wrapper: ROWNUM itself has no
             SQLite counterpart, but the two bound expressions ``ROWNUM <= X`` / ``ora_rn > Y``
             are cut out of the literal_binds text, evaluated by SQLite, required to be
             limit+offset / offset, and ``full[:X][Y:]`` must be the slice.  Texts that are not
             exactly one such wrapper (nested, compound) are counted, not judged.

  replay     one statement *shape* (one cache key) executed 3-5 times with different limit /
             offset values, zero in any position, natively and through the real Engine +
             compiled cache of mysql, mariadb, postgresql, mssql (old/new) and oracle (12c and
             ROWNUM) on a recording DBAPI; the (sql, params) the Engine sent is inlined
             (integers only), translated as in ``text`` and executed on SQLite.
  orm-eager  ORM entity queries (select() and Query) with a joined / lazy="joined" / selectin /
             subquery loaded collection x {limit, offset, both, neither} x asc/desc x
             plain/distinct/group_by/where; entity ids and complete collection contents must
             equal the slice of the unsliced entity list (children read through raw SQL).

Guards: MSSQL documents CompileErrors for OFFSET without ORDER BY and for
PERCENT / WITH TIES with OFFSET - not generated.  MySQL's ``LIMIT o, 18446744073709551615``
(documented "no limit" idiom) exceeds SQLite's integer range and is rewritten to -1.
Oracle's pre-12c ROWNUM wrapper is judged on its bound expressions only (see rownum).
"""
from __future__ import annotations

import re

META = {
    "id": "C18",
    "level": "exploration",
    "technique": "differential execution on SQLite: slice of the unlimited ordered result vs native LIMIT/OFFSET, vs the captured MSSQL ROW_NUMBER structure, vs translated dialect text forms",
    "level_text": "Seeded ordered queries (plain, join, DISTINCT, GROUP BY, expression/label ORDER BY, nested limited subquery, UNION ALL) x limit/offset in {None,0,1,2,n-1,n,n+3} given as int, bound parameter or SQL expression (and fetch()), over seeded data with NULLs and ties; native SQLite execution, the MSSQL ROW_NUMBER structure captured from the live compiler and executed, and MSSQL TOP / OFFSET-FETCH, Oracle 12c, PostgreSQL and MySQL text forms executed after a clause-level translation.",
    "level_note": "Only SQLite executes. The MSSQL emulation is judged on the translated Select structure and on its rendered text run by SQLite, not on SQL Server; text forms are judged only where the row-limiting clause has an exact SQLite counterpart, otherwise counted inconclusive. FETCH WITH TIES / PERCENT cannot be executed here; the Oracle pre-12c ROWNUM wrapper is judged through its two bound expressions evaluated by SQLite, not by executing ROWNUM.",
    "design_ref": "DESIGN.md section 4, C18",
    "rule": "case = (query shape, data set, limit spec, offset spec, form); non-trivial = the unlimited result has >=3 rows and the slice is a proper, non-empty part of it; distinct by shape+data+specs+form",
    "shards": {"quick": 8, "thorough": 16},
    "modes": ["cext"],
    "soft_s": {"quick": 90, "thorough": 800},
    "exhaustive": {"quick": False, "thorough": False},
    "require": [
        "native_slices_checked", "native_proper_slices", "mssql_structures_captured", "mssql_structures_executed",
        "text_forms_executed", "text_mssql_top", "text_mssql_rownumber", "text_offset_fetch", "text_mysql", "text_postgresql",
        "nested_limited_subqueries", "bind_or_expr_limits",
        "chained_slice_cases", "chains_slice_from_zero_after_offset", "orm_query_chains",
        "oracle_rownum_judged", "oracle_rownum_limit_and_offset",
        "replay_sequences", "replay_cache_hits", "cached_replays_executed", "replay_zero_nonzero_offset_transitions",
        "orm_eager_collection_cases", "orm_joined_eager_offset_only", "orm_eager_parents_with_0_or_many_children",
    ],
    "assumptions": [
        "SQLite's LIMIT/OFFSET and ROW_NUMBER() OVER (ORDER BY ...) are the reference semantics",
        "the clause translations TOP n -> LIMIT n and OFFSET x ROWS FETCH FIRST n ROWS ONLY -> LIMIT n OFFSET x are exact",
    ],
}


# --------------------------------------------------------------------------
def make_data(rng, sa, conn, md, n_a):
    a, b = md.tables["a"], md.tables["b"]
    conn.execute(b.delete())
    conn.execute(a.delete())
    rows = []
    for i in range(1, n_a + 1):
        rows.append({"id": i, "g": rng.choice([None, 1, 1, 2, 3]), "v": rng.choice([None, 0, 1, 1, 2, 5, 5, 9, -3]),
                     "s": rng.choice(["x", "y", "zz", "x"])})
    rng.shuffle(rows)
    conn.execute(a.insert(), rows)
    brows = []
    k = 0
    for r in rows:
        for _ in range(rng.choice([0, 1, 2, 3])):
            k += 1
            brows.append({"id": k, "a_id": r["id"], "w": rng.choice([0, 1, 1, 2, 7])})
    if brows:
        conn.execute(b.insert(), brows)
    conn.commit()
    return rows, brows


SHAPES = ["plain", "plain-desc", "join", "distinct", "groupby", "order-expr", "order-label", "where", "union"]


def base_query(sa, md, shape, rng):
    """An ordered Select / CompoundSelect without row limiting; total order."""
    a, b = md.tables["a"], md.tables["b"]
    if shape == "plain":
        return sa.select(a.c.id, a.c.v).order_by(a.c.v, a.c.id)
    if shape == "plain-desc":
        return sa.select(a.c.id, a.c.g, a.c.s).order_by(a.c.g.desc(), a.c.id.desc())
    if shape == "join":
        return sa.select(a.c.id, b.c.id.label("bid"), b.c.w).join_from(a, b, a.c.id == b.c.a_id).order_by(b.c.w.desc(), b.c.id)
    if shape == "distinct":
        return sa.select(a.c.g, a.c.s).distinct().order_by(a.c.g, a.c.s)
    if shape == "groupby":
        cnt = sa.func.count(a.c.id).label("cnt")
        return sa.select(a.c.s, cnt).group_by(a.c.s).order_by(cnt.desc(), a.c.s)
    if shape == "order-expr":
        return sa.select(a.c.id, a.c.v).order_by(sa.func.coalesce(a.c.v, 0) * -1, a.c.id)
    if shape == "order-label":
        lab = (sa.func.coalesce(a.c.v, 0) + a.c.id).label("k")
        return sa.select(a.c.id, lab).order_by(lab, a.c.id)
    if shape == "where":
        return sa.select(a.c.id, a.c.v, a.c.s).where(sa.or_(a.c.v > rng.choice([-5, 0, 1]), a.c.v.is_(None))).order_by(a.c.s, a.c.id)
    if shape == "union":
        s1 = sa.select(a.c.id, a.c.v).where(a.c.v < 2)
        s2 = sa.select(a.c.id, a.c.v).where(sa.or_(a.c.v >= 2, a.c.v.is_(None)))
        return sa.union_all(s1, s2).order_by("v", "id")
    raise ValueError(shape)


def spec_values(n):
    return [None, 0, 1, 2, max(n - 1, 0), n, n + 3]


def apply_limit(sa, stmt, lim, off, rng, allow_fetch):
    """lim/off: (kind, value) with kind in int|bind|expr|fetch (fetch only for lim)."""
    from sqlalchemy import Integer, bindparam, literal

    def expr(kind, val, nm):
        if kind == "int":
            return val
        if kind == "bind":
            return bindparam(nm, value=val, type_=Integer)
        k = rng.randint(0, val) if val else 0
        return literal(k) + literal(val - k)

    lk, lv = lim
    ok, ov = off
    if lv is not None:
        if lk == "fetch" and allow_fetch:
            stmt = stmt.fetch(lv)
        else:
            stmt = stmt.limit(expr("int" if lk == "fetch" else lk, lv, "lim_p"))
    if ov is not None:
        stmt = stmt.offset(expr(ok, ov, "off_p"))
    return stmt


def rows_of(result):
    return [tuple(r) for r in result]


def msort(rows):
    return sorted(rows, key=lambda r: tuple((x is None, x) for x in r))


# --------------------------------------------------------------------------
# text form translation
# --------------------------------------------------------------------------
_X = r"(?:\((?:(?!ROWS)[^()])+?\)|(?:(?!ROWS)[^()])+?)"   # "(expr)" (PostgreSQL) or a parenthesis-free expression
_TAIL = re.compile(rf"(?:\s+OFFSET\s+(?P<off>{_X})\s+ROWS)?(?:\s+FETCH\s+FIRST\s+(?P<lim>{_X})\s+ROWS\s+ONLY)?\s*\Z", re.S)
_TOP = re.compile(r"\ASELECT\s+(?P<d>DISTINCT\s+)?TOP\s+(?P<n>\d+)\s+", re.S)


def translate_text(sql, family):
    """-> SQLite text or None when no sound translation exists."""
    s = sql.strip()
    if re.search(r"WITH\s+TIES|PERCENT", s):
        return None
    if family == "mysql":
        return s.replace("18446744073709551615", "-1")
    m = _TOP.match(s)
    limit = offset = None
    if m:
        s = "SELECT " + (m.group("d") or "") + s[m.end():]
        limit = m.group("n")
    m = _TAIL.search(s)
    if m and (m.group("off") is not None or m.group("lim") is not None):
        s = s[: m.start()]
        offset = m.group("off")
        if m.group("lim") is not None:
            if limit is not None:
                return None
            limit = m.group("lim")
    # row limiting left anywhere else (subqueries) cannot be rewritten by this translator
    if re.search(r"\bTOP\s+\d|\bROWS\b|FETCH\s+FIRST", s):
        return None
    if limit is not None or offset is not None:
        s += f"\n LIMIT {limit if limit is not None else -1}"
        if offset is not None:
            s += f" OFFSET {offset}"
    return s


# --------------------------------------------------------------------------
def run(ctx):
    import sqlite3

    import sqlalchemy as sa
    from sqlalchemy.dialects import mssql, mysql, oracle, postgresql
    from sqlalchemy.dialects.mssql import base as mssql_base
    from sqlalchemy.dialects.sqlite import base as sqlite_base

    rng = ctx.rng

    # ---- monitor on the live MSSQL compiler
    captured = []
    orig_translate = mssql_base.MSSQLCompiler.translate_select_structure

    def spy_translate(self, select_stmt, **kw):
        res = orig_translate(self, select_stmt, **kw)
        captured.append((select_stmt, res))
        return res

    mssql_base.MSSQLCompiler.translate_select_structure = spy_translate

    class NoInnerLimitCompiler(sqlite_base.SQLiteCompiler):
        """SQLite rendering that, like MSSQLCompiler, emits no row limiting for the inner
        select of the ROW_NUMBER wrapper (marked ``_mssql_visit``)."""

        def _row_limit_clause(self, cs, **kw):
            if getattr(cs, "_mssql_visit", None):
                return ""
            return super()._row_limit_clause(cs, **kw)

    eng = sa.create_engine("sqlite://")
    md = sa.MetaData()
    sa.Table("a", md, sa.Column("id", sa.Integer, primary_key=True), sa.Column("g", sa.Integer), sa.Column("v", sa.Integer), sa.Column("s", sa.String(5)))
    sa.Table("b", md, sa.Column("id", sa.Integer, primary_key=True), sa.Column("a_id", sa.Integer), sa.Column("w", sa.Integer))

    d_ms_old = mssql.dialect()
    d_ms_old._supports_offset_fetch = False
    d_ms_new = mssql.dialect()
    d_ms_new._supports_offset_fetch = True
    d_ora = oracle.dialect()
    d_ora._supports_offset_fetch = True
    d_pg = postgresql.dialect()
    d_my = mysql.dialect()
    d_ora_old = oracle.dialect(enable_offset_fetch=False)   # pre-12c: ROWNUM wrapper
    if d_ora_old._supports_offset_fetch:
        raise RuntimeError("legacy oracle dialect not in ROWNUM mode")
    from sqlalchemy import orm

    class A:
        pass

    class B:
        pass

    class AJ:       # second mapping of the same tables: collection is lazy="joined"
        pass

    class BJ:
        pass

    reg = orm.registry()
    ta, tb = md.tables["a"], md.tables["b"]
    reg.map_imperatively(B, tb)
    reg.map_imperatively(A, ta, properties={"bs": orm.relationship(B, primaryjoin=ta.c.id == orm.foreign(tb.c.a_id), order_by=tb.c.id)})
    reg.map_imperatively(BJ, tb)
    reg.map_imperatively(AJ, ta, properties={"bs": orm.relationship(BJ, primaryjoin=ta.c.id == orm.foreign(tb.c.a_id), lazy="joined", order_by=tb.c.id)})
    replay_engines = make_replay_engines(ctx)

    try:
        conn = eng.connect()
        md.create_all(conn)
        conn.commit()
        raw = conn.connection.dbapi_connection
        conn_s = eng.connect().execution_options(compiled_cache=None)  # same DBAPI connection (SingletonThreadPool)
        STRUCT_CONN[0] = conn_s
        if conn_s.connection.dbapi_connection is not raw:
            raise RuntimeError("structure connection does not share the in-memory database")
        DIALECTS = dict(ms_old=d_ms_old, ms_new=d_ms_new, ora=d_ora, pg=d_pg, my=d_my, ora_old=d_ora_old)
        session = orm.Session(bind=conn)
        ndatasets = ctx.pick({"quick": 3, "thorough": 40})
        combos_per_shape = ctx.pick({"quick": 14, "thorough": 40})
        for ds in range(ndatasets):
            if not ctx.budget_ok():
                break
            first_ds = ds == 0  # every part runs a few cases on the first dataset, whatever the load
            n_a = rng.randint(6, 14)
            make_data(rng, sa, conn, md, n_a)
            for shape in SHAPES:
                base = base_query(sa, md, shape, rng)
                full = rows_of(conn.execute(base))
                n = len(full)
                vals = spec_values(n)
                combos = [(l, o) for l in vals for o in vals if not (l is None and o is None)]
                rng.shuffle(combos)
                for _k, (lv, ov) in enumerate(combos[:combos_per_shape]):
                    if not (first_ds and _k < 2) and not ctx.budget_ok():
                        break
                    lk = rng.choice(["int", "int", "bind", "expr", "fetch"])
                    ok_ = rng.choice(["int", "int", "bind", "expr"])
                    one_case(ctx, sa, conn, raw, base, full, shape, ds, (lk, lv), (ok_, ov), rng,
                             DIALECTS,
                             captured, NoInnerLimitCompiler, sqlite3)
            # nested limited subquery (inner limited natively / translated, outer limited again)
            for _ in range(ctx.pick({"quick": 10, "thorough": 40})):
                nested_case(ctx, sa, conn, raw, md, rng, DIALECTS,
                            captured, NoInnerLimitCompiler, sqlite3, ds)
            # one cached statement shape, several limit/offset values (zero in any position)
            for _k in range(ctx.pick({"quick": 12, "thorough": 60})):
                if not (first_ds and _k < 2) and not ctx.budget_ok():
                    break
                replay_sequence(ctx, sa, conn, raw, md, rng, replay_engines, sqlite3, ds)
            # ORM entities with eagerly loaded collections
            for _k in range(ctx.pick({"quick": 40, "thorough": 200})):
                if not (first_ds and _k < 4) and not ctx.budget_ok():
                    break
                orm_eager_case(ctx, sa, orm, conn, raw, rng, ds, (A, AJ))
            # chained limit()/offset()/slice()/Query[...] compositions
            for _k in range(ctx.pick({"quick": 40, "thorough": 200})):
                if not (first_ds and _k < 6) and not ctx.budget_ok():
                    break
                chain_case(ctx, sa, conn, raw, md, rng, DIALECTS, captured, NoInnerLimitCompiler, sqlite3, ds, session, A)
        session.close()
        conn_s.close()
        conn.close()
    finally:
        mssql_base.MSSQLCompiler.translate_select_structure = orig_translate
        for _k, _f, e_, _fk, c_ in replay_engines:
            c_.close()
            e_.dispose()
        reg.dispose()
        eng.dispose()


def expected_slice(full, lv, ov):
    rows = full[ov:] if ov is not None else list(full)
    return rows[:lv] if lv is not None else rows


STRUCT_CONN = [None]


def run_structure(ctx, sa, conn, stmt, compiler_cls):
    """Execute a Select structure on the (uncached) SQLite connection with the given compiler."""
    conn_s = STRUCT_CONN[0]
    d = conn_s.dialect
    saved = d.statement_compiler
    d.statement_compiler = compiler_cls
    try:
        return rows_of(conn_s.execute(stmt))
    finally:
        d.statement_compiler = saved


def judge_forms(ctx, sa, conn, raw, stmt_for, expected, desc, dialects, captured, compiler_cls, sqlite3, nontrivial, exact_order=True,
                native_mech="native-limit-offset-wrong-slice", bounds=None, full=None):
    """stmt_for(allow_fetch) -> limited statement.  Runs native, structure and text forms."""
    from sqlalchemy import exc as sa_exc

    # ---- native SQLite
    stmt = stmt_for(False)
    got = rows_of(conn.execute(stmt))
    ctx.count("native_slices_checked")
    if nontrivial:
        ctx.count("native_proper_slices")
    if got != expected:
        ctx.violation(native_mech, f"{desc}: SQLite returned {got!r}, slice is {expected!r}",
                      dict(desc, sql=str(stmt.compile(conn)), got=got, expected=expected))
    ctx.case(dict(desc, form="native"), nontrivial=nontrivial)

    stmt_f = stmt_for(True)
    # ---- MSSQL < 2012: structure captured from the live compiler
    del captured[:]
    try:
        text_old = str(stmt_f.compile(dialect=dialects["ms_old"], compile_kwargs={"literal_binds": True}))
    except sa_exc.CompileError as e:
        ctx.violation(compile_mech("mssql", desc, e), f"{desc}: {e}", desc)
        text_old = None
    if text_old is not None and captured:
        top_in, top_out = captured[0]
        if top_out is not top_in:
            ctx.count("mssql_structures_captured")
            try:
                got = run_structure(ctx, sa, conn, top_out, compiler_cls)
            except sa_exc.SQLAlchemyError as e:
                ctx.count("mssql_structures_not_executable")
                ctx.seen("structure_errors", str(e)[:160])
                got = None
            if got is not None:
                ctx.count("mssql_structures_executed")
                if msort(got) != msort(expected):
                    ctx.violation("mssql-rownumber-wrapper-breaks-distinct" if desc["shape"] == "distinct" else "mssql-rownumber-structure-wrong-slice",
                                  f"{desc}: translated structure returned {msort(got)!r}, slice is {msort(expected)!r}",
                                  dict(desc, mssql_sql=text_old, got=got, expected=expected))
                ctx.case(dict(desc, form="mssql-structure"), nontrivial=nontrivial)
    # ---- legacy Oracle ROWNUM wrapper: bounds extracted from the text and evaluated by SQLite
    if bounds is not None and full is not None and "ora_old" in dialects:
        oracle_rownum(ctx, raw, stmt, full, expected, desc, dialects["ora_old"], bounds, nontrivial, sqlite3)
    # ---- text forms
    forms = [("mssql-old", "mssql", text_old)]
    for key, fam in (("ms_new", "mssql"), ("ora", "oracle"), ("pg", "postgresql"), ("my", "mysql")):
        s = stmt_f if fam != "mysql" else stmt  # MySQL has no FETCH
        try:
            forms.append((key, fam, str(s.compile(dialect=dialects[key], compile_kwargs={"literal_binds": True}))))
        except sa_exc.CompileError as e:
            ctx.violation(compile_mech(fam, desc, e), f"{desc}: {e}", desc)
    for key, fam, text in forms:
        if text is not None:
            judge_text(ctx, raw, sqlite3, key, fam, text, expected, desc, nontrivial, exact_order)


def judge_text(ctx, raw, sqlite3, key, fam, text, expected, desc, nontrivial, exact_order=True, how="text-form"):
    """Execute one dialect's (literal) SQL text on SQLite after the clause translation and
    compare with the slice.  ``how``: "text-form" (fresh literal_binds compile) or
    "cached-replay" (what the Engine sent to the DBAPI when it re-used a cached compile)."""
    tr = translate_text(text, fam)
    if tr is None:
        ctx.count("text_forms_untranslatable")
        return
    try:
        got = [tuple(r) for r in raw.execute(tr).fetchall()]
    except sqlite3.Error as e:
        ctx.count("text_forms_untranslatable")
        ctx.seen("text_errors", f"{key}: {str(e)[:100]}")
        return
    ctx.count("text_forms_executed" if how == "text-form" else "cached_replays_executed")
    kind = key
    if fam == "mssql":
        kind = "mssql-rownumber" if "ROW_NUMBER" in text else ("mssql-top" if re.match(r"\s*SELECT\s+(DISTINCT\s+)?TOP", text) else "mssql-offset-fetch")
    elif fam == "oracle":
        kind = "oracle-offset-fetch"
    elif fam == "postgresql":
        kind = "postgresql"
    elif fam == "mysql":
        kind = "mysql"
    if how == "text-form":
        ctx.count({"mssql-rownumber": "text_mssql_rownumber", "mssql-top": "text_mssql_top", "mssql-offset-fetch": "text_offset_fetch",
                   "oracle-offset-fetch": "text_offset_fetch", "postgresql": "text_postgresql", "mysql": "text_mysql"}[kind])
    same = (msort(got) == msort(expected)) if kind == "mssql-rownumber" or not exact_order else (got == expected)
    if not same:
        mech = f"{how}-wrong-slice:{kind}"
        if kind == "mssql-rownumber" and desc["shape"] == "distinct":
            mech = "mssql-rownumber-wrapper-breaks-distinct"
        elif fam == "mssql" and desc["shape"] in ("union", "chain-union") and not re.search(r"\bTOP\b|\bOFFSET\b|\bFETCH\b|ROW_NUMBER", text):
            mech = "mssql-compound-select-row-limit-not-rendered"
        ctx.violation(mech, f"{desc}: {kind} {how} returned {got!r}, slice is {expected!r}",
                      dict(desc, dialect_sql=text, sqlite_sql=tr, got=got, expected=expected))
    ctx.case(dict(desc, form=how + ":" + kind), nontrivial=nontrivial)


def compile_mech(fam, desc, e):
    """mechanism of a CompileError, from the witness."""
    if fam == "mssql" and desc["shape"] == "nested" and desc["inner"][0] in ("bind", "expr") and desc["inner"][2] is not None \
            and "simple integer value for offset" in str(e):
        return "mssql-subquery-non-integer-offset-compile-error"
    return f"compile-raised:{fam}"


def _until_close(text, start):
    """expression starting at ``start`` up to the parenthesis that closes the enclosing
    subquery (or the end of the text)."""
    depth = 0
    for i in range(start, len(text)):
        ch = text[i]
        if ch == "(":
            depth += 1
        elif ch == ")":
            if depth == 0:
                return text[start:i]
            depth -= 1
    return text[start:]


def oracle_rownum(ctx, raw, stmt, full, expected, desc, dialect, bounds, nontrivial, sqlite3):
    """Partial oracle for the pre-12c ROWNUM emulation (no SQLite counterpart for ROWNUM
    itself): ``... WHERE ROWNUM <= X) WHERE ora_rn > Y`` keeps rows ``full[:X][Y:]`` of the
    ordered inner query.  X and Y are cut out of the literal_binds text and *evaluated by
    SQLite*; they must be limit+offset / offset and the rows they select must be the slice.
    Anything that is not exactly one such wrapper is counted, not judged."""
    from sqlalchemy import exc as sa_exc

    lim, off = bounds
    try:
        text = " ".join(str(stmt.compile(dialect=dialect, compile_kwargs={"literal_binds": True})).split())
    except sa_exc.CompileError as e:
        ctx.violation("compile-raised:oracle", f"{desc}: {e}", desc)
        return
    oracle_rownum_text(ctx, raw, text, full, expected, desc, bounds, nontrivial, sqlite3)


def oracle_rownum_text(ctx, raw, text, full, expected, desc, bounds, nontrivial, sqlite3):
    lim, off = bounds
    text = " ".join(text.split())
    n_le, n_rn = text.count("ROWNUM <= "), text.count("ora_rn > ")
    if n_le > 1 or n_rn > 1 or n_le + n_rn == 0 or text.count("ROWNUM AS ora_rn") != n_rn:
        ctx.count("oracle_rownum_untranslatable")
        return
    try:
        X = Y = None
        if n_le:
            X = raw.execute("SELECT " + _until_close(text, text.index("ROWNUM <= ") + len("ROWNUM <= "))).fetchone()[0]
        if n_rn:
            Y = raw.execute("SELECT " + _until_close(text, text.index("ora_rn > ") + len("ora_rn > "))).fetchone()[0]
    except sqlite3.Error:
        ctx.count("oracle_rownum_untranslatable")
        return
    ctx.count("oracle_rownum_judged")
    if lim is not None and off is not None:
        ctx.count("oracle_rownum_limit_and_offset")
    want_x = None if lim is None else lim + (off or 0)
    rows = list(full)
    if X is not None:
        rows = rows[:max(X, 0)]
    if Y is not None:
        rows = rows[max(Y, 0):]
    if X != want_x or (Y or 0) != (off or 0) or rows != expected:   # an explicit OFFSET 0 may or may not be rendered
        ctx.violation("oracle-rownum-wrapper-wrong-bounds",
                      f"{desc}: ROWNUM <= {X!r} / ora_rn > {Y!r} (wanted {want_x!r} / {off!r}) selects {rows!r}, slice is {expected!r}",
                      dict(desc, oracle_sql=text, expected=expected))
    ctx.case(dict(desc, form="oracle-rownum"), nontrivial=nontrivial)


# --------------------------------------------------------------------------
# chained limit() / offset() / slice() / Query.__getitem__
# --------------------------------------------------------------------------
def gen_chain(rng, n, orm):
    """A sequence of 2-4 operations and the window they denote.

    Semantics used as reference: ``offset(k)`` / ``limit(k)`` set that bound; ``slice(a, b)``
    (and ``[a:b]``) select ``current_rows[a:b]`` - the Python slice of what the statement
    returned before.  The documentation leaves open what a slice that reaches *beyond* an
    existing LIMIT does, so such chains are not generated: b <= current limit, and an
    open-ended ``[a:]`` only while no LIMIT is set."""
    off, lim = 0, None
    ops = []
    for _ in range(rng.randint(2, 4)):
        kinds = ["offset", "limit", "slice", "slice", "slice"]
        if orm:
            kinds += ["getslice", "getslice", "gethead"] + (["gettail"] if lim is None else [])
        k = rng.choice(kinds)
        room = lim if lim is not None else max(n - off, 0) + 2
        if k == "offset":
            v = rng.choice([0, 1, 2, 3, n // 2])
            ops.append(("offset", v, rng.choice(["int", "int", "bind", "expr"])))
            off = v
        elif k == "limit":
            v = rng.choice([1, 2, 3, 5, n, n + 2])
            ops.append(("limit", v, rng.choice(["int", "int", "bind", "expr"])))
            lim = v
        elif k in ("slice", "getslice"):
            b = rng.randint(0, room)
            a = rng.choice([0, 0, 0, rng.randint(0, b)])
            ops.append((k, a, b))
            off, lim = off + a, b - a
        elif k == "gethead":
            b = rng.randint(0, room)
            ops.append(("gethead", b, None))
            lim = b
        elif k == "gettail":
            a = rng.randint(0, 3)
            ops.append(("gettail", a, None))
            off = off + a
    return ops, off, lim


def chain_case(ctx, sa, conn, raw, md, rng, dialects, captured, compiler_cls, sqlite3, ds, session, A):
    from sqlalchemy import Integer, bindparam, literal

    a = md.tables["a"]
    orm = session is not None and rng.random() < 0.4
    compound = not orm and rng.random() < 0.25
    if orm:
        base = session.query(A.id, A.v).order_by(A.v, A.id)
        full = [tuple(r) for r in base.all()]
    elif compound:
        base = sa.union_all(sa.select(a.c.id, a.c.v).where(a.c.v < 2),
                            sa.select(a.c.id, a.c.v).where(sa.or_(a.c.v >= 2, a.c.v.is_(None)))).order_by("v", "id")
        full = rows_of(conn.execute(base))
    else:
        base = sa.select(a.c.id, a.c.v).order_by(a.c.v, a.c.id)
        full = rows_of(conn.execute(base))
    n = len(full)
    ops, off, lim = gen_chain(rng, n, orm)
    # reference: the same operations on the Python list of the fully ordered result
    cur_off, cur_lim, rows = 0, None, list(full)
    for op in ops:
        if op[0] == "offset":
            cur_off = op[1]
            rows = expected_slice(full, cur_lim, cur_off)
        elif op[0] == "limit":
            cur_lim = op[1]
            rows = expected_slice(full, cur_lim, cur_off)
        elif op[0] in ("slice", "getslice"):
            rows = rows[op[1]:op[2]]
            cur_off, cur_lim = cur_off + op[1], op[2] - op[1]
        elif op[0] == "gethead":
            rows = rows[:op[1]]
            cur_lim = op[1]
        elif op[0] == "gettail":
            rows = rows[op[1]:]
            cur_off += op[1]
    if rows != expected_slice(full, cur_lim, cur_off):
        raise RuntimeError(f"chain generator left the guarded class: {ops}")
    expected = rows

    def val(kind, v, nm):
        if kind == "bind":
            return bindparam(nm, value=v, type_=Integer)
        if kind == "expr":
            k = v // 2
            return literal(k) + literal(v - k)
        return v

    def build():
        st = base
        for i, op in enumerate(ops):
            if op[0] == "offset":
                st = st.offset(val(op[2], op[1], f"o{i}"))
            elif op[0] == "limit":
                st = st.limit(val(op[2], op[1], f"l{i}"))
            elif op[0] == "slice":
                st = st.slice(op[1], op[2])
            elif op[0] == "getslice":
                if i == len(ops) - 1:
                    return [tuple(r) for r in st[op[1]:op[2]]]
                st = st.slice(op[1], op[2])
            elif op[0] == "gethead":
                if i == len(ops) - 1:
                    return [tuple(r) for r in st[:op[1]]]
                st = st.slice(0, op[1])
            elif op[0] == "gettail":
                if i == len(ops) - 1:
                    return [tuple(r) for r in st[op[1]:]]
                st = st.slice(op[1], None)
        return st

    desc = {"shape": "chain-orm" if orm else ("chain-union" if compound else "chain"), "dataset": [ctx.seed, ctx.shard, ds],
            "ops": [list(x) for x in ops], "full_rows": n}
    nontrivial = n >= 3 and 0 < len(expected) < n
    ctx.count("chained_slice_cases")
    if any(op[0] in ("slice", "getslice") and op[1] == 0 for op in ops[1:]) and any(op[0] in ("offset", "slice", "getslice", "gettail") and op[1] > 0 for op in ops[:-1]):
        ctx.count("chains_slice_from_zero_after_offset")
    if orm:
        ctx.count("orm_query_chains")
        res = build()
        got = res if isinstance(res, list) else [tuple(r) for r in res.all()]
        if got != expected:
            ctx.violation("chained-slice-limit-offset-wrong-rows", f"{desc}: Query returned {got!r}, composition of slices is {expected!r}",
                          dict(desc, got=got, expected=expected))
        ctx.case(dict(desc, form="orm"), nontrivial=nontrivial)
        return
    judge_forms(ctx, sa, conn, raw, lambda allow_fetch: build(), expected, desc, dialects, captured, compiler_cls, sqlite3, nontrivial,
                native_mech="chained-slice-limit-offset-wrong-rows",
                bounds=None if compound else (cur_lim, cur_off if cur_off else None), full=full)


# --------------------------------------------------------------------------
# cached statement shapes re-parameterised (the Engine's compiled cache in play)
# --------------------------------------------------------------------------
REPLAY_URLS = [
    # key, family, url, dialect attribute overrides, create_engine kwargs
    ("my", "mysql", "mysql+pymysql://u:p@h/db", {}, {}),
    ("maria", "mysql", "mariadb+mariadbconnector://u:p@h/db", {}, {}),
    ("pg", "postgresql", "postgresql+psycopg2://u:p@h/db", {}, {}),
    ("ms_old", "mssql", "mssql+pyodbc://u:p@dsn", {"_supports_offset_fetch": False}, {}),
    ("ms_new", "mssql", "mssql+pyodbc://u:p@dsn", {"_supports_offset_fetch": True}, {}),
    ("ora", "oracle", "oracle+oracledb://u:p@h/?service_name=x", {"_supports_offset_fetch": True}, {}),
    ("ora_old", "oracle", "oracle+oracledb://u:p@h/?service_name=x", {}, {"enable_offset_fetch": False}),
]


def make_replay_engines(ctx):
    from vf.mon import fake_dbapi

    out = []
    for key, fam, url, attrs, kw in REPLAY_URLS:
        try:
            eng, fake = fake_dbapi.recording_engine(url, **kw)
        except Exception:
            ctx.count("dialect_unavailable")
            continue
        for k, v in attrs.items():
            setattr(eng.dialect, k, v)
        if key == "ora_old" and eng.dialect._supports_offset_fetch:
            raise RuntimeError("legacy oracle engine not in ROWNUM mode")
        out.append((key, fam, eng, fake, eng.connect()))
    return out


def _lit(v):
    if v is None:
        return "NULL"
    if isinstance(v, bool) or not isinstance(v, int):
        raise ValueError(f"unexpected parameter {v!r}")
    return str(v)


def inline_params(sql, params, paramstyle):
    """The statement a server would see: the DBAPI parameters (integers only in this workload)
    written into the text.  None when the text is not in the expected placeholder form."""
    try:
        if paramstyle in ("format", "qmark"):
            tok = "%s" if paramstyle == "format" else "?"
            parts = sql.split(tok)
            vals = list(params or ())
            if len(parts) != len(vals) + 1:
                return None
            out = parts[0]
            for v, rest in zip(vals, parts[1:]):
                out += _lit(v) + rest
            return out.replace("%%", "%") if paramstyle == "format" else out
        if paramstyle == "pyformat":
            return re.sub(r"%\((\w+)\)s", lambda m: _lit(params[m.group(1)]), sql).replace("%%", "%")
        if paramstyle == "named":
            return re.sub(r"(?<!:):(\w+)", lambda m: _lit(params[m.group(1)]), sql)
    except (KeyError, ValueError, TypeError):
        return None
    return None


def replay_sequence(ctx, sa, conn, raw, md, rng, engines, sqlite3, ds):
    """One statement *shape* (same cache key) executed several times with different
    limit / offset values, zero included, in random order - natively on SQLite and through
    the real Engine + compiled cache of every other dialect on a recording DBAPI.  What the
    Engine handed to the DBAPI is inlined, translated and executed on SQLite."""
    shape = rng.choice([x for x in SHAPES if x != "where"])
    base = base_query(sa, md, shape, rng)
    full = rows_of(conn.execute(base))
    n = len(full)
    has_l, has_o = rng.choice([(True, True), (True, True), (False, True), (True, False)])
    lk = rng.choice(["int", "int", "bind", "expr"])
    ok_ = rng.choice(["int", "int", "bind", "expr"])
    pool = [0, 1, 2, max(n - 1, 0), n, n + 3]
    steps = rng.randint(3, 5)
    lvals = [rng.choice(pool) for _ in range(steps)] if has_l else [None] * steps
    ovals = [rng.choice(pool) for _ in range(steps)] if has_o else [None] * steps
    for vals in (lvals, ovals):     # zero somewhere in the sequence, first or later
        if vals[0] is not None and 0 not in vals:
            vals[rng.randrange(steps)] = 0
        if vals[0] is not None and all(v == 0 for v in vals):
            vals[rng.randrange(steps)] = 2
    ctx.count("replay_sequences")
    for step, (lv, ov) in enumerate(zip(lvals, ovals)):
        state = rng.getstate()
        stmt = apply_limit(sa, base, (lk, lv), (ok_, ov), rng, False)
        if lk == "expr" or ok_ == "expr":
            # keep the *shape* (two literals) but not the split: values differ per step anyway
            pass
        expected = expected_slice(full, lv, ov)
        nontrivial = n >= 3 and 0 < len(expected) < n
        desc = {"shape": shape, "dataset": [ctx.seed, ctx.shard, ds], "sequence": [list(lvals), list(ovals)], "step": step,
                "limit": [lk, lv], "offset": [ok_, ov], "full_rows": n}
        if step and (ovals[step - 1] == 0) != (ov == 0) and ov is not None:
            ctx.count("replay_zero_nonzero_offset_transitions")
        # native: real SQLite engine, its own compiled cache
        got = rows_of(conn.execute(stmt))
        ctx.count("replay_native_steps")
        if got != expected:
            ctx.violation("cached-replay-wrong-slice:sqlite", f"{desc}: SQLite returned {got!r}, slice is {expected!r}",
                          dict(desc, got=got, expected=expected))
        for key, fam, eng, fake, fconn in engines:
            if fam == "mssql" and shape in ("union", "distinct"):
                continue  # registered known findings of the text-form part; not re-reported per replay
            before = len(eng._compiled_cache)
            mark = fake.mark()
            try:
                fconn.execute(stmt)
            except sa.exc.CompileError as e:
                ctx.violation(compile_mech(fam, desc, e), f"{desc}: {e}", desc)
                continue
            evs = fake.since(mark, ("execute",))
            if len(evs) != 1:
                ctx.count("text_forms_untranslatable")
                continue
            if len(eng._compiled_cache) == before and step:
                ctx.count("replay_cache_hits")
            text = inline_params(evs[0].sql, evs[0].params, eng.dialect.paramstyle)
            if text is None:
                ctx.count("text_forms_untranslatable")
                continue
            d2 = dict(desc, engine=key)
            if key == "ora_old":
                if shape != "union":
                    oracle_rownum_text(ctx, raw, text, full, expected, d2, (lv, ov), nontrivial, sqlite3)
                continue
            judge_text(ctx, raw, sqlite3, key, fam, text, expected, d2, nontrivial, True, how="cached-replay")


# --------------------------------------------------------------------------
# ORM entity queries with eagerly loaded collections
# --------------------------------------------------------------------------
def orm_eager_case(ctx, sa, orm, conn, raw, rng, ds, classes):
    """select(Parent) / Query(Parent) with a joined-eager (option or lazy="joined"),
    selectin or subquery loaded *collection*, x {limit only, offset only, both, neither}
    x {asc, desc} x {plain, distinct, group_by}: the entities returned must be exactly the
    slice of the unsliced entity list, each with its complete collection (children read
    independently through the raw connection)."""
    P, PJ = classes
    strategy = rng.choice(["joinedload", "joinedload", "lazy-joined", "selectinload", "subqueryload"])
    cls = PJ if strategy == "lazy-joined" else P
    desc_order = rng.random() < 0.5
    modifier = rng.choice(["plain", "plain", "distinct", "group_by", "where"])
    legacy = rng.random() < 0.4
    opt = {"joinedload": orm.joinedload, "selectinload": orm.selectinload, "subqueryload": orm.subqueryload}.get(strategy)

    children = {}
    for pid, cid in raw.execute("SELECT a_id, id FROM b ORDER BY id"):
        children.setdefault(pid, []).append(cid)
    where = "WHERE v > 0 OR v IS NULL" if modifier == "where" else ""
    order = "v DESC, id DESC" if desc_order else "v, id"
    full_ids = [r[0] for r in raw.execute(f"SELECT id FROM a {where} ORDER BY {order}")]
    n = len(full_ids)
    lv, ov = rng.choice([(None, None), (None, rng.choice([1, 2, 3, n - 1, n, 0])), (None, rng.choice([1, 2, n // 2])),
                         (rng.choice([0, 1, 2, n - 1, n + 2]), None),
                         (rng.choice([1, 2, 3, n]), rng.choice([0, 1, 2, n - 1]))])
    want = [(i, sorted(children.get(i, []))) for i in expected_slice(full_ids, lv, ov)]

    def shape(q):
        ob = (cls.v.desc(), cls.id.desc()) if desc_order else (cls.v, cls.id)
        if modifier == "where":
            q = q.where(sa.or_(cls.v > 0, cls.v.is_(None)))
        if modifier == "distinct":
            q = q.distinct()
        if modifier == "group_by":
            q = q.group_by(cls.id)
        q = q.order_by(*ob)
        if lv is not None:
            q = q.limit(lv)
        if ov is not None:
            q = q.offset(ov)
        return q

    with orm.Session(bind=conn) as s:   # fresh identity map: nothing loaded earlier can hide a truncated collection
        if legacy:
            q = s.query(cls)
            if opt is not None:
                q = q.options(opt(cls.bs))
            ents = shape(q).all()
        else:
            q = sa.select(cls)
            if opt is not None:
                q = q.options(opt(cls.bs))
            ents = s.execute(shape(q)).unique().scalars().all()
        got = [(e.id, sorted(c.id for c in e.bs)) for e in ents]
    desc = {"shape": "orm-eager", "dataset": [ctx.seed, ctx.shard, ds], "strategy": strategy, "modifier": modifier,
            "desc": desc_order, "legacy_query": legacy, "limit": lv, "offset": ov, "full_rows": n}
    ctx.count("orm_eager_collection_cases")
    if strategy in ("joinedload", "lazy-joined"):
        ctx.count("orm_joined_eager_cases")
        if lv is None and ov:
            ctx.count("orm_joined_eager_offset_only")
    if any(len(c) != 1 for _, c in want):
        ctx.count("orm_eager_parents_with_0_or_many_children")
    if got != want:
        ctx.violation("orm-eager-collection-wrong-slice", f"{desc}: got {got!r}, slice of the unsliced entities is {want!r}",
                      dict(desc, got=got, expected=want))
    ctx.case(desc, nontrivial=n >= 3 and 0 < len(want) < n)


def one_case(ctx, sa, conn, raw, base, full, shape, ds, lim, off, rng, dialects, captured, compiler_cls, sqlite3):
    lk, lv = lim
    ok_, ov = off
    expected = expected_slice(full, lv, ov)
    nontrivial = len(full) >= 3 and 0 < len(expected) < len(full)
    if lk in ("bind", "expr") and lv is not None or ok_ in ("bind", "expr") and ov is not None:
        ctx.count("bind_or_expr_limits")
    desc = {"shape": shape, "dataset": [ctx.seed, ctx.shard, ds], "limit": [lk, lv], "offset": [ok_, ov], "full_rows": len(full)}
    state = rng.getstate()

    def stmt_for(allow_fetch):
        rng.setstate(state)  # same expression split in both variants
        return apply_limit(sa, base, lim, off, rng, allow_fetch)

    judge_forms(ctx, sa, conn, raw, stmt_for, expected, desc, dialects, captured, compiler_cls, sqlite3, nontrivial,
                bounds=None if shape == "union" else (lv, ov), full=full)
    if ctx.evaluations < 40 and nontrivial and len(ctx.samples) < 4:
        ctx.sample(dict(desc, expected=expected))


def nested_case(ctx, sa, conn, raw, md, rng, dialects, captured, compiler_cls, sqlite3, ds):
    a = md.tables["a"]
    inner_base = sa.select(a.c.id, a.c.v).order_by(a.c.v, a.c.id)
    full_inner = rows_of(conn.execute(inner_base))
    n = len(full_inner)
    il, io = rng.choice([2, 3, n - 1, n, None]), rng.choice([None, 0, 1, 2])
    if il is None and io is None:
        io = 1
    inner_rows = expected_slice(full_inner, il, io)
    ol, oo = rng.choice([None, 1, 2, len(inner_rows)]), rng.choice([None, 0, 1])
    if ol is None and oo is None:
        ol = 1
    expected = expected_slice(inner_rows, ol, oo)
    ik = rng.choice(["int", "bind", "expr"])
    desc = {"shape": "nested", "dataset": [ctx.seed, ctx.shard, ds], "inner": [ik, il, io], "outer": [ol, oo], "full_rows": n}
    state = rng.getstate()

    def stmt_for(allow_fetch):
        rng.setstate(state)
        inner = apply_limit(sa, inner_base, (ik, il), (ik, io), rng, False).subquery("sq")
        outer = sa.select(inner.c.id, inner.c.v).order_by(inner.c.v, inner.c.id)
        return apply_limit(sa, outer, ("int", ol), ("int", oo), rng, allow_fetch)

    ctx.count("nested_limited_subqueries")
    judge_forms(ctx, sa, conn, raw, stmt_for, expected, desc, dialects, captured, compiler_cls, sqlite3,
                nontrivial=n >= 3 and 0 < len(expected) < n)
