"""C19 -- dependency sorting is a correct topological order; cycles exactly reported.

Monitor: every call to util.topological.sort / sort_as_subsets / find_cycles made by
the workload is judged by an independent reachability-based oracle.  Part A enumerates
digraphs; part B keeps icontract postconditions on the live module attributes while a
real ORM flush + MetaData.create_all/sorted_tables workload runs, so the inputs the
unit of work and the DDL sorter themselves produce are judged as well.
"""
from __future__ import annotations

import itertools

META = {
    "id": "C19",
    "level": "exploration",
    "technique": "runtime oracle on every topological sort/find_cycles call: exhaustive small digraphs + icontract postconditions during ORM/DDL workloads",
    "level_text": "Exhaustive enumeration of all digraphs (self-loops included) on <=4 nodes (quick) and <=5 nodes loop-free (thorough) plus seeded random graphs up to 40 nodes, each run under shuffled tuple order, duplicate tuples, non-item endpoints and two node-hash functions; postconditions also evaluated on the live functions during ORM flush and DDL sorting.",
    "level_note": "Oracle is an independent transitive-closure computation. find_cycles is judged only on graphs whose edges stay within the items (its contract for foreign endpoints is unspecified). Determinism across hash order is exercised by salting node __hash__, not by re-running under another PYTHONHASHSEED.",
    "design_ref": "DESIGN.md section 4, C19",
    "rule": "case = (node count, edge mask, variant); non-trivial = graph with >=2 edges; distinct by (n, mask)",
    "shards": {"quick": 8, "thorough": 16},
    "soft_s": {"quick": 60, "thorough": 900},
    "exhaustive": {"quick": True, "thorough": True},
    "require": ["sort_calls", "find_cycles_calls", "cyclic_graphs", "acyclic_graphs", "contract_evals", "value_node_graphs", "ddl_sort_cases_with_explicit_dependencies"],
    "assumptions": ["reference reachability oracle is correct (12 lines, Floyd-Warshall)"],
}


class Node:
    __slots__ = ("name", "salt")

    def __init__(self, name, salt):
        self.name = name
        self.salt = salt

    def __hash__(self):
        return hash((self.name * 2654435761 + self.salt) % 1000003) if self.salt else hash(self.name)

    def __eq__(self, other):
        return self is other

    def __repr__(self):
        return f"n{self.name}"


def closure(n, edges):
    reach = [[False] * n for _ in range(n)]
    for a, b in edges:
        reach[a][b] = True
    for k in range(n):
        rk = reach[k]
        for i in range(n):
            if reach[i][k]:
                ri = reach[i]
                for j in range(n):
                    if rk[j]:
                        ri[j] = True
    return reach


def judge(ctx, topo, exc, n, edges, order, variant, tuple_rng=None, foreign=0):
    """edges: list of (parent, child) index pairs among range(n) (+ foreign endpoints >= n)."""
    desc = {"n": n, "edges": edges, "order": order, "variant": variant}
    inner = [(a, b) for a, b in edges if a < n and b < n]
    reach = closure(n, inner)
    on_cycle = {i for i in range(n) if reach[i][i]}
    cyclic = bool(on_cycle)
    ctx.count("cyclic_graphs" if cyclic else "acyclic_graphs")

    outs = []
    for salt in (0, 7919):
        nodes = [Node(i, salt) for i in range(n + foreign)]
        items = [nodes[i] for i in order]
        tuples = [(nodes[a], nodes[b]) for a, b in edges]
        variants = [tuples]
        if tuple_rng is not None and len(tuples) > 1:
            sh = list(tuples)
            tuple_rng.shuffle(sh)
            variants.append(sh + sh[:1])  # shuffled + a duplicate tuple
        for tv in variants:
            # ---- sort
            ctx.count("sort_calls")
            try:
                res = list(topo.sort(tv, items))
                raised = None
            except exc.CircularDependencyError as e:
                res, raised = None, e
            if cyclic != (raised is not None):
                ctx.violation(
                    "sort-raises-iff-cyclic",
                    f"cyclic={cyclic} raised={raised is not None} n={n} edges={edges}",
                    desc,
                )
                continue
            if res is not None:
                names = [x.name for x in res]
                if sorted(names) != sorted(order) or len(set(map(id, res))) != len(res):
                    ctx.violation("sort-not-permutation", f"items={order} out={names} edges={edges}", desc)
                    continue
                pos = {nm: k for k, nm in enumerate(names)}
                bad = [(a, b) for a, b in inner if pos[a] > pos[b]]
                if bad:
                    ctx.violation("sort-dependency-after-dependent", f"out={names} violates {bad}", desc)
                    continue
                outs.append(names)
                # ---- sort_as_subsets
                # keep the yielded levels and read them only after the generator is
                # exhausted (a level object must not change once it was delivered)
                kept = list(topo.sort_as_subsets(tv, items))
                subs = [[x.name for x in s] for s in kept]
                if len({id(s) for s in kept}) != len(kept):
                    ctx.violation("subsets-levels-aliased", f"sort_as_subsets yielded the same list object for several levels: {subs}", desc)
                flat = [x for s in subs for x in s]
                if flat != names:
                    ctx.violation("subsets-disagree-with-sort", f"subsets={subs} sort={names}", desc)
                level = {}
                for k, s in enumerate(subs):
                    for x in s:
                        level[x] = k
                for a, b in inner:
                    if a != b and level.get(a, -1) >= level.get(b, 10 ** 9):
                        ctx.violation("subsets-dependency-same-or-later-subset", f"subsets={subs} edge={(a, b)}", desc)
                        break
            else:
                if not foreign:
                    got = {x.name for x in raised.cycles}
                    if got != on_cycle:
                        ctx.violation("error-cycles-not-exact", f"edges={edges} reported={sorted(got)} expected={sorted(on_cycle)}", desc)
            # ---- find_cycles
            if not foreign:
                ctx.count("find_cycles_calls")
                got = {x.name for x in topo.find_cycles(tv, items)}
                if got != on_cycle:
                    ctx.violation(
                        "find-cycles-not-exact",
                        f"edges={edges} reported={sorted(got)} expected={sorted(on_cycle)}",
                        desc,
                    )
    if outs and any(o != outs[0] for o in outs):
        ctx.violation("sort-order-depends-on-hash-or-tuple-order", f"edges={edges} order={order} outputs={outs}", desc)

    # ---- items compared by VALUE: every occurrence of a node in the item list and in the
    # tuples is a fresh, equal-but-not-identical object (runtime-built strings, tuples,
    # large ints), as formatted / parsed / reflected names are
    if not foreign and (ctx.evaluations % 3 == 0 or n <= 3):
        kind = ("str", "tuple", "bigint")[(len(edges) + n + ctx.evaluations) % 3]

        def mk(i):
            if kind == "str":
                return "node%d" % i
            if kind == "tuple":
                return ("n", i, str(i))
            return 10 ** 12 + i * 1000 + len(str(i)) - len(str(i))

        def back(v):
            if kind == "str":
                return int(v[4:])
            if kind == "tuple":
                return v[1]
            return (v - 10 ** 12) // 1000

        items = [mk(i) for i in order]
        tv = [(mk(a), mk(b)) for a, b in edges]
        ctx.count("value_node_graphs")
        try:
            res = list(topo.sort(tv, items))
            raised = None
        except exc.CircularDependencyError as e:
            res, raised = None, e
        if cyclic != (raised is not None):
            ctx.violation("sort-raises-iff-cyclic:value-nodes", f"cyclic={cyclic} raised={raised is not None} kind={kind} edges={edges}", desc)
        elif res is not None:
            names = [back(v) for v in res]
            pos = {nm: k for k, nm in enumerate(names)}
            if sorted(names) != sorted(order):
                ctx.violation("sort-not-permutation:value-nodes", f"items={order} out={names} kind={kind}", desc)
            elif [(a, b) for a, b in inner if pos[a] > pos[b]]:
                ctx.violation("sort-dependency-after-dependent:value-nodes", f"out={names} edges={edges} kind={kind}", desc)
        else:
            got = {back(v) for v in raised.cycles}
            if got != on_cycle:
                ctx.violation("error-cycles-not-exact:value-nodes", f"kind={kind} edges={edges} reported={sorted(got)} expected={sorted(on_cycle)}", desc)
        got = {back(v) for v in topo.find_cycles([(mk(a), mk(b)) for a, b in edges], [mk(i) for i in order])}
        if got != on_cycle:
            ctx.violation("find-cycles-not-exact:value-nodes", f"kind={kind} edges={edges} reported={sorted(got)} expected={sorted(on_cycle)}", desc)

    ctx.case({"n": n, "e": sorted(set(edges))}, nontrivial=len(set(edges)) >= 2)

def ddl_sort_case(ctx, sa, exc, rng):
    """sort_tables_and_constraints / sort_tables / MetaData.sorted_tables over random table
    graphs with FOREIGN KEY edges (removable: they may be set aside when they form a cycle)
    and EXPLICIT edges (Table.add_is_dependent_on, extra_dependencies: never removable),
    some of them parallel to an FK of the same pair.  Oracle: every explicit dependency
    precedes its dependent; every FK dependency that was not set aside does too; a cycle
    among explicit dependencies raises CircularDependencyError."""
    from sqlalchemy.sql import ddl

    n = rng.randint(2, 5)
    md = sa.MetaData()
    fks, explicit, extra = set(), set(), set()
    for a in range(n):
        for b in range(n):
            if a != b and rng.random() < 0.3:
                fks.add((a, b))  # b has an FK to a: a before b
    for (a, b) in list(fks):
        if rng.random() < 0.35:
            (explicit if rng.random() < 0.6 else extra).add((a, b))  # parallel explicit edge
    for a in range(n):
        for b in range(n):
            if a != b and rng.random() < 0.08:
                (explicit if rng.random() < 0.5 else extra).add((a, b))
    tabs = []
    for i in range(n):
        cols = [sa.Column("id", sa.Integer, primary_key=True)]
        for (a, b) in sorted(fks):
            if b == i:
                cols.append(sa.Column(f"r{a}", sa.Integer, sa.ForeignKey(f"t{a}.id", name=f"fk_{b}_{a}")))
        tabs.append(sa.Table(f"t{i}", md, *cols))
    for (a, b) in explicit:
        tabs[b].add_is_dependent_on(tabs[a])
    order = list(range(n))
    rng.shuffle(order)
    hard = explicit | extra
    reach = closure(n, sorted(hard))
    hard_cyclic = any(reach[i][i] for i in range(n))
    desc = {"n": n, "fks": sorted(fks), "explicit": sorted(explicit), "extra": sorted(extra), "order": order}
    ctx.count("ddl_sort_cases")
    if hard:
        ctx.count("ddl_sort_cases_with_explicit_dependencies")
    import warnings

    with warnings.catch_warnings():
        warnings.simplefilter("ignore")
        try:
            res = ddl.sort_tables_and_constraints(
                [tabs[i] for i in order], extra_dependencies=[(tabs[a], tabs[b]) for a, b in extra]
            )
            raised = False
        except exc.CircularDependencyError:
            res, raised = None, True
    ctx.case({"ddl": desc}, nontrivial=bool(hard) and bool(fks))
    if hard_cyclic != raised:
        ctx.violation("ddl-sort-explicit-cycle-raises-iff", f"explicit cycle={hard_cyclic} raised={raised} :: {desc}", desc)
        return
    if res is None:
        return
    names = [int(t.name[1:]) for t, _ in res if t is not None]
    if sorted(names) != list(range(n)):
        ctx.violation("ddl-sort-not-permutation", f"out={names} :: {desc}", desc)
        return
    pos = {nm: k for k, nm in enumerate(names)}
    bad = [(a, b) for a, b in hard if pos[a] > pos[b]]
    if bad:
        ctx.violation("ddl-sort-explicit-dependency-after-dependent", f"out={names} violates {bad} :: {desc}", desc)
        return
    set_aside = {(int(fkc.referred_table.name[1:]), int(fkc.parent.name[1:])) for fkc in res[-1][1]}
    bad = [(a, b) for a, b in fks if (a, b) not in set_aside and pos[a] > pos[b]]
    if bad:
        ctx.violation("ddl-sort-inline-fk-dependency-after-dependent", f"out={names} violates {bad} set_aside={sorted(set_aside)} :: {desc}", desc)


def enum_graphs(n, loops=True):
    pairs = [(a, b) for a in range(n) for b in range(n) if loops or a != b]
    for mask in range(1 << len(pairs)):
        yield mask, [p for k, p in enumerate(pairs) if mask >> k & 1]


def run(ctx):
    from sqlalchemy import exc
    from sqlalchemy.util import topological as topo

    rng = ctx.rng
    idx = 0
    # Part A1: exhaustive, self-loops included, n <= 4
    for n in range(0, 5):
        base_order = list(range(n))
        for mask, edges in enum_graphs(n, loops=True):
            idx += 1
            if not ctx.mine(idx):
                continue
            order = base_order if mask % 3 else list(reversed(base_order))
            judge(ctx, topo, exc, n, edges, order, "exh4", tuple_rng=rng if mask % 5 == 0 else None)
            if ctx.evaluations <= 3 or (mask == 0b1001_0110_0011_0101 and n == 4):
                ctx.sample({"n": n, "edges": edges, "order": order})
    ctx.count("exhaustive_le4_done")
    # Part A2 (thorough): every loop-free digraph on 5 nodes
    if ctx.thorough:
        n = 5
        for mask, edges in enum_graphs(n, loops=False):
            idx += 1
            if not ctx.mine(idx):
                continue
            if not ctx.budget_ok(0.6):
                break
            judge(ctx, topo, exc, n, edges, list(range(n)), "exh5")
    # Part A3: random larger graphs, foreign endpoints, permuted item order
    nrand = ctx.pick({"quick": 400, "thorough": 20000})
    for k in range(nrand):
        if k >= 40 and not ctx.budget_ok(0.85):
            break
        n = rng.randint(5, 40 if k % 4 == 0 else 12)
        dens = rng.choice([0.03, 0.08, 0.15, 0.3])
        foreign = rng.choice([0, 0, 2])
        edges = []
        for a in range(n + foreign):
            for b in range(n + foreign):
                if rng.random() < dens / (1 + n / 12):
                    if a != b or rng.random() < 0.2:
                        edges.append((a, b))
        if rng.random() < 0.5:  # force acyclic: orient along a random permutation
            perm = list(range(n + foreign))
            rng.shuffle(perm)
            rank = {v: i for i, v in enumerate(perm)}
            edges = [(a, b) if rank[a] < rank[b] else (b, a) for a, b in edges if a != b]
        order = list(range(n))
        rng.shuffle(order)
        judge(ctx, topo, exc, n, edges, order, "random", tuple_rng=rng, foreign=foreign)
        if k < 2:
            ctx.sample({"n": n, "edges": edges, "order": order, "foreign": foreign})
    # Part B: contracts on the live functions while the ORM and DDL sorters run
    live_contracts(ctx, topo, exc)


class PostBroken(Exception):
    pass


def live_contracts(ctx, topo, exc):
    """icontract postconditions on the module attributes that unitofwork / ddl
    dereference at call time (``topological.sort(...)``)."""
    import icontract
    import sqlalchemy as sa
    from sqlalchemy import orm

    evals = {"n": 0}
    failures = []

    def _ok_order(tuples, allitems, result):
        # result is an iterator: materialise lazily is impossible in a post-condition,
        # so the wrapper below hands us a list.
        evals["n"] += 1
        items = list(allitems)
        ids = {id(x) for x in items}
        if sorted(map(id, result)) != sorted(ids) or len(result) != len(items):
            failures.append(("not-permutation", len(items), len(result)))
            return False
        pos = {id(x): i for i, x in enumerate(result)}
        for a, b in tuples:
            if id(a) in pos and id(b) in pos and a is not b and pos[id(a)] > pos[id(b)]:
                failures.append(("dependency-after-dependent", repr(a), repr(b)))
                return False
        return True

    # Part A4: the DDL-level sort over FK + explicit dependencies
    for k in range(ctx.pick({"quick": 300, "thorough": 6000})):
        if k >= 40 and not ctx.budget_ok(0.9):
            break
        ddl_sort_case(ctx, sa, exc, ctx.rng)

    orig_sort, orig_subsets = topo.sort, topo.sort_as_subsets

    def sort_list(tuples, allitems, deterministic_order=True):
        tuples = list(tuples)
        allitems = list(allitems)
        return list(orig_sort(tuples, allitems, deterministic_order))

    checked_sort = icontract.ensure(_ok_order, error=PostBroken)(sort_list)

    def subsets_list(tuples, allitems):
        tuples = list(tuples)
        allitems = list(allitems)
        subs = [list(s) for s in orig_subsets(tuples, allitems)]
        flat = [x for s in subs for x in s]
        _ok_order(tuples, allitems, flat) or (_ for _ in ()).throw(PostBroken(str(failures[-1])))
        return iter(subs)

    topo.sort = lambda t, a, deterministic_order=True: iter(checked_sort(t, a, deterministic_order))
    topo.sort_as_subsets = subsets_list
    try:
        rng = ctx.rng
        rounds = ctx.pick({"quick": 6, "thorough": 60})
        for r in range(rounds):
            # the live contracts always get at least two rounds, whatever the load
            if r >= 2 and not ctx.budget_ok():
                break
            try:
                _orm_ddl_round(sa, orm, rng, r)
            except PostBroken as e:
                ctx.violation("live-sort-postcondition", f"{e} :: {failures[-1:]}", {"round": r, "failures": failures[-3:]})
            ctx.case({"live_round": r, "shard": ctx.shard, "seed": ctx.seed}, nontrivial=True)
    finally:
        topo.sort, topo.sort_as_subsets = orig_sort, orig_subsets
    ctx.count("contract_evals", evals["n"])


def _orm_ddl_round(sa, orm, rng, r):
    """A small random FK forest of mapped classes: create_all, flush of a random object
    graph with inserts + deletes, drop_all."""
    reg = orm.registry()
    md = reg.metadata
    ntab = rng.randint(2, 5)
    classes = []
    for i in range(ntab):
        cols = {
            "__tablename__": f"t{i}",
            "id": sa.Column(sa.Integer, primary_key=True),
            "v": sa.Column(sa.Integer),
        }
        parents = [j for j in range(i + 1) if rng.random() < 0.5]  # j == i -> self-referential
        for j in parents:
            cols[f"p{j}_id"] = sa.Column(sa.ForeignKey(f"t{j}.id"), nullable=True)
        cls = type(f"T{i}", (object,), cols)
        classes.append((cls, parents))
    mapped = []
    for i, (cls, parents) in enumerate(classes):
        mapped.append(reg.mapped(cls))
    for i, (cls, parents) in enumerate(classes):
        for j in parents:
            kw = {}
            if i == j:
                kw["remote_side"] = [cls.__table__.c.id]
            cls.__mapper__.add_property(
                f"p{j}", orm.relationship(mapped[j], foreign_keys=[cls.__table__.c[f"p{j}_id"]], **kw)
            )
    eng = sa.create_engine("sqlite://")
    with eng.begin() as c:
        c.exec_driver_sql("PRAGMA foreign_keys=ON")
    list(md.sorted_tables)
    md.create_all(eng)
    with orm.Session(eng) as s:
        objs = {i: [] for i in range(ntab)}
        for _ in range(rng.randint(3, 14)):
            i = rng.randrange(ntab)
            o = mapped[i](v=rng.randint(0, 99))
            for j in classes[i][1]:
                if objs[j] and rng.random() < 0.8:
                    setattr(o, f"p{j}", rng.choice(objs[j]))
            objs[i].append(o)
            s.add(o)
        s.flush()
        # delete leaves (objects nobody references) together with new inserts in one flush
        referenced = set()
        for i in range(ntab):
            for o in objs[i]:
                for j in classes[i][1]:
                    p = getattr(o, f"p{j}")
                    if p is not None:
                        referenced.add(id(p))
        for i in range(ntab):
            for o in objs[i]:
                if id(o) not in referenced and rng.random() < 0.5:
                    s.delete(o)
        i = rng.randrange(ntab)
        s.add(mapped[i](v=-1))
        s.flush()
        s.commit()
    md.drop_all(eng)
    eng.dispose()
    reg.dispose()
