"""C20 -- database URLs round-trip through their string form.

Monitor: every generated URL object ``u`` is rendered with
``u.render_as_string(hide_password=False)``, parsed back with ``make_url`` and the two
URL objects are compared as a whole (``URL.__eq__``) *and* component by component, so
a violation names the component that changed and, when the original text turns up in
another component, the pair (from, to) between which text moved.

Domain (exactly the property statement's):
  * username: None or any string (the empty string included);
  * password: None or any string, only together with a username (a password without
    a username cannot be rendered: by design, not generated);
  * host: None, a host name (LDH labels, ``_`` allowed, a few IDN U-labels), dotted IPv4,
    or an IPv6 literal (rendered in brackets because it contains ``:``);
  * port: None or 0..65535, only together with a host;
  * database: None or any string (empty, leading ``/``, ...);
  * query: string keys -> string, or tuple of >= 2 strings (a 1-tuple is not the
    canonical form ``URL.create`` round-trips: by design, not generated);
  * drivername: ``name`` or ``name+driver`` over ``[a-z0-9_]``.
"Any string" = every Unicode scalar value (surrogates excluded: they are not
encodable, ``quote`` raises instead of mis-parsing) with heavy weight on the URL-special
characters ``@ : / ? % + & = # [ ] \\ ; space tab newline NUL`` and on ``%XX`` look-alikes.

Guards / triage notes
  * Empty-string query values (``{"k": ""}``, ``{"k": ("", "x")}``) are generated in a
    separate bucket.  On the unchanged tree they do NOT round-trip: ``_parse_url`` calls
    ``parse_qsl`` without ``keep_blank_values=True`` so ``drv://?k=`` comes back with the
    key silently dropped.  That is inside the property's domain ("arbitrary ... query
    string values") and is reported with the stable mechanism
    ``query-blank-value-dropped`` (candidate genuine defect), kept apart from every other
    mechanism so it can be listed as a known finding.
  * Empty usernames / passwords / databases and the empty query key round-trip and are
    part of the main domain.
"""
from __future__ import annotations

META = {
    "id": "C20",
    "level": "exploration",
    "technique": "render->parse round-trip oracle with per-component diff on generated URL objects (special-character product, full code-point sweep, random composites)",
    "level_text": "Every Unicode scalar value (thorough; quick: all below U+0800 and a stride of the rest) placed in every free-text component, all 1- and 2-character strings over 20 URL-special characters in every component, plus seeded random composite URLs; each judged by equality and per-component equality after render_as_string(hide_password=False) -> make_url.",
    "level_note": "Pure-Python property, no database involved. Hosts are restricted to syntactically valid names / IPv4 / IPv6 literals and ports to 0..65535 as the statement says; non-string password objects, 1-tuple query values and password-without-username are outside the domain (documented by-design behaviour). Surrogate code points are excluded (not encodable as UTF-8).",
    "design_ref": "DESIGN.md section 4, C20",
    "rule": "case = one URL object; non-trivial = at least one component contains a URL-special or non-ASCII character; distinct by the full component tuple",
    "shards": {"quick": 8, "thorough": 16},
    "soft_s": {"quick": 50, "thorough": 800},
    "exhaustive": {"quick": False, "thorough": False},
    "require": ["roundtrips", "special_pairs", "codepoints_swept", "random_composites",
                "ipv6_hosts", "tuple_query_values", "components_compared"],
    "assumptions": ["urllib.parse quote/unquote/parse_qsl of the running interpreter are part of the system under test (as used by url.py)"],
}

SPECIALS = ["@", ":", "/", "?", "%", "+", "&", "=", "#", "[", "]", "\\", ";", " ", "\t",
            "\n", "\x00", "'", '"', ","]
PCT_LOOKALIKES = ["%41", "%2F", "%40", "%3A", "%zz", "%", "%%", "%2", "+%20+", "%C3%A9", "%u00e9"]
COMPONENTS = ("drivername", "username", "password", "host", "port", "database", "query")


def _special(s):
    return any((c in SPECIALS) or ord(c) > 127 or ord(c) < 32 for c in s)


class Gen:
    def __init__(self, rng):
        self.rng = rng

    def char(self):
        r = self.rng.random()
        rng = self.rng
        if r < 0.35:
            return rng.choice(SPECIALS)
        if r < 0.6:
            return rng.choice("abcXYZ019_-.~")
        if r < 0.7:
            return chr(rng.randint(0, 0x7F))
        if r < 0.8:
            return chr(rng.randint(0x80, 0x7FF))
        if r < 0.9:
            while True:
                c = rng.randint(0x800, 0xFFFF)
                if not 0xD800 <= c <= 0xDFFF:
                    return chr(c)
        return chr(rng.randint(0x10000, 0x10FFFF))

    def text(self, maxlen=8, allow_empty=True):
        rng = self.rng
        r = rng.random()
        if allow_empty and r < 0.06:
            return ""
        if r < 0.16:
            return rng.choice(PCT_LOOKALIKES) + (self.char() if rng.random() < 0.5 else "")
        n = rng.randint(1, maxlen)
        return "".join(self.char() for _ in range(n))

    def host(self):
        rng = self.rng
        r = rng.random()
        if r < 0.3:
            return ".".join(str(rng.randint(0, 255)) for _ in range(4)), "ipv4"
        if r < 0.55:
            kind = rng.randrange(5)
            groups = ["%x" % rng.randint(0, 0xFFFF) for _ in range(8)]
            if kind == 0:
                return ":".join(groups), "ipv6"
            if kind == 1:
                return "::1", "ipv6"
            if kind == 2:
                k = rng.randint(1, 6)
                return ":".join(groups[:k]) + "::" + ":".join(groups[k + 1:]), "ipv6"
            if kind == 3:
                return "::ffff:" + ".".join(str(rng.randint(0, 255)) for _ in range(4)), "ipv6"
            return "fe80::" + groups[0] + "%eth0", "ipv6"
        labels = []
        for _ in range(rng.randint(1, 4)):
            if rng.random() < 0.1:
                labels.append(rng.choice(["bücher", "пример", "例え", "xn--bcher-kva"]))
            else:
                n = rng.randint(1, 10)
                lab = "".join(rng.choice("abcdefghijklmnopqrstuvwxyzABC0123456789-_") for _ in range(n))
                lab = lab.strip("-") or "h"
                labels.append(lab)
        return ".".join(labels), "name"

    def driver(self):
        rng = self.rng
        def name():
            return rng.choice("abcdefghijklmnopqrstuvwxyz") + "".join(
                rng.choice("abcdefghijklmnopqrstuvwxyz0123456789_") for _ in range(rng.randint(0, 8)))
        return name() + ("+" + name() if rng.random() < 0.6 else "")

    def url_parts(self, blank_bucket=False):
        rng = self.rng
        p = {"drivername": self.driver(), "username": None, "password": None, "host": None,
             "port": None, "database": None, "query": {}}
        if rng.random() < 0.7:
            p["username"] = self.text()
            if rng.random() < 0.7:
                p["password"] = self.text()
        hk = None
        if rng.random() < 0.7:
            p["host"], hk = self.host()
            if rng.random() < 0.6:
                p["port"] = rng.choice([0, 1, 80, 5432, 65535, rng.randint(0, 65535)])
        if rng.random() < 0.75:
            p["database"] = self.text(maxlen=12)
        if rng.random() < 0.65 or blank_bucket:
            q = {}
            for _ in range(rng.randint(1, 3)):
                k = self.text(maxlen=5)
                if rng.random() < 0.3:
                    v = tuple(self.text(maxlen=5, allow_empty=False) for _ in range(rng.randint(2, 4)))
                    if rng.random() < 0.3:
                        v = v + (v[0],)  # repeated element inside a tuple
                else:
                    v = self.text(maxlen=6, allow_empty=False)
                q[k] = v
            if blank_bucket:
                k = rng.choice(list(q))
                if isinstance(q[k], tuple) and rng.random() < 0.5:
                    lst = list(q[k])
                    lst[rng.randrange(len(lst))] = ""
                    q[k] = tuple(lst)
                else:
                    q[k] = ""
            p["query"] = q
        return p, hk


def _strip_blanks(q):
    out = {}
    for k, v in q.items():
        if isinstance(v, tuple):
            vv = tuple(x for x in v if x != "")
            if len(vv) == 1:
                out[k] = vv[0]
            elif vv:
                out[k] = vv
        elif v != "":
            out[k] = v
    return out


def _has_blank(q):
    return any(v == "" or (isinstance(v, tuple) and "" in v) for v in q.values())


def judge(ctx, URL, make_url, parts, variant):
    """Render + parse one URL, compare; returns True when it round-tripped."""
    ctx.count("roundtrips")
    desc = {"variant": variant, "parts": parts}
    try:
        u = URL.create(**parts)
    except Exception as e:  # the generator stays inside the documented domain
        raise AssertionError(f"harness: URL.create rejected in-domain parts {parts!r}: {e!r}")
    try:
        s = u.render_as_string(hide_password=False)
    except Exception as e:
        ctx.violation(f"render-raises-{type(e).__name__}", f"{parts!r}: {e!r}", desc)
        return False
    desc["rendered"] = s
    try:
        v = make_url(s)
    except Exception as e:
        ctx.violation(f"parse-raises-{type(e).__name__}", f"rendered {s!r} from {parts!r}: {e!r}", desc)
        return False
    exp = {c: getattr(u, c) for c in COMPONENTS}
    got = {c: getattr(v, c) for c in COMPONENTS}
    exp["query"], got["query"] = dict(exp["query"]), dict(got["query"])
    ctx.count("components_compared", len(COMPONENTS))
    diff = [c for c in COMPONENTS if exp[c] != got[c] or type(exp[c]) is not type(got[c])]
    equal = v == u and u == v and not (v != u)
    if not diff and equal:
        # rendering the parsed URL must give the same string again (equal URLs, same text)
        if v.render_as_string(hide_password=False) != s:
            ctx.violation("rerender-differs", f"{s!r} -> {v.render_as_string(hide_password=False)!r}", desc)
            return False
        return True
    desc["parsed"] = got
    if diff == ["query"] and _has_blank(exp["query"]) and _strip_blanks(exp["query"]) == got["query"]:
        ctx.count("blank_values_dropped")
        ctx.violation(
            "query-blank-value-dropped",
            f"query {exp['query']!r} rendered as {s!r} parses to {got['query']!r}: empty-string value silently dropped",
            desc,
        )
        return False
    if not diff:
        ctx.violation("eq-disagrees-with-components", f"all components equal but URL.__eq__ says different: {s!r}", desc)
        return False
    # did text move between components?
    def texts(x):
        if x is None:
            return []
        if isinstance(x, dict):
            out = []
            for k, val in x.items():
                out.append(k)
                out.extend(val if isinstance(val, tuple) else [val])
            return [t for t in out if t]
        return [str(x)] if str(x) else []
    for c in diff:
        for t in texts(exp[c]):
            if len(t) < 2:
                continue
            for d in COMPONENTS:
                if d != c and d in diff and any(t in g for g in texts(got[d])) and not any(t in g for g in texts(exp[d])):
                    ctx.violation(f"text-moved-{c}-to-{d}", f"{t!r} of {c} found in {d}: {s!r} -> {got!r}", desc)
                    return False
    c = diff[0]
    ctx.violation(f"component-{c}-not-preserved", f"{c}: {exp[c]!r} -> {got[c]!r} via {s!r}", desc)
    return False


def run(ctx):
    import warnings

    from sqlalchemy.engine import URL, make_url

    warnings.simplefilter("ignore")
    rng = ctx.rng
    gen = Gen(rng)
    idx = 0

    def base(text, with_pw=True, tuple_q=False):
        q = {text: text} if not tuple_q else {text: (text, "z" + text, text)}
        return {"drivername": "pg+drv", "username": text, "password": text if with_pw else None,
                "host": "h.example", "port": 5432, "database": text, "query": q}

    # ---- Part A: all strings of length 1..2 over the special characters (+ sandwiched),
    #      in every free-text component at once and in each component alone
    singles = SPECIALS + PCT_LOOKALIKES
    for a in singles:
        for b in [""] + SPECIALS:
            idx += 1
            if not ctx.mine(idx):
                continue
            for text in (a + b, "x" + a + b + "y", a + "x" + b):
                if text == "":
                    continue
                ctx.count("special_pairs")
                judge(ctx, URL, make_url, base(text), "specials-all")
                judge(ctx, URL, make_url, base(text, tuple_q=True), "specials-all-tupleq")
                ctx.count("tuple_query_values")
                for comp in ("username", "password", "database", "qkey", "qval"):
                    p = {"drivername": "d", "username": "u", "password": None, "host": None, "port": None,
                         "database": None, "query": {}}
                    if comp == "qkey":
                        p["query"] = {text: "v"}
                    elif comp == "qval":
                        p["query"] = {"k": text}
                    else:
                        p[comp] = text
                    if rng.random() < 0.5:
                        p["host"], p["port"] = "::1", rng.choice([None, 0, 65535])
                        ctx.count("ipv6_hosts")
                    judge(ctx, URL, make_url, p, "specials-" + comp)
                ctx.case({"specials": text}, nontrivial=True)
    ctx.count("partA_done")

    # ---- Part B: code-point sweep: one character c, components 'c', 'a' + c + 'b'
    if ctx.quick:
        cps = list(range(0, 0x800)) + list(range(0x800, 0x110000, 17))
    else:
        cps = range(0, 0x110000)
    for cp in cps:
        if 0xD800 <= cp <= 0xDFFF:
            continue
        idx += 1
        if not ctx.mine(idx):
            continue
        if (idx & 0x3FF) == 0 and not ctx.budget_ok():
            break
        c = chr(cp)
        ctx.count("codepoints_swept")
        ok = judge(ctx, URL, make_url, base("a" + c + "b"), "cp-sandwich")
        if cp < 0x3000 or cp % 5 == 0:
            ok = judge(ctx, URL, make_url, base(c, with_pw=(cp % 2 == 0)), "cp-alone") and ok
        ctx.case({"cp": cp}, nontrivial=cp > 127 or c in SPECIALS or cp < 32)
        if cp in (0x40, 0xE9, 0x1F600):
            ctx.sample({"codepoint": hex(cp), "url": URL.create(**base("a" + c + "b")).render_as_string(hide_password=False)})

    # ---- Part C: random composites
    n = ctx.pick({"quick": 6000, "thorough": 120000})
    for k in range(n):
        if (k & 0xFF) == 0 and not ctx.budget_ok():
            break
        parts, hk = gen.url_parts()
        ctx.count("random_composites")
        if hk == "ipv6":
            ctx.count("ipv6_hosts")
        if any(isinstance(v, tuple) for v in parts["query"].values()):
            ctx.count("tuple_query_values")
        judge(ctx, URL, make_url, parts, "random")
        texts = [parts["username"], parts["password"], parts["database"]] + list(parts["query"])
        ctx.case(parts, nontrivial=any(t and _special(t) for t in texts))
        if k < 2:
            ctx.sample({"parts": parts, "url": URL.create(**parts).render_as_string(hide_password=False)})
        ctx.seen("host_kinds", hk or "none")

    # ---- Part D: the blank-query-value bucket (triaged: see module docstring)
    n = ctx.pick({"quick": 40, "thorough": 400})
    for k in range(n):
        parts, hk = gen.url_parts(blank_bucket=True)
        ctx.count("blank_bucket_cases")
        judge(ctx, URL, make_url, parts, "blank-bucket")
        ctx.case(parts, nontrivial=True)
