"""C22 -- compiling a well-formed construct never fails with an internal error.

Monitor: every ``construct.compile(dialect=..)`` (plus ``str()`` of the result and, for
SQL statements, ``.params``) made by the workload is wrapped; the exception class is
the only thing judged.  Allowed: any ``sqlalchemy.exc.SQLAlchemyError`` (CompileError,
UnsupportedCompilationError, InvalidRequestError, ArgumentError ...).
``NotImplementedError`` is counted separately and not reported (the property names it
neither as allowed nor as internal; DESIGN treats the documented ones as allowed).
Anything else (AttributeError, KeyError, TypeError, AssertionError, IndexError,
ValueError, RecursionError ...) escaping ``compile`` is a violation, de-duplicated by
(exception type, innermost sqlalchemy frame).

Workload (all constructs are built through public constructors with type-consistent
Python values; a construct the constructor rejects with a documented error is skipped):
* the G-stmt generator of ``vf.gen.stmt_gb`` (rich mode) + its perturbation operator +
  random generative-call chains;
* ``vf.gen.rich_gb`` recipes: window/filter/within_group, extract/cast/try_cast over a
  type palette, tuple/any/all, string / regexp / numeric / bitwise operators, boolean
  constants, literals of ~38 types, JSON and ARRAY operators, VALUES / LATERAL /
  TABLESAMPLE / table-valued functions / recursive CTE, DML-in-CTE, multi-table
  UPDATE/DELETE, ORM statements; dialect specific: PG / SQLite upsert, MySQL ON
  DUPLICATE KEY / MATCH / dialect LIMIT, PG JSONB / HSTORE / ARRAY / ranges / tsvector /
  aggregate_order_by / DISTINCT ON, MSSQL try_cast / hints, Oracle hints / FETCH
  APPROX -- every one **cross-compiled on every dialect**;
* DDL: CreateTable / DropTable / CreateColumn / CreateIndex / DropIndex / AddConstraint /
  DropConstraint / comments / sequences / schemas / CreateTableAs / CreateView / PG named
  types / constraints and indexes made of plain column(), literal_column(), text() and
  string elements, over random tables (type palette, Identity, Computed, Sequence, server defaults,
  quoted names, dialect table / index options).
* dialects: sqlite, postgresql, mysql, mssql, oracle, default + option variants (old and
  new server versions, mariadb, paramstyles, oracle use_ansi=False, StrCompileDialect);
  compile flags: plain, ``literal_binds``, ``render_postcompile``, ``schema_translate_map``.

Guards: a dialect-specific construct on a foreign dialect must give a documented error
(held) or compile; python values always match the column type (a str for an Integer
column is not "well-formed"); warnings are ignored.

Candidate genuine defects reported on the unchanged tree (mechanism = ExcType@module.function):
  TypeError@sql.compiler.visit_function                  func.aggregate_strings() on the default / str dialect
  AttributeError@dialects.mssql.base._schema_elements    Set/Drop{Table,Column}Comment of a schema-less table, unconnected dialect
  AttributeError@sql.elements.__getattr__ , AttributeError@dialects.mysql.base.<genexpr>
                                                         Index(<desc()/text()/function>, mysql_length={...}) on mysql
  AttributeError@sql.base.corresponding_column           limit+offset+with_for_update(of=<Table>) on Oracle < 12 (ROWNUM path)
  AttributeError@dialects.postgresql.base._on_conflict_target   sqlite on_conflict_do_update compiled on postgresql
  AttributeError@dialects.oracle.base.visit_INTERVAL     postgresql.INTERVAL compiled on oracle
  TypeError@util.langhelpers.constructor_copy            mysql.SET compiled on a non-mysql dialect
"""
from __future__ import annotations

META = {
    "id": "C22",
    "level": "exploration",
    "technique": "exception-class monitor around compile() over generated statements, dialect-specific constructs and DDL, cross-compiled on 6 dialects + 15 option variants x 4 compile flag sets",
    "level_text": "Seeded generation of several thousand distinct constructs per run, each compiled on every built-in dialect family and a random subset of option variants and compile flags; any exception outside the documented SQLAlchemy error hierarchy is reported with its innermost library frame.",
    "level_note": "Compilation only, no server. Construct space = vf.gen.stmt_gb grammar + vf.gen.rich_gb recipes (hand-written recipes with random parameters); third-party dialect options beyond those listed are not covered. NotImplementedError is counted, not judged.",
    "design_ref": "DESIGN.md section 4, C22",
    "rule": "case = one construct compiled on its dialect set; non-trivial = it compiled successfully on at least one dialect and is not a bare single-table select; distinct by (source, default-dialect SQL or repr)",
    "shards": {"quick": 8, "thorough": 16},
    "modes": ["cext"],
    "soft_s": {"quick": 90, "thorough": 800},
    "exhaustive": {"quick": False, "thorough": False},
    "require": ["compile_calls", "compiled_ok", "documented_errors", "ddl_compiles", "dialect_specific_constructs", "variant_compiles"],
    "assumptions": ["recipes only pass type-consistent values; constructs rejected at construction time are out of scope"],
}

BASE = ["sqlite", "postgresql", "mysql", "mssql", "oracle", "default"]


def _frame(e):
    import traceback

    frames = [fr for fr in traceback.extract_tb(e.__traceback__)
              if "/sqlalchemy/" in fr.filename and fr.name != "__getattr__"]  # name the caller, not the generic attribute hook

    def modof(fr):
        return fr.filename.split("/sqlalchemy/", 1)[1].rsplit(".", 1)[0].replace("/", ".")

    if frames:
        fr = frames[-1]
        name = fr.name
        if (name.startswith(("format_", "quote", "_requires_quotes")) or name.startswith("<")) and len(frames) > 1:
            # a shared identifier-preparer helper, or an anonymous lambda / comprehension: name the compiler method around it
            name += "<" + modof(frames[-2]) + "." + frames[-2].name
        return modof(fr), name, fr.lineno
    return "?", "?", 0


def run(ctx):
    import warnings

    from sqlalchemy import exc as sa_exc

    warnings.simplefilter("ignore")
    from vf.gen import rich_gb as RG
    from vf.gen import stmt_gb as G

    env = G.make_env()
    ds = G.dialects(extra_variants=True)
    variants = [k for k in ds if k not in BASE]
    paramstyle_variants = [k for k in variants if k.split("/")[-1] in ("numeric", "numeric_dollar", "qmark", "format", "pyformat", "named", "asyncpg")]
    rng = ctx.rng
    recipes = RG.recipes(env)
    ddl = RG.ddl_recipes(env)
    SPECIFIC = {"pg_insert", "sqlite_insert", "mysql_insert", "pg_exprs", "mysql_exprs", "mssql_oracle_exprs", "pg_named_types"}

    def judge(construct, source, desc, is_ddl):
        """compile on the dialect set; returns number of successful compiles"""
        plans = [(dn, {}) for dn in BASE]
        for dn in rng.sample(variants, 4):
            plans.append((dn, {}))
        if not is_ddl:   # paramstyles matter for statements: two of the numeric / positional / named variants each time
            for dn in rng.sample(paramstyle_variants, 3):
                plans.append((dn, {}))
        for dn in rng.sample(BASE, 3):
            plans.append((dn, {"literal_binds": True}))
        for dn in rng.sample(BASE + variants, 2):
            plans.append((dn, {"render_postcompile": True}))
        if is_ddl or rng.random() < 0.15:
            plans.append((rng.choice(BASE), {"schema_translate_map": {None: "tr0", "sch1": "tr1", "My Schema": None}}))
        ok = 0
        for dn, kw in plans:
            d = ds[dn]
            ctx.count("compile_calls")
            if dn not in BASE:
                ctx.count("variant_compiles")
            if is_ddl:
                ctx.count("ddl_compiles")
            flag = next(iter(kw), "plain")
            try:
                if "schema_translate_map" in kw:
                    c = construct.compile(dialect=d, schema_translate_map=kw["schema_translate_map"])
                else:
                    c = construct.compile(dialect=d, compile_kwargs=kw) if kw else construct.compile(dialect=d)
                str(c)
                if not is_ddl:
                    c.params
                    if flag == "plain" and getattr(c, "positiontup", None) is not None:
                        c.construct_params()
                ok += 1
                ctx.count("compiled_ok")
            except sa_exc.SQLAlchemyError as e:
                ctx.count("documented_errors")
                ctx.seen("documented_error_classes", type(e).__name__)
            except NotImplementedError as e:
                ctx.count("not_implemented_errors")
                ctx.seen("not_implemented", f"{dn.split('/')[0]}:{str(e)[:60]}")
            except RecursionError:
                raise
            except Exception as e:
                mod, fn, line = _frame(e)
                ctx.violation(
                    f"{type(e).__name__}@{mod}.{fn}",
                    f"compile(dialect={dn}, {kw or 'plain'}) of a {source} construct raised {type(e).__name__}: {str(e)[:200]} "
                    f"(at {mod}.{fn}:{line}); construct: {desc[:300]}",
                    {"source": source, "dialect": dn, "flags": kw, "error": repr(e)[:500], "frame": [mod, fn, line], "construct": desc[:2000]})
        return ok

    def describe(construct):
        try:
            return str(construct.compile(dialect=ds["default"]))
        except Exception:
            try:
                return str(construct.compile(dialect=ds["postgresql"]))
            except Exception:
                return repr(construct)[:500]

    # ---- 1. recipes
    nrec = ctx.pick({"quick": 14, "thorough": 300})
    for name in sorted(recipes):
        fn = recipes[name]
        for k in range(nrec):
            if not ctx.budget_ok():
                break
            v = G.Vals(k % 20, salt=k)
            try:
                construct = fn(rng, v)
            except (sa_exc.SQLAlchemyError, NotImplementedError):
                ctx.count("rejected_by_constructor")
                continue
            except Exception as e:  # recipe / constructor problem: out of scope for compile(); listed for the harness author
                ctx.count("recipe_construction_errors")
                ctx.seen("recipe_construction_errors", f"{name}: {type(e).__name__}: {str(e)[:120]}")
                continue
            if name in SPECIFIC:
                ctx.count("dialect_specific_constructs")
            desc = name + ": " + describe(construct)
            ok = judge(construct, "recipe:" + name, desc, False)
            ctx.seen("recipes", name)
            ctx.case({"r": desc}, nontrivial=ok > 0)
            if k == 0 and ctx.shard == 0 and name in ("pg_insert", "window", "cte_dml"):
                ctx.sample({"recipe": name, "default_sql": desc[:300]})

    # ---- 2. DDL
    nddl = ctx.pick({"quick": 25, "thorough": 400})
    for name in sorted(ddl):
        fn = ddl[name]
        for k in range(nddl):
            if not ctx.budget_ok():
                break
            v = G.Vals(k % 20, salt=k)
            try:
                constructs = fn(rng, v)
            except (sa_exc.SQLAlchemyError, NotImplementedError):
                ctx.count("rejected_by_constructor")
                continue
            except Exception as e:
                ctx.count("recipe_construction_errors")
                ctx.seen("recipe_construction_errors", f"{name}: {type(e).__name__}: {str(e)[:120]}")
                continue
            if name in SPECIFIC:
                ctx.count("dialect_specific_constructs")
            for c in constructs:
                desc = f"{name}/{type(c).__name__}: " + describe(c)
                ok = judge(c, "ddl:" + name, desc, True)
                ctx.seen("ddl_kinds", type(c).__name__)
                ctx.case({"d": desc}, nontrivial=ok > 0)
            if k == 0 and ctx.shard == 0 and name == "create_drop_table":
                ctx.sample({"ddl": name, "first": describe(constructs[0])[:400]})

    # ---- 3. generator statements, perturbations, chains (last: open-ended, cut by the soft deadline if need be)
    g = G.Gen(rng, depth=2, orm_ratio=0.3, rich=True)
    nbase = ctx.pick({"quick": 40, "thorough": 800})
    ops_cache = {}
    for bi in range(nbase):
        if not ctx.budget_ok():
            break
        spec = g.stmt()
        fam = [("base", spec)] + G.perturb(spec, rng, 3)
        for j, (tag, sp) in enumerate(fam):
            try:
                stmt, b = G.build(env, sp, G.Vals(j))
            except G.Inapplicable:
                continue
            ok = judge(stmt, "gen:" + sp["k"], G.describe(sp), False)
            ctx.case({"g": G.describe(sp)}, nontrivial=ok > 0 and (len(sp.get("where", ())) > 0 or sp["k"] != "select"))
        # a short random chain on top of the base
        try:
            stmt, b = G.build(env, spec, G.Vals(5))
        except G.Inapplicable:
            continue
        names = []
        for _ in range(rng.randint(1, 4)):
            kind = G.stmt_kind(stmt)
            ops = ops_cache.setdefault(kind, G.chain_ops(env, kind))
            if not ops:
                break
            name, fn = rng.choice(ops)
            try:
                stmt = fn(stmt, rng, b.vals)
                names.append(name)
            except (G.Inapplicable, sa_exc.SQLAlchemyError):
                continue
        if names:
            ctx.seen("chain_ops", names[-1])
            ok = judge(stmt, "chain", "chain " + ",".join(names) + " on " + G.describe(spec), False)
            ctx.case({"c": G.describe(spec), "ops": names}, nontrivial=ok > 0)
