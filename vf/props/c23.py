"""C23 -- Connection transactions and savepoints have nested-transaction semantics.

Workload: operation sequences on ONE Connection over a SQLite *file* database:
begin, begin_nested, execute(insert unique id), conn.commit/rollback/close, re-connect,
``with conn.begin()`` / ``with conn.begin_nested()`` entered and exited explicitly
(normally / with an exception), commit/rollback/close on every Transaction handle ever
obtained (so double commit, use after the context manager ended, handles of an earlier
transaction or of a closed connection, out-of-order savepoint release/rollback all
occur), ``engine.begin()``.  Every sequence of length L over the alphabet is run
(exhaustive part), then seeded random long sequences.

Oracle (vf/models/nested_txn_gg.py, a stack of frames of inserted ids) after EVERY op:
  * an independent observer connection sees exactly the model's committed ids;
  * the raw DBAPI connection under test (read directly, not through SQLAlchemy) sees
    committed + every pending frame  (a savepoint rollback undid exactly its frames);
  * in_transaction() / in_nested_transaction() equal the model;
  * an op the model classifies "ended handle / closed connection / inside an ended
    context manager" raises a SQLAlchemy error and the DBAPI spy shows no
    state-changing call (INSERT, SAVEPOINT, RELEASE, ROLLBACK, commit(), rollback());
    rollback()/close() on an ended handle may be a silent no-op (documented) but must
    not act either.

Guards (what the oracle deliberately does not demand):
  * pysqlite's *legacy* transaction mode breaks SAVEPOINT by design (documented in
    dialects/sqlite/base.py); the engines here use the two documented remedies:
    ``connect_args autocommit=False`` and the ``isolation_level=None`` + BEGIN-on-begin
    event recipe.  A third variant runs the AUTOCOMMIT isolation level without
    savepoints (every insert is published at once, flags still follow the model).
  * out-of-order release/rollback of a savepoint handle while inner savepoints are open
    is tolerated with a warning by the library.  From that op until the next outer
    commit/rollback/close the model is "tainted": the data oracles stay exact (inner
    handles are zombies: using them must not change data), but flags are not judged and
    an op may raise or not.
"""
from __future__ import annotations

import itertools
import warnings

META = {
    "id": "C23",
    "level": "exploration",
    "technique": "exhaustive short + random long transaction op sequences on a SQLite file DB, judged after every op by a stack-of-frames reference model through an independent observer connection, a raw read of the connection under test, the in_transaction flags and the DBAPI spy",
    "level_text": "Every op sequence of length 4 (quick) / 5 (thorough) over the 19-op alphabet and of length 5 / 7 over a 9-op savepoint alphabet is executed on the two documented non-legacy pysqlite transaction modes; plus seeded random sequences up to 25 / 60 ops (nesting depth <= 5, engine.begin(), AUTOCOMMIT variant).  All four oracles are evaluated after every single operation.",
    "level_note": "Execution on SQLite only (no PostgreSQL/MariaDB server in the sandbox); for postgresql+psycopg2 and mysql+pymysql the DBAPI call stream of random sequences is recorded on a fake DBAPI and checked by a savepoint-stack automaton (names released/rolled back are open, commit()/rollback() exactly where the model ends the outer transaction) - that judges the emitted stream, not server behaviour. Two-phase transactions are out of scope (not in the property). Legacy pysqlite transaction mode is excluded because SAVEPOINT is documented as broken there.",
    "design_ref": "DESIGN.md section 4, C23",
    "rule": "case = (engine variant, op sequence); non-trivial = at least one insert executed and at least one transaction-ending op (commit/rollback/close/handle op/context exit) performed; distinct by (variant, sequence)",
    "shards": {"quick": 8, "thorough": 16},
    "soft_s": {"quick": 150, "thorough": 850},
    "exhaustive": {"quick": True, "thorough": True},
    "require": ["observer_reads", "txnview_reads", "flag_checks", "must_raise_checked", "noact_checked",
                "savepoint_rollbacks", "savepoint_releases", "outer_commits", "out_of_order_ops",
                "exhaustive_subtrees_done", "fake_stream_sequences", "boundary_failures",
                "failed_outer_boundary_views"],
    "assumptions": ["SQLite's own SAVEPOINT/ROLLBACK TO/RELEASE implementation is correct",
                    "the observer connection (rollback-journal mode, same file) sees exactly the committed state"],
}

FULL = ["begin", "nested", "ins", "commit", "rollback", "close", "connect", "cmb", "cmn", "xo", "xe",
        ("hc", 0), ("hr", 0), ("hx", 0), ("hc", 1), ("hr", 1), ("hx", 1), ("hc", 2), ("hr", 2)]
REDUCED = ["begin", "nested", "ins", "commit", "rollback", ("hc", 0), ("hr", 0), ("hc", 1), ("hr", 1)]
# boundary failures: fc / fr = conn.commit() / rollback() whose DBAPI call fails, fhc / fhr = handle
# commit / rollback whose COMMIT / RELEASE resp. ROLLBACK / ROLLBACK TO fails, bad = insert of a row
# violating a deferred foreign key (the next outer COMMIT fails for real)
FAULT_OPS = ("fc", "fr", "fhc", "fhr", "bad")
FAULTY = ["nested", "ins", "bad", "commit", "rollback", "fc", "fr", ("fhc", 0), ("fhr", 0), ("fhc", 1), ("hc", 0),
          ("hr", 0), ("hc", 1), ("hr", 1), "begin"]
CREATING = ("begin", "nested", "cmb", "cmn")
ENDING = ("commit", "rollback", "close", "hc", "hr", "hx", "xo", "xe", "fc", "fr", "fhc", "fhr")
STATE_SQL = ("INSERT", "SAVEPOINT", "RELEASE", "ROLLBACK", "BEGIN", "COMMIT")


def opname(op):
    return op if isinstance(op, str) else f"{op[0]}{op[1]}"


def enum_sequences(alphabet, length):
    """All syntactically meaningful sequences: a handle op needs that many creating ops
    before it, an exit needs an earlier context-manager entry, connect an earlier close."""
    def rec(prefix, ncreate, ncm, nexit, nclose, nconn):
        if len(prefix) == length:
            yield tuple(prefix)
            return
        for op in alphabet:
            k = op if isinstance(op, str) else op[0]
            if not isinstance(op, str) and op[1] >= ncreate:
                continue
            if k in ("xo", "xe") and nexit >= ncm:
                continue
            if k == "connect" and nconn >= nclose:
                continue
            prefix.append(op)
            yield from rec(prefix, ncreate + (k in CREATING), ncm + (k in ("cmb", "cmn")),
                           nexit + (k in ("xo", "xe")), nclose + (k == "close"), nconn + (k == "connect"))
            prefix.pop()
    yield from rec([], 0, 0, 0, 0, 0)


class Env:
    """One SQLite file + spied engine + observer per (shard, variant)."""

    def __init__(self, ctx, variant):
        import sqlite3

        import sqlalchemy as sa
        from sqlalchemy.pool import QueuePool

        from vf.mon.dbapi_spy import Spy, observer

        self.variant = variant
        self.path = ctx.tmppath(".db")
        c = sqlite3.connect(self.path)
        c.execute("CREATE TABLE t (id INTEGER PRIMARY KEY)")
        c.execute("CREATE TABLE p (id INTEGER PRIMARY KEY)")
        c.execute("CREATE TABLE ch (id INTEGER PRIMARY KEY, pid INTEGER REFERENCES p(id) "
                  "DEFERRABLE INITIALLY DEFERRED)")
        c.commit()
        c.close()
        self.spy = Spy()
        if variant == "ac_false":
            self.eng = self.spy.engine(self.path, connect_kw={"autocommit": False}, poolclass=QueuePool)
        elif variant == "begin_hook":
            self.eng = self.spy.engine(self.path, poolclass=QueuePool)

            @sa.event.listens_for(self.eng, "connect")
            def _c(dbapi_connection, rec):
                dbapi_connection.raw.execute("PRAGMA foreign_keys=ON")   # deferred FK: COMMIT itself can fail
                dbapi_connection.isolation_level = None

            @sa.event.listens_for(self.eng, "begin")
            def _b(conn):
                conn.exec_driver_sql("BEGIN")
        elif variant == "autocommit":
            self.eng = self.spy.engine(self.path, poolclass=QueuePool)
        else:
            raise ValueError(variant)
        self.obs = observer(self.path)
        self.table = sa.table("t", sa.column("id"))
        self.child = sa.table("ch", sa.column("id"), sa.column("pid"))
        self.sa = sa
        self.exc = sa.exc

    def dispose(self):
        self.eng.dispose()
        self.obs.close()


def state_changing(events):
    out = []
    for e in events:
        if e.kind in ("commit", "rollback"):
            out.append(e.kind + "()")
        elif e.kind in ("execute", "executemany") and str(e.sql).lstrip().upper().startswith(STATE_SQL):
            out.append(str(e.sql))
    return out


def run_sequence(ctx, env, ops, tag, engine_begin=False, eb_exit="xo"):
    """Execute one op sequence; returns True if it ran to the end without violation."""
    import sqlite3

    from vf.models.nested_txn_gg import EITHER, FAIL, NOACT, OK, RAISE, SKIP, TxnModel

    spy, obs, exc = env.spy, env.obs, env.exc
    armed = {"fired": None}

    def arm(*targets):
        """one-shot, non-disconnect DBAPI failure at the next commit() / rollback() call or the
        next statement starting with one of the given (upper case) SQL prefixes"""
        armed["fired"] = None
        prefixes = tuple(t for t in targets if t.isupper())

        def fault(ev):
            hit = ev.kind in targets or (bool(prefixes) and ev.kind == "execute" and str(ev.sql).startswith(prefixes))
            if hit:
                spy.fault = None
                armed["fired"] = ev.kind if ev.kind != "execute" else str(ev.sql).split(" sa_")[0]
                return sqlite3.OperationalError("injected failure")
        spy.fault = fault

    model = TxnModel(autocommit=env.variant == "autocommit")
    conns = []
    rslots = []
    rctx = []
    state = {"conn": None, "raw": None, "cm": None}
    ids = itertools.count(1)
    trace = []
    performed = inserted = ended = 0
    ok = True

    def connect():
        if engine_begin and not conns:
            cm = env.eng.begin()
            conn = cm.__enter__()
            state["cm"] = cm
        else:
            conn = env.eng.connect()
        if env.variant == "autocommit":
            conn = conn.execution_options(isolation_level="AUTOCOMMIT")
        conns.append(conn)
        state["conn"] = conn
        state["raw"] = conn.connection.dbapi_connection.raw
        return None

    def violation(check, op, status, text, mech=None):
        nonlocal ok
        ok = False
        mech = mech or f"{check}:{op if isinstance(op, str) else op[0]}:{status}"
        ctx.violation(mech, f"[{env.variant}] {text} :: ops={[opname(o) for o in ops]} trace={trace[-8:]}",
                      {"variant": env.variant, "ops": [opname(o) for o in ops], "trace": trace,
                       "engine_begin": engine_begin, "model_committed": sorted(model.committed),
                       "model_pending": model.pending()})

    def context_status():
        if model.closed:
            return "closed-connection"
        if model.failed:
            return "after-failed-outer-commit"
        if model._ctx_blocked():
            return "inside-ended-context-manager"
        if model.tainted:
            return "after-out-of-order-savepoint-op"
        return "clean"

    with warnings.catch_warnings(record=True) as wlog:
        warnings.simplefilter("always")
        try:
            # implicit first connect
            exp, apply = model.expect("connect")
            connect()
            apply(False)
            if engine_begin:
                exp, apply = model.expect("cmb")
                apply(False)
                rslots.append(state["conn"].get_transaction())
                rctx.append(None)            # owned by the engine.begin() generator
                model.ctx_base = 1
            seq = list(ops)
            if engine_begin:
                seq = [o for o in seq if o not in ("close", "connect")
                       and (o if isinstance(o, str) else o[0]) not in FAULT_OPS]
                seq.append("eb_exit")
            for op in seq:
                kind, arg = (op, None) if isinstance(op, str) else op
                conn = state["conn"]
                if kind == "eb_exit":
                    # engine.begin().__exit__  ==  exit of the root context manager, then close
                    model.ctx_base = 0
                    del rctx[model.ctx_base + 1:]
                    while len(model.ctx) > 1:   # inner context managers abandoned by the program
                        model.ctx.pop()
                    exp1, ap1 = model.expect(eb_exit)
                    status = model.status_of(model.ctx[-1]) if model.ctx else "none"
                    mark = spy.mark()
                    err = None
                    try:
                        if eb_exit == "xo":
                            state["cm"].__exit__(None, None, None)
                        else:
                            try:
                                state["cm"].__exit__(ValueError, ValueError("boom"), None)
                            except ValueError:
                                pass
                    except Exception as e:  # noqa: BLE001
                        err = e
                    raised = err is not None
                    trace.append(("engine.begin-exit-" + eb_exit, type(err).__name__ if raised else "ok"))
                    if exp1 == OK and raised:
                        violation("unexpected-raise", "engine-begin-exit", status, f"{err!r}")
                        break
                    ap1(raised if exp1 == EITHER else False)
                    exp2, ap2 = model.expect("close")
                    ap2(False)
                    performed += 1
                    ended += 1
                else:
                    status = context_status()
                    if kind in ("hc", "hr", "hx"):
                        status = model.status_of(model._slot(arg))
                    elif kind in ("xo", "xe") and len(model.ctx) > model.ctx_base:
                        status = model.status_of(model.ctx[-1])
                    if kind in FAULT_OPS and env.variant == "autocommit":
                        continue
                    if kind == "bad" and (env.variant != "begin_hook" or engine_begin):
                        continue            # deferred FK rows only where PRAGMA foreign_keys can be on
                    ident = next(ids) if kind in ("ins", "bad") else None
                    armed["fired"] = None
                    exp, apply = model.expect(kind, ident if kind in ("ins", "bad") else arg)
                    if exp == SKIP:
                        ctx.count("ops_skipped")
                        trace.append((opname(op), "skip"))
                        continue
                    mark = spy.mark()
                    err = None
                    new_handle = None
                    try:
                        if kind == "connect":
                            connect()
                        elif kind == "close":
                            conn.close()
                        elif kind == "begin":
                            new_handle = conn.begin()
                        elif kind == "nested":
                            new_handle = conn.begin_nested()
                        elif kind == "cmb":
                            new_handle = conn.begin()
                            new_handle.__enter__()
                        elif kind == "cmn":
                            new_handle = conn.begin_nested()
                            new_handle.__enter__()
                        elif kind == "ins":
                            res = conn.execute(env.table.insert().values(id=ident))
                            if res.rowcount != 1:
                                violation("insert-rowcount", op, status, f"rowcount={res.rowcount}")
                                break
                        elif kind == "bad":
                            conn.execute(env.child.insert().values(id=ident, pid=-ident))
                        elif kind == "commit":
                            conn.commit()
                        elif kind == "rollback":
                            conn.rollback()
                        elif kind == "fc":
                            arm("commit")
                            conn.commit()
                        elif kind == "fr":
                            arm("rollback")
                            conn.rollback()
                        elif kind == "fhc":
                            arm("commit", "RELEASE")
                            rslots[arg].commit()
                        elif kind == "fhr":
                            arm("rollback", "ROLLBACK TO")
                            rslots[arg].rollback()
                        elif kind == "hc":
                            rslots[arg].commit()
                        elif kind == "hr":
                            rslots[arg].rollback()
                        elif kind == "hx":
                            rslots[arg].close()
                        elif kind == "xo":
                            rctx.pop().__exit__(None, None, None)
                        elif kind == "xe":
                            rctx.pop().__exit__(ValueError, ValueError("boom"), None)
                        else:
                            raise RuntimeError(op)
                    except Exception as e:  # noqa: BLE001  (judged below)
                        err = e
                    finally:
                        spy.fault = None
                    raised = err is not None
                    performed += 1
                    trace.append((opname(op), type(err).__name__ if raised else "ok", exp))
                    events = spy.since(mark)
                    acted = state_changing(events)
                    # ---- raise / act obligations
                    if exp == OK and raised:
                        violation("unexpected-raise", op, status, f"{opname(op)} raised {err!r}")
                        break
                    if exp == FAIL:
                        ctx.count("boundary_failures")
                        ctx.seen("failed_boundary_calls", armed["fired"] or "deferred-constraint-at-commit")
                        if not raised:
                            violation("failure-swallowed", op, status,
                                      f"{opname(op)} did not raise although {armed['fired'] or 'COMMIT'} failed")
                            break
                    if exp == RAISE:
                        ctx.count("must_raise_checked")
                        if not raised:
                            violation("no-raise", op, status, f"{opname(op)} on {status} did not raise")
                            break
                        ctx.seen("raise_types", type(err).__name__)
                        if not isinstance(err, exc.SQLAlchemyError):
                            # the property only says "raise"; counted, not judged
                            ctx.count("raised_non_sqlalchemy_error")
                    if exp in (RAISE, NOACT):
                        if exp == NOACT:
                            ctx.count("noact_checked")
                        if acted:
                            violation("acted-on-ended", op, status, f"{opname(op)} on {status} emitted {acted}")
                            break
                    if exp == EITHER:
                        ctx.count("either_ops")
                        if raised:
                            ctx.count("either_ops_raised")
                    # ---- model transition
                    was_tainted = model.tainted
                    depth0 = model.depth()
                    apply(raised)
                    if depth0 and not model.frames and not raised and kind in ("commit", "hc", "xo"):
                        ctx.count("outer_commits")
                    if exp in (RAISE, NOACT):
                        # an op on an ended handle must not end somebody else's live (sub)transaction
                        dead = [i for i, (mh, rh) in enumerate(zip(model.slots, rslots))
                                if mh is not None and rh is not None and mh.gen == model.gen
                                and mh.state == "active" and not rh.is_active]
                        if dead:
                            mech = ("stale-root-handle-cancels-savepoint"
                                    if kind in ("hr", "hx") and status == "ended-root" else None)
                            violation("deactivated-live-handle", op, status,
                                      f"{opname(op)} on {status} deactivated live handle(s) {dead} "
                                      f"without any DBAPI call", mech=mech)
                            break
                    if exp == FAIL and (model.failed or model.terminal):
                        # no savepoint survives its enclosing transaction: looked at before any
                        # recovery rollback
                        ctx.count("failed_outer_boundary_views")
                        what = "commit" if model.failed else "rollback"
                        alive = [i for i, mh in model.ended_handles() if rslots[i] is not None and rslots[i].is_active]
                        nested_now = conn.get_nested_transaction()
                        if alive or conn.in_nested_transaction() or nested_now is not None:
                            violation("savepoint-alive", op, status,
                                      f"after the failed outer {what}: handles still active {alive}, "
                                      f"in_nested_transaction()={conn.in_nested_transaction()}, "
                                      f"get_nested_transaction()={'set' if nested_now is not None else None}",
                                      mech=f"savepoint-alive-after-failed-outer-{what}")
                            break
                        if model.terminal:
                            ctx.count("terminal_after_failed_outer_rollback")
                            break
                    if kind in CREATING:
                        rslots.append(new_handle if not raised else None)
                        if kind in ("cmb", "cmn") and not raised:
                            rctx.append(new_handle)
                    if model.tainted and not was_tainted:
                        ctx.count("out_of_order_ops")
                    if kind in ("hr", "hx", "xe") and not raised and model.depth() < depth0 and model.depth() >= 1:
                        ctx.count("savepoint_rollbacks")
                    if kind in ("hc", "xo") and not raised and model.depth() < depth0 and model.depth() >= 1:
                        ctx.count("savepoint_releases")
                    if kind in ENDING:
                        ended += 1
                    # ---- the insert reached the DBAPI iff it did not raise
                    if kind == "ins":
                        hits = [e for e in events if e.kind == "execute" and str(e.sql).startswith("INSERT")
                                and tuple(e.params) == (ident,) and not e.get("faulted")]
                        if raised and hits and exp != OK:
                            violation("insert-emitted-though-raised", op, status, f"id={ident}")
                            break
                        if not raised:
                            inserted += 1
                            if len(hits) != 1:
                                violation("insert-not-emitted-once", op, status, f"id={ident} hits={len(hits)}")
                                break
                # ---- data oracles after every op
                got = {r[0] for r in obs.execute("SELECT id FROM t").fetchall()}
                ctx.count("observer_reads")
                if got != model.committed:
                    extra, missing = sorted(got - model.committed), sorted(model.committed - got)
                    violation("committed-data", op, status,
                              f"observer sees {sorted(got)} model committed {sorted(model.committed)} "
                              f"(unexpectedly-committed={extra} missing={missing})")
                    break
                if not model.closed:
                    view = {r[0] for r in state["raw"].execute("SELECT id FROM t").fetchall()}
                    ctx.count("txnview_reads")
                    want = model.txn_view()
                    if view != want:
                        violation("txn-view", op, status,
                                  f"connection sees {sorted(view)} model {sorted(want)} "
                                  f"(not-undone={sorted(view - want)} lost={sorted(want - view)})")
                        break
                # ---- flags
                conn = state["conn"]
                if not model.tainted:
                    ctx.count("flag_checks")
                    f1, f2 = conn.in_transaction(), conn.in_nested_transaction()
                    if model.failed:
                        f1 = model.in_transaction()     # in_transaction() of a failed root: not prescribed
                    if (f1, f2) != (model.in_transaction(), model.in_nested()):
                        violation("flags", op, status,
                                  f"in_transaction={f1} in_nested_transaction={f2} model=({model.in_transaction()},"
                                  f" {model.in_nested()}) after {opname(op)}")
                        break
        finally:
            for c in conns:
                try:
                    c.close()
                except Exception:  # noqa: BLE001
                    pass
            spy.fault = None
            obs.execute("DELETE FROM t")
            obs.execute("DELETE FROM ch")
            spy.clear()
    ctx.count("sequences")
    ctx.count("ops_performed", performed)
    ctx.count("inserted_rows", inserted)
    ctx.count("sa_warnings", len(wlog))
    ctx.case({"v": env.variant, "ops": [opname(o) for o in ops], "eb": engine_begin, "x": eb_exit},
             nontrivial=inserted >= 1 and ended >= 1)
    if ctx.evaluations <= 2 or (tag == "random" and ctx.evaluations % 997 == 0):
        ctx.sample({"variant": env.variant, "kind": tag, "trace": trace[:30]})
    return ok


def random_sequence(rng, length, variant):
    """Syntactic random sequence (the model decides at run time what is applicable)."""
    ops = []
    ncreate = 0
    weights = {
        "ins": 20, "nested": 12 if variant != "autocommit" else 0, "begin": 5, "commit": 5, "rollback": 4,
        "close": 2, "connect": 3, "cmb": 3, "cmn": 6 if variant != "autocommit" else 0, "xo": 5, "xe": 4,
        "hc": 10, "hr": 10, "hx": 4,
        "fc": 3, "fr": 2, "fhc": 4, "fhr": 3, "bad": 3,
    }
    names = list(weights)
    w = [weights[n] for n in names]
    for _ in range(length):
        k = rng.choices(names, w)[0]
        if k in ("hc", "hr", "hx", "fhc", "fhr"):
            if not ncreate:
                k = "ins"
            else:
                lo = max(0, ncreate - 4) if rng.random() < 0.8 else 0
                ops.append((k, rng.randrange(lo, ncreate)))
                continue
        if k in CREATING:
            ncreate += 1
        ops.append(k)
    return ops


# --------------------------------------------------------------------------
# other backends: the DBAPI call stream on a recording fake
# --------------------------------------------------------------------------
def fake_stream_part(ctx, nseq):
    """postgresql+psycopg2 / mysql+pymysql: the stream of SAVEPOINT / RELEASE / ROLLBACK TO /
    commit() / rollback() emitted for clean (never out-of-order) random sequences is well
    formed for a savepoint stack and ends the outer transaction exactly where the model does."""
    import re

    from vf.models.nested_txn_gg import NOACT, OK, RAISE, SKIP, TxnModel
    from vf.mon.fake_dbapi import recording_engine

    rng = ctx.rng
    for url in ("postgresql+psycopg2://u:p@h/db", "mysql+pymysql://u:p@h/db"):
        eng, fake = recording_engine(url)
        for _ in range(nseq):
            if not ctx.budget_ok():
                break
            ops = random_sequence(rng, rng.randint(4, 14), "fake")
            ops = [o for o in ops if (o if isinstance(o, str) else o[0]) not in ("close", "connect", "ins") + FAULT_OPS]
            model = TxnModel()
            exp, ap = model.expect("connect")
            ap(False)
            conn = eng.connect()
            rslots, rctx, trace = [], [], []
            stack = []
            bad = None
            with warnings.catch_warnings():
                warnings.simplefilter("ignore")
                for op in ops:
                    kind, arg = (op, None) if isinstance(op, str) else op
                    exp, apply = model.expect(kind, arg)
                    if exp == SKIP:
                        continue
                    if exp not in (OK, RAISE, NOACT):
                        break                     # would become out-of-order: stream part stops here
                    if kind in ("hc", "hr", "hx"):
                        h = model._slot(arg)
                        if h.state == "active" and h.kind == "nested" and model.frames[-1] is not h:
                            break
                    if kind in ("xo", "xe"):
                        h = model.ctx[-1]
                        if h.state == "active" and h.kind == "nested" and model.frames[-1] is not h:
                            break
                    mark = fake.mark()
                    new = None
                    raised = False
                    outer0 = bool(model.frames)
                    try:
                        if kind == "begin":
                            new = conn.begin()
                        elif kind == "nested":
                            new = conn.begin_nested()
                        elif kind == "cmb":
                            new = conn.begin()
                            new.__enter__()
                        elif kind == "cmn":
                            new = conn.begin_nested()
                            new.__enter__()
                        elif kind == "commit":
                            conn.commit()
                        elif kind == "rollback":
                            conn.rollback()
                        elif kind == "hc":
                            rslots[arg].commit()
                        elif kind == "hr":
                            rslots[arg].rollback()
                        elif kind == "hx":
                            rslots[arg].close()
                        elif kind == "xo":
                            rctx.pop().__exit__(None, None, None)
                        elif kind == "xe":
                            rctx.pop().__exit__(ValueError, ValueError("boom"), None)
                    except Exception:  # noqa: BLE001
                        raised = True
                    if (exp == OK and raised) or (exp == RAISE and not raised):
                        bad = ("raise-mismatch", opname(op), exp, raised)
                        break
                    stale_root = kind in ("hr", "hx") and model.status_of(model._slot(arg)) == "ended-root"
                    apply(raised)
                    if (conn.in_transaction(), conn.in_nested_transaction()) != (model.in_transaction(), model.in_nested()):
                        if stale_root:
                            ctx.violation("stale-root-handle-cancels-savepoint",
                                          f"{url}: {opname(op)} on an ended root handle changed in_nested_transaction()",
                                          {"url": url, "ops": [opname(o) for o in ops], "trace": trace})
                            bad = None
                            break
                        bad = ("flags", opname(op), conn.in_transaction(), conn.in_nested_transaction())
                        break
                    if kind in CREATING:
                        rslots.append(None if raised else new)
                        if kind in ("cmb", "cmn") and not raised:
                            rctx.append(new)
                    evs = [e for e in fake.since(mark) if e.kind in ("execute", "commit", "rollback")]
                    calls = []
                    for e in evs:
                        if e.kind == "execute":
                            m = re.match(r"(SAVEPOINT|RELEASE SAVEPOINT|ROLLBACK TO SAVEPOINT) (\w+)$", str(e.sql))
                            if not m:
                                bad = ("unexpected-statement", str(e.sql))
                                break
                            calls.append((m.group(1), m.group(2)))
                        else:
                            calls.append((e.kind, None))
                    if bad:
                        break
                    trace.append((opname(op), calls))
                    for what, name in calls:
                        if what == "SAVEPOINT":
                            if name in stack:
                                bad = ("savepoint-name-reused-while-open", name)
                            stack.append(name)
                        elif what in ("RELEASE SAVEPOINT", "ROLLBACK TO SAVEPOINT"):
                            if not stack or stack[-1] != name:
                                bad = ("savepoint-not-innermost", what, name, list(stack))
                            else:
                                stack.pop()
                        else:
                            stack.clear()
                    outer_ended = outer0 and not model.frames
                    ends = [c for c in calls if c[0] in ("commit", "rollback")]
                    if outer_ended:
                        want = "commit" if kind in ("commit", "hc", "xo") else "rollback"
                        if [c[0] for c in ends] != [want]:
                            bad = ("outer-end-call", want, calls)
                    elif ends:
                        bad = ("dbapi-end-call-without-outer-end", calls)
                    if len(stack) != max(0, model.depth() - 1):
                        bad = bad or ("savepoint-depth", len(stack), model.depth())
                    if bad:
                        break
            if bad:
                ctx.violation("fake-stream:" + bad[0], f"{url}: {bad} trace={trace[-6:]}",
                              {"url": url, "ops": [opname(o) for o in ops], "trace": trace, "bad": bad})
            conn.close()
            ctx.count("fake_stream_sequences")
            ctx.case({"fake": url, "ops": [opname(o) for o in ops]}, nontrivial=len(trace) >= 3)
        eng.dispose()


def run(ctx):
    rng = ctx.rng
    envs = {}

    def env(v):
        if v not in envs:
            envs[v] = Env(ctx, v)
        return envs[v]

    try:
        # ---- other dialects: emitted stream on a fake DBAPI
        fake_stream_part(ctx, ctx.pick({"quick": 60, "thorough": 1500}))
        # ---- random long sequences
        nrand = ctx.pick({"quick": 500, "thorough": 12000})
        maxlen = ctx.pick({"quick": 25, "thorough": 60})
        for k in range(nrand):
            if not ctx.budget_ok():
                break
            variant = ("ac_false", "begin_hook", "ac_false", "begin_hook", "autocommit")[k % 5]
            ops = random_sequence(rng, rng.randint(6, maxlen), variant)
            eb = k % 7 == 3 and variant != "autocommit"
            run_sequence(ctx, env(variant), ops, "random", engine_begin=eb, eb_exit=rng.choice(["xo", "xe"]))
            ctx.count("random_sequences")
        # ---- exhaustive part; partitioned by the first 2 ops (subtree index)
        plan = ctx.pick({
            "quick": [("faulty", FAULTY, 4), ("full", FULL, 4), ("reduced", REDUCED, 5)],
            "thorough": [("faulty", FAULTY, 5), ("full", FULL, 5), ("reduced", REDUCED, 7)],
        })
        sub = 0
        complete = True
        for name, alphabet, length in plan:
            for variant in ("ac_false", "begin_hook"):
                e = env(variant)
                last_prefix = None
                mine = False
                for seq in enum_sequences(alphabet, length):
                    pref = seq[:2]
                    if pref != last_prefix:
                        last_prefix = pref
                        sub += 1
                        mine = ctx.mine(sub)
                        if mine:
                            ctx.count("exhaustive_subtrees_done")
                    if not mine:
                        continue
                    if not ctx.budget_ok():
                        complete = False
                        break
                    run_sequence(ctx, e, seq, "exhaustive-" + name)
                    ctx.count("exhaustive_sequences")
        if not complete:
            ctx.count("exhaustive_cut_by_budget")
    finally:
        for e in envs.values():
            e.dispose()
