"""C24 -- pooled connections carry no state from a previous checkout.

Workload: histories of "users" on one spied SQLite *file* engine (legacy pysqlite
transaction mode, so ``sqlite3.Connection.in_transaction`` is the backend-visible
transaction state).  Every user checks a connection out, does one thing from a list of
ways to leave state behind (commit, rollback, nothing, leave the transaction open,
exception inside ``with conn.begin()``, IntegrityError then close, per-connection
isolation level SERIALIZABLE / READ UNCOMMITTED / AUTOCOMMIT, abandoned savepoint,
dropping the Connection without close + gc, detach, invalidate (hard / soft), DBAPI-level
work through ``engine.raw_connection()`` or ``conn.connection.cursor()`` that the
SQLAlchemy transaction never saw, a COMMIT that fails on a deferred foreign key (then close /
rollback + close / inside engine.begin() / through an ORM Session), a close() / rollback() /
commit() that itself raises a non-disconnect error (injected DBAPI failure or a raising
``rollback`` event hook) while the connection still goes back ...) and gives it back.  Configurations: QueuePool
(size 1-2, FIFO/LIFO), SingletonThreadPool, StaticPool, AssertionPool, NullPool x
reset_on_return in {rollback, commit, None} x ``reset`` event listener present / absent x
engine level isolation (default, READ UNCOMMITTED, AUTOCOMMIT) x skip_autocommit_rollback x
users' engine = the engine or an OptionEngine (logging_token and/or isolation_level applied on
every connect).  Users also apply several characteristics in separate execution_options()
calls, and invalidate + rollback + keep working on the transparently reconnected connection.

Monitor: a pool ``checkout`` event listener - it runs at the moment of hand-out - reads
the *raw* sqlite3 connection behind the spy for the connection being handed out:
  * ``in_transaction`` must be False;
  * the rows it sees == the rows an independent observer connection sees (no
    uncommitted write of an earlier user is pending on it);
  * the observer's rows == the model's committed ids (nobody's abandoned work was
    committed behind their back);
  * ``isolation_level`` attribute and ``PRAGMA read_uncommitted`` equal the values this
    same raw connection had at its *first* hand-out (fresh from the creator + the
    engine's on-connect setup = the engine default).
A new Connection must also start with the engine's execution options.

Guards: with ``reset_on_return=None`` the property is vacuous: the history runs, is
counted (``vacuous_checkouts``) and not judged.  With ``reset_on_return="commit"``
DBAPI-level work that SQLAlchemy never rolled back (raw_connection users, gc-dropped
Connections) is committed at return by design: those ids are "maybe committed".
SingletonThreadPool / StaticPool / AssertionPool get strictly sequential users.
"""
from __future__ import annotations

import gc
import warnings
import weakref

META = {
    "id": "C24",
    "level": "exploration",
    "technique": "pool checkout-event monitor reading the raw DBAPI connection (spy ledger) + independent observer connection, over generated histories of state-leaving users x pool class x reset_on_return",
    "level_text": "Seeded histories (3-9 users each) over 36 user behaviours x 5 pool classes x 3 reset modes x reset-listener x 3 engine isolation settings; every hand-out of a previously used raw connection is judged at the checkout event itself against the backend-visible state (in_transaction, uncommitted rows, committed rows, isolation level / autocommit attribute).",
    "level_note": "SQLite only (PostgreSQL / MariaDB have no server here): 'isolation level' is PRAGMA read_uncommitted plus the sqlite3 isolation_level attribute that implements AUTOCOMMIT. Single-threaded histories (concurrency is C25's subject); overlapping holders only on QueuePool(size 2).",
    "design_ref": "DESIGN.md section 4, C24",
    "rule": "case = (configuration, list of user behaviours); non-trivial = at least one hand-out of a raw connection that an earlier user had left dirty (open transaction / changed isolation / DBAPI-level work) was judged; distinct by (config, behaviours)",
    "shards": {"quick": 8, "thorough": 16},
    "soft_s": {"quick": 150, "thorough": 800},
    "require": ["judged_checkouts", "judged_after_dirty_user", "fresh_checkouts", "reset_rollbacks_seen",
                "isolation_changes_seen", "gc_finalized_users", "vacuous_checkouts", "exec_option_checks", "failed_commits",
                "multi_option_users", "reconnect_users", "failed_ends"],
    "assumptions": ["sqlite3.Connection.in_transaction reports the backend transaction state",
                    "a fresh connection's state is the engine default"],
}

ACTIONS = [
    "commit", "rollback", "nothing", "leave_open", "raise_in_begin", "integrity_error", "savepoint_abandon",
    "iso_serializable", "iso_read_uncommitted", "iso_autocommit", "iso_autocommit_leave", "iso_ru_leave_open",
    "iso_then_error", "gc_drop", "gc_drop_iso", "gc_drop_clean", "detach", "invalidate", "soft_invalidate",
    "iso_invalidate", "raw_leave_open", "raw_commit", "raw_via_conn", "exec_options_only", "begin_leave",
    "commit_fails_close", "commit_fails_rollback_close", "commit_fails_in_engine_begin", "session_commit_fails",
    "multi_options", "multi_options", "invalidate_continue", "invalidate_continue",
    "close_txn_rollback_fails", "close_rollback_hook_fails", "rollback_fails_then_close",
    "commit_dbapi_fails_then_close", "raw_rollback_fails_then_close",
]
# users whose LAST call raises (a non-disconnect error) although the connection still goes back
FAILING_END = {"close_txn_rollback_fails", "close_rollback_hook_fails", "rollback_fails_then_close",
               "commit_dbapi_fails_then_close", "raw_rollback_fails_then_close"}
FAILED_COMMIT = {"commit_fails_close", "commit_fails_rollback_close", "commit_fails_in_engine_begin",
                 "session_commit_fails"}
DIRTY = {
    "leave_open", "raise_in_begin", "integrity_error", "savepoint_abandon", "iso_serializable", "iso_read_uncommitted",
    "iso_autocommit", "iso_autocommit_leave", "iso_ru_leave_open", "iso_then_error", "gc_drop", "gc_drop_iso",
    "raw_leave_open", "raw_via_conn", "begin_leave",
} | FAILED_COMMIT | FAILING_END | {"multi_options", "invalidate_continue"}


class Monitor:
    def __init__(self, ctx, env):
        self.ctx = ctx
        self.env = env
        self.baseline = {}
        self.last_action = {}
        self.current = None
        self.judged_dirty = 0
        self.failed = False

    def raw_state(self, raw):
        return (raw.isolation_level, raw.execute("PRAGMA read_uncommitted").fetchone()[0])

    def at_checkout(self, dbapi_conn, rec, proxy):
        ctx, env = self.ctx, self.env
        raw = dbapi_conn.raw
        sid = dbapi_conn.spy_id
        prev = self.last_action.get(sid)
        self.last_action[sid] = self.current
        if sid not in self.baseline:
            self.baseline[sid] = self.raw_state(raw)
            ctx.count("fresh_checkouts")
            if raw.in_transaction:
                self.fail("open-transaction-on-fresh-connection", "fresh", "fresh raw connection already in a transaction")
            return
        if env.reset is None:
            ctx.count("vacuous_checkouts")
            return
        ctx.count("judged_checkouts")
        ctx.seen("reused_after", prev)
        if prev in DIRTY:
            ctx.count("judged_after_dirty_user")
            self.judged_dirty += 1
        if raw.in_transaction:
            self.fail("open-transaction-at-checkout", prev, f"raw connection #{sid} handed out with in_transaction=True")
            return
        mine = {r[0] for r in raw.execute("SELECT id FROM t").fetchall()}
        seen = {r[0] for r in env.obs.execute("SELECT id FROM t").fetchall()}
        if mine != seen:
            self.fail("uncommitted-writes-at-checkout", prev,
                      f"raw connection #{sid} sees {sorted(mine)} but committed state is {sorted(seen)}")
            return
        if not (env.sure <= seen <= env.sure | env.maybe):
            self.fail("abandoned-work-committed" if seen - env.sure - env.maybe else "committed-work-lost", prev,
                      f"committed rows {sorted(seen)} model sure={sorted(env.sure)} maybe={sorted(env.maybe)}")
            return
        st = self.raw_state(raw)
        base = self.baseline[sid]
        if st != base:
            part = "+".join(n for n, a, b in (("isolation_level-attribute", st[0], base[0]),
                                              ("read_uncommitted-pragma", st[1], base[1])) if a != b)
            self.fail(f"isolation-level-leak:{part}:engine-default-{env.config['engine_iso'] or 'unset'}", None,
                      f"raw connection #{sid} handed out with (isolation_level, read_uncommitted)={st}, "
                      f"fresh state was {self.baseline[sid]}")

    def fail(self, what, prev, text):
        self.failed = True
        env = self.env
        if prev in FAILED_COMMIT and what in ("open-transaction-at-checkout", "uncommitted-writes-at-checkout"):
            # one defect whatever the user did after the commit failed
            what, prev = "open-transaction-after-failed-commit", None
        self.ctx.violation(f"{what}:after-{prev}" if prev else what, f"{text} :: config={env.config} users={env.users_done + [self.current]}",
                           {"config": env.config, "users": env.users_done + [self.current], "previous_user": prev,
                            "dbapi_tail": [(e.kind, e.conn, e.get("sql") or e.get("name"), e.get("value"))
                                           for e in env.spy.log[-25:]]})


class Env:
    def __init__(self, ctx, path, obs, config):
        import sqlalchemy as sa
        from sqlalchemy import pool

        from vf.mon.dbapi_spy import Spy

        self.ctx = ctx
        self.sa = sa
        self.config = config
        self.obs = obs
        self.spy = Spy()
        self.reset = config["reset"]
        kw = {"pool_reset_on_return": self.reset}
        pc = config["pool"]
        if pc == "queue":
            kw.update(poolclass=pool.QueuePool, pool_size=config["size"], max_overflow=0, pool_use_lifo=config["lifo"])
        else:
            kw.update(poolclass={"singleton": pool.SingletonThreadPool, "static": pool.StaticPool,
                                 "assertion": pool.AssertionPool, "null": pool.NullPool}[pc])
        if config["engine_iso"]:
            kw["isolation_level"] = config["engine_iso"]
        if config.get("skip_acr"):
            kw["skip_autocommit_rollback"] = True
        self.eng = self.spy.engine(path, connect_kw={"timeout": 0.05}, **kw)
        self.hook_boom = False

        def rollback_hook(conn):
            if self.hook_boom:
                self.hook_boom = False
                raise RuntimeError("rollback hook failed")
        sa.event.listen(self.eng, "rollback", rollback_hook)
        # what users connect through: the engine itself or an OptionEngine that applies
        # connection characteristics (logging_token / isolation_level) on every connect
        self.engine_opts = dict(config.get("engine_opts") or {})
        self.ueng = self.eng.execution_options(**self.engine_opts) if self.engine_opts else self.eng
        self.table = sa.table("t", sa.column("id"))
        self.sure, self.maybe = set(), set()
        self.users_done = []
        self.mon = Monitor(ctx, self)
        def fk_on(dbapi_conn, rec):
            dbapi_conn.raw.execute("PRAGMA foreign_keys=ON")     # deferred FK makes commit() itself fail
        sa.event.listen(self.eng, "connect", fk_on)
        self.child = sa.table("ch", sa.column("id"), sa.column("pid"))
        sa.event.listen(self.eng, "checkout", self.mon.at_checkout)
        if config["reset_listener"]:
            def on_reset(dbapi_conn, rec, state):
                ctx.count("reset_events")
            sa.event.listen(self.eng, "reset", on_reset)
        self.nid = 0

    def newid(self):
        self.nid += 1
        return self.nid

    def raw_autocommit(self):
        """what a pooled DBAPI connection is at when no Connection option was applied"""
        return self.config["engine_iso"] == "AUTOCOMMIT"

    def engine_autocommit(self):
        """default of a Connection obtained from the users' engine"""
        return (self.engine_opts.get("isolation_level") or self.config["engine_iso"]) == "AUTOCOMMIT"


def drop_and_collect(ref):
    """The caller deleted its last reference to a Connection: run the cyclic gc until the
    weakref is dead (young generations first: a full collection is slow)."""
    for gen in (0, 1, 2):
        if ref() is None:
            return
        gc.collect(gen)
    if ref() is not None:
        raise RuntimeError("dropped Connection was not collected")


def run_user(env, action, rng):
    """One user.  Updates env.sure / env.maybe with what the *specification* says about
    the ids it wrote."""
    sa, eng, t = env.sa, env.ueng, env.table
    ac = env.engine_autocommit()
    ac_raw = env.raw_autocommit()
    commit_reset = env.reset == "commit"

    def ins(conn, i):
        conn.execute(t.insert().values(id=i))

    i = env.newid()
    if action == "commit":
        with eng.connect() as c:
            ins(c, i)
            c.commit()
        env.sure.add(i)
    elif action == "rollback":
        with eng.connect() as c:
            ins(c, i)
            c.rollback()
        if ac:
            env.sure.add(i)
    elif action == "nothing":
        with eng.connect() as c:
            c.execute(sa.select(t.c.id)).all()
    elif action in ("leave_open", "begin_leave"):
        c = eng.connect()
        if action == "begin_leave":
            c.begin()
        ins(c, i)
        c.close()
        if ac:
            env.sure.add(i)
    elif action == "raise_in_begin":
        try:
            with eng.connect() as c:
                with c.begin():
                    ins(c, i)
                    raise ValueError("user error")
        except ValueError:
            pass
        if ac:
            env.sure.add(i)
    elif action == "integrity_error":
        c = eng.connect()
        ins(c, i)
        try:
            ins(c, i)
        except sa.exc.IntegrityError:
            pass
        c.close()
        if ac:
            env.sure.add(i)
    elif action == "savepoint_abandon":
        c = eng.connect()
        if ac:
            ins(c, i)
            env.sure.add(i)
        else:
            ins(c, i)
            c.begin_nested()
            ins(c, env.newid())
        c.close()
    elif action in ("iso_serializable", "iso_read_uncommitted", "iso_autocommit", "iso_autocommit_leave",
                    "iso_ru_leave_open", "iso_then_error", "iso_invalidate", "gc_drop_iso"):
        level = {"iso_serializable": "SERIALIZABLE", "iso_read_uncommitted": "READ UNCOMMITTED",
                 "iso_ru_leave_open": "READ UNCOMMITTED", "iso_autocommit": "AUTOCOMMIT",
                 "iso_autocommit_leave": "AUTOCOMMIT"}.get(action) or rng.choice(
                     ["AUTOCOMMIT", "READ UNCOMMITTED", "SERIALIZABLE"])
        c = eng.connect().execution_options(isolation_level=level)
        env.ctx.count("isolation_changes_seen")
        eff_ac = level == "AUTOCOMMIT"
        ins(c, i)
        if eff_ac:
            env.sure.add(i)
        if action in ("iso_serializable", "iso_read_uncommitted", "iso_autocommit"):
            c.commit()
            env.sure.add(i)
            c.close()
        elif action in ("iso_autocommit_leave", "iso_ru_leave_open"):
            c.close()
        elif action == "iso_then_error":
            try:
                ins(c, i)
            except sa.exc.IntegrityError:
                pass
            c.close()
        elif action == "iso_invalidate":
            c.invalidate()
            c.close()
        elif action == "gc_drop_iso":
            if not eff_ac and commit_reset:
                env.maybe.add(i)
            ref = weakref.ref(c)
            del c
            drop_and_collect(ref)
            env.ctx.count("gc_finalized_users")
    elif action in ("gc_drop", "gc_drop_clean"):
        c = eng.connect()
        if action == "gc_drop":
            ins(c, i)
            if ac:
                env.sure.add(i)
            elif commit_reset:
                env.maybe.add(i)
        else:
            c.execute(sa.select(t.c.id)).all()
            c.commit()
        ref = weakref.ref(c)
        del c
        drop_and_collect(ref)
        env.ctx.count("gc_finalized_users")
    elif action == "detach":
        c = eng.connect()
        c.detach()
        ins(c, i)
        if rng.random() < 0.5:
            c.commit()
            env.sure.add(i)
        elif ac:
            env.sure.add(i)
        c.close()
    elif action == "invalidate":
        c = eng.connect()
        ins(c, i)
        if ac:
            env.sure.add(i)
        c.invalidate()
        c.close()
    elif action == "soft_invalidate":
        c = eng.connect()
        ins(c, i)
        if ac:
            env.sure.add(i)
        c.connection.invalidate(soft=True)
        c.close()
    elif action in ("raw_leave_open", "raw_commit"):
        rc = eng.raw_connection()
        cur = rc.cursor()
        cur.execute("INSERT INTO t (id) VALUES (?)", (i,))
        cur.close()
        if action == "raw_commit":
            rc.commit()
            env.sure.add(i)
        elif ac_raw:
            env.sure.add(i)
        elif commit_reset:
            env.maybe.add(i)
        rc.close()
    elif action == "raw_via_conn":
        c = eng.connect()
        cur = c.connection.cursor()
        cur.execute("INSERT INTO t (id) VALUES (?)", (i,))
        cur.close()
        if ac:
            env.sure.add(i)
        elif commit_reset:
            env.maybe.add(i)
        c.close()
    elif action in FAILING_END:
        import sqlite3

        def arm(kind):
            def fault(ev):
                if ev.kind == kind:
                    env.spy.fault = None
                    env.ctx.count("injected_end_failures")
                    return sqlite3.OperationalError("injected failure of %s()" % kind)
            env.spy.fault = fault

        try:
            if action == "raw_rollback_fails_then_close":
                rc = eng.raw_connection()
                cur = rc.cursor()
                cur.execute("INSERT INTO t (id) VALUES (?)", (i,))
                cur.close()
                arm("rollback")
                try:
                    rc.rollback()
                except sqlite3.OperationalError:
                    env.ctx.count("failed_ends")
                rc.close()
                if ac_raw:
                    env.sure.add(i)
                elif commit_reset:
                    env.maybe.add(i)
            else:
                c = eng.connect()
                ins(c, i)
                if ac:
                    env.sure.add(i)
                elif commit_reset and action != "commit_dbapi_fails_then_close":
                    env.maybe.add(i)      # released with the pool's regular reset, which is a commit
                try:
                    if action == "close_txn_rollback_fails":
                        arm("rollback")
                        c.close()
                    elif action == "close_rollback_hook_fails":
                        env.hook_boom = True
                        c.close()
                    elif action == "rollback_fails_then_close":
                        arm("rollback")
                        c.rollback()
                    else:
                        arm("commit")
                        c.commit()
                        env.sure.add(i)           # (only if the armed failure did not happen)
                except (sa.exc.DBAPIError, RuntimeError):
                    env.ctx.count("failed_ends")
                c.close()
                del c
        finally:
            env.spy.fault = None
            env.hook_boom = False
    elif action in FAILED_COMMIT:
        # a row whose deferred foreign key is violated: the INSERT succeeds, COMMIT fails
        # (under AUTOCOMMIT the statement itself fails) and the transaction stays open
        bad = env.child.insert().values(id=i, pid=-i)
        if action == "commit_fails_in_engine_begin":
            try:
                with eng.begin() as c:
                    ins(c, i)
                    c.execute(bad)
            except sa.exc.IntegrityError:
                env.ctx.count("failed_commits")
        elif action == "session_commit_fails":
            from sqlalchemy.orm import Session

            s = Session(eng)
            try:
                s.execute(t.insert().values(id=i))
                s.execute(bad)
                s.commit()
            except sa.exc.IntegrityError:
                env.ctx.count("failed_commits")
            s.close()
        else:
            c = eng.connect()
            try:
                ins(c, i)
                c.execute(bad)
                c.commit()
            except sa.exc.IntegrityError:
                env.ctx.count("failed_commits")
            if action == "commit_fails_rollback_close":
                c.rollback()
            c.close()
        if ac:
            env.sure.add(i)
    elif action == "multi_options":
        # several connection characteristics applied in SEPARATE execution_options() calls
        levels = ["AUTOCOMMIT", "AUTOCOMMIT", "READ UNCOMMITTED", "SERIALIZABLE"]
        steps = rng.sample([("logging_token", "u%d" % i), ("isolation_level", rng.choice(levels)),
                            ("stream_results", True), ("isolation_level", rng.choice(levels))], rng.randint(2, 3))
        c = eng.connect()
        eff_ac = ac
        for k, v in steps:
            c.execution_options(**{k: v})
            if k == "isolation_level":
                eff_ac = v == "AUTOCOMMIT"
                env.ctx.count("isolation_changes_seen")
        env.ctx.count("multi_option_users")
        ins(c, i)
        how = rng.choice(["commit", "close", "close", "gc"])
        if eff_ac or how == "commit":
            env.sure.add(i)
        if how == "commit":
            c.commit()
        if how == "gc":
            if not eff_ac and commit_reset:
                env.maybe.add(i)
            ref = weakref.ref(c)
            del c
            drop_and_collect(ref)
            env.ctx.count("gc_finalized_users")
        else:
            c.close()
    elif action == "invalidate_continue":
        # invalidate in the middle, roll back, go on working on the reconnected connection
        level = rng.choice([None, "AUTOCOMMIT", "AUTOCOMMIT", "READ UNCOMMITTED"])
        c = eng.connect()
        believed_ac = ac
        if level:
            c.execution_options(isolation_level=level)
            believed_ac = level == "AUTOCOMMIT"
            env.ctx.count("isolation_changes_seen")
        ins(c, i)
        if believed_ac:
            env.sure.add(i)
        c.invalidate()
        c.rollback()
        j = env.newid()
        ins(c, j)                      # transparent reconnect: a DBAPI connection at the pool default
        env.ctx.count("reconnect_users")
        end = rng.choice(["close", "close", "rollback_close", "commit_close"])
        if ac_raw or end == "commit_close":
            env.sure.add(j)
        elif believed_ac:
            env.maybe.add(j)           # whether the option is re-applied on reconnect is not prescribed
        if end == "rollback_close":
            c.rollback()
        elif end == "commit_close":
            c.commit()
        c.close()
    elif action == "exec_options_only":
        c = eng.connect().execution_options(stream_results=True, logging_token="u%d" % i, yield_per=3)
        c.execute(sa.select(t.c.id)).all()
        c.close()
    else:
        raise RuntimeError(action)


def run_history(ctx, path, obs, config, actions):
    rng = ctx.rng
    obs.execute("DELETE FROM t")
    obs.execute("DELETE FROM ch")
    env = Env(ctx, path, obs, config)
    eng = env.eng
    try:
        with warnings.catch_warnings():
            warnings.simplefilter("ignore")
            for k, action in enumerate(actions):
                env.mon.current = action
                if action == "overlap":
                    # two holders at once (QueuePool size 2, reset enabled): A leaves a
                    # transaction open and returns, then B commits
                    a, b = env.ueng.connect(), env.ueng.connect()
                    ia, ib = env.newid(), env.newid()
                    a.execute(env.table.insert().values(id=ia))
                    a.close()
                    if env.engine_autocommit():
                        env.sure.add(ia)
                    b.execute(env.table.insert().values(id=ib))
                    b.commit()
                    b.close()
                    env.sure.add(ib)
                else:
                    try:
                        run_user(env, action, rng)
                    except Exception:
                        if not env.mon.failed:      # already reported at the checkout: its consequence
                            raise
                env.users_done.append(action)
                if env.mon.failed:
                    break
                # a brand new Connection starts from the engine's execution options
                if k % 3 == 2 or k == len(actions) - 1:
                    env.mon.current = "probe"
                    with env.ueng.connect() as c:
                        ctx.count("exec_option_checks")
                        opts = dict(c.get_execution_options())
                        if opts != dict(env.ueng.get_execution_options()):
                            ctx.violation("execution-options-leak:after-" + action,
                                          f"new Connection has execution options {opts}",
                                          {"config": config, "users": env.users_done})
                            break
                    if env.mon.failed:
                        break
        events = env.spy.log
        ctx.count("reset_rollbacks_seen", sum(1 for e in events if e.kind == "rollback"))
        ctx.count("dbapi_events", len(events))
    finally:
        eng.dispose()
        if env.mon.failed:
            # a reported history stops in the middle: do not let its abandoned connections
            # keep file locks into the next history
            gc.collect()
            for sc in list(env.spy.open.values()):
                try:
                    sc.raw.close()
                except Exception:  # noqa: BLE001
                    pass
    ctx.count("histories")
    ctx.case({"config": config, "users": actions}, nontrivial=env.mon.judged_dirty >= 1)
    if ctx.evaluations <= 3:
        ctx.sample({"config": config, "users": actions, "judged_after_dirty": env.mon.judged_dirty})


def run(ctx):
    import sqlite3

    from vf.mon.dbapi_spy import observer

    rng = ctx.rng
    path = ctx.tmppath(".db")
    c = sqlite3.connect(path)
    c.execute("CREATE TABLE t (id INTEGER PRIMARY KEY)")
    c.execute("CREATE TABLE p (id INTEGER PRIMARY KEY)")
    c.execute("CREATE TABLE ch (id INTEGER PRIMARY KEY, pid INTEGER REFERENCES p(id) DEFERRABLE INITIALLY DEFERRED)")
    c.commit()
    c.close()
    obs = observer(path)
    nhist = ctx.pick({"quick": 220, "thorough": 4000})
    try:
        for k in range(nhist):
            if not ctx.budget_ok():
                break
            pool = rng.choice(["queue", "queue", "queue", "singleton", "static", "assertion", "null"])
            config = {
                "pool": pool,
                "size": rng.choice([1, 1, 2]),
                "lifo": rng.random() < 0.3,
                "reset": rng.choice(["rollback", "rollback", "rollback", "commit", None]),
                "reset_listener": rng.random() < 0.3,
                "engine_iso": rng.choice([None, None, None, "READ UNCOMMITTED", "AUTOCOMMIT"]),
                "skip_acr": rng.random() < 0.3,
                "engine_opts": rng.choice([None, None, {"logging_token": "worker"}, {"logging_token": "worker"},
                                           {"isolation_level": "AUTOCOMMIT"},
                                           {"logging_token": "w", "isolation_level": "READ UNCOMMITTED"}]),
            }
            n = rng.randint(3, 9)
            acts = ACTIONS if config["reset"] is not None else [a for a in ACTIONS if a not in ("detach",) and a not in FAILED_COMMIT
                                                                  and a not in FAILING_END]
            actions = [rng.choice(acts) for _ in range(n)]
            # a clean user after the dirty ones, so the last dirty state is looked at too
            actions.append(rng.choice(["nothing", "commit"]))
            if pool == "queue" and config["size"] == 2 and config["reset"] is not None and rng.random() < 0.5:
                actions.insert(rng.randrange(len(actions)), "overlap")
            run_history(ctx, path, obs, config, actions)
    finally:
        obs.close()
