"""C25 -- the pool never hands one connection to two holders and respects its limits.

Deciding monitor: a ledger of raw connections (opened / closed / detached / held-by)
updated by the worker threads themselves while M-sched guarantees that exactly one
of them runs at a time, so the ledger cannot race with the state it shadows.  The
scheduler preempts at every source line of pool/impl.py, pool/base.py, util/queue.py
and at every operation on the pool's locks / conditions (scheduler-aware classes
substituted for the name ``threading`` in those modules); time is virtual.

Oracles (QueuePool FIFO/LIFO):
  * two-holders:      a raw connection returned by connect() is not currently held.
                      (a holder's interval starts when connect() returns and ends just
                      before it calls close()/invalidate()/detach()/drops the reference)
  * over-limit:       at every creator() call, pool-owned open connections
                      (opened - closed - detached) < pool_size + max_overflow.
  * lost-wakeup:      a queue waiter's virtual timer fires only when the queue is empty
                      (virtual timers fire only when no thread is runnable, so a waiter
                      that sleeps to its deadline next to an idle connection was not
                      notified of the return).
  * timeout-with-free-capacity: TimeoutError only when live checkouts + workers that are
                      mid-operation (may hold a record in transit; barging is legitimate)
                      reach the limit.
  * quiescent (all workers between operations / finished): checkedout() == live
                      checkouts; checkedin() <= pool_size; idle records' connections are
                      exactly the pool-owned open connections.
NullPool: every checkout gets a never-seen connection, closed at return.
SingletonThreadPool (threads <= pool_size): a thread always gets the same connection,
never another thread's.  StaticPool: sharing one connection is its contract, only
"at most one pool-owned open connection at quiescence, no use-after-close" is judged.
AsyncAdaptedQueuePool: asyncio tasks through greenlet_spawn with seeded extra yields.

Guards: dispose() resets the overflow counter while connections are checked out (by
design), so histories containing dispose are judged only for two-holders.
max_overflow=-1 uses an unlocked ``+= 1`` on one source line: below LINE granularity,
not judged for over-limit (limit is infinite there anyway).
"""
from __future__ import annotations

import itertools

META = {
    "id": "C25",
    "level": "exploration",
    "technique": "deterministic thread scheduler (sys.monitoring LINE + lock-op preemption, virtual time) with a connection ledger monitor; bounded-preemption enumeration in thorough tier",
    "level_text": "Systematic exploration of thread schedules of 2-4 workers x 2-5 pool operations on QueuePool (FIFO/LIFO), NullPool, SingletonThreadPool, StaticPool and asyncio task interleavings on AsyncAdaptedQueuePool; every schedule is judged online by a ledger of raw connections. Quick: seeded random schedules; thorough: more schedules plus all schedules with <=2 forced preemptions on small configurations.",
    "level_note": "Preemption granularity is a source line of pool/impl.py, pool/base.py, util/queue.py plus every lock/condition operation; races inside one line and free-threaded-only races are out of reach. DBAPI connections are mock objects (the pool never looks inside them). Virtual time replaces time.time in pool.base and util.queue.",
    "design_ref": "DESIGN.md section 4, C25",
    "rule": "case = one schedule (config, worker programs, decision sequence); non-trivial = schedule with >=1 preemption and >=2 threads that each completed a checkout; distinct by (config, programs, switch trace digest)",
    "shards": {"quick": 8, "thorough": 16},
    "soft_s": {"quick": 50, "thorough": 900},
    "require": ["schedules", "preemptions", "line_events", "blocking_waits", "virtual_timeouts", "quiescent_checks", "async_schedules", "stress_rounds"],
    "assumptions": ["the scheduler itself preserves mutual exclusion of its substituted locks (self-tested by the selftest mutations and by a lock self-check at start-up)"],
}


class MockConn:
    __slots__ = ("cid", "closed", "__weakref__")

    def __init__(self, cid):
        self.cid = cid
        self.closed = False

    def close(self):
        self.closed = True

    def rollback(self):
        pass

    def commit(self):
        pass

    def cursor(self):
        raise AssertionError("not used")

    def __repr__(self):
        return f"<conn {self.cid}>"


class Ledger:
    def __init__(self, ctx, cfg, limit):
        self.ctx = ctx
        self.cfg = cfg
        self.limit = limit
        self.ids = itertools.count(1)
        self.opened = {}
        self.detached = set()
        self.holders = {}        # cid -> worker
        self.slots = 0           # live checkouts (acquired, not yet returned/detached)
        self.in_op = {}
        self.judge_limits = True
        self.events = []
        self.max_open = 0
        self.waiting = {}        # worker inside connect() -> peak load seen during the call
        from vf.mon import sched as _sched
        self.vtime = _sched.vtime

    def load_for(self, name):
        return self.slots + sum(1 for w, b in self.in_op.items() if b and w != name)

    def touch(self):
        """Called after every change of slots / in_op: remembers, for every worker that is
        inside connect(), the highest load (live checkouts + other workers mid-operation,
        which may hold a record in transit) seen at any time during that call."""
        for w in self.waiting:
            ld = self.load_for(w)
            if ld > self.waiting[w]:
                self.waiting[w] = ld

    def ev(self, *a):
        if len(self.events) < 400:
            self.events.append(a)

    def pool_owned_open(self):
        return [c for c in self.opened.values() if not c.closed and c.cid not in self.detached]

    def creator(self):
        n = len(self.pool_owned_open())
        self.ev("create", n)
        if self.judge_limits and self.limit is not None and n >= self.limit:
            self.ctx.violation(
                "queuepool-over-limit",
                f"creator() called with {n} pool-owned connections open, limit {self.limit}, cfg={self.cfg}",
                {"cfg": self.cfg, "events": self.events[-40:]},
            )
        c = MockConn(next(self.ids))
        self.opened[c.cid] = c
        self.max_open = max(self.max_open, n + 1)
        return c


def qp_worker(ctx, pool, led, name, prog, exc_mod, rng_choices):
    """Returns the function executed by one managed thread."""

    def set_op(flag):
        led.in_op[name] = flag
        led.touch()

    def slots(delta):
        led.slots += delta
        led.touch()

    def run():
        held = []
        k = 0
        try:
            for op in prog:
                set_op(True)
                if op == "co":
                    led.waiting[name] = led.load_for(name)
                    t_start = led.vtime()
                    try:
                        f = pool.connect()
                    except exc_mod.TimeoutError:
                        peak = led.waiting.pop(name)
                        waited = led.vtime() - t_start
                        if waited < led.cfg["timeout"] - 0.01:
                            # virtual time: a correct waiter re-waits for the remaining time
                            # after being notified-and-robbed; giving up early is a violation
                            ctx.violation(
                                "timeout-before-deadline",
                                f"TimeoutError after {waited:.4f} virtual seconds, timeout {led.cfg['timeout']}, cfg={led.cfg}",
                                {"cfg": led.cfg, "events": led.events[-60:]},
                            )
                        led.ev(name, "timeout", led.slots, peak)
                        ctx.count("timeout_errors")
                        # TimeoutError is legitimate if at ANY time during this connect() call
                        # the load (live checkouts + other workers mid-operation, which may
                        # hold a record in transit: barging is legitimate) reached the limit.
                        if led.judge_limits and led.limit is not None and peak < led.limit:
                            ctx.violation(
                                "timeout-with-free-capacity",
                                f"TimeoutError although load never exceeded {peak} < limit {led.limit} during the whole wait, cfg={led.cfg}",
                                {"cfg": led.cfg, "events": led.events[-60:]},
                            )
                        set_op(False)
                        continue
                    led.waiting.pop(name, None)
                    raw = f.dbapi_connection
                    led.ev(name, "got", raw.cid)
                    if raw.closed:
                        ctx.violation("closed-connection-handed-out", f"{raw} cfg={led.cfg}", {"cfg": led.cfg, "events": led.events[-60:]})
                    if raw.cid in led.holders:
                        ctx.violation(
                            "two-holders",
                            f"connection {raw.cid} handed to {name} while held by {led.holders[raw.cid]} cfg={led.cfg}",
                            {"cfg": led.cfg, "events": led.events[-60:]},
                        )
                    led.holders[raw.cid] = name
                    slots(+1)
                    held.append(f)
                    ctx.count("checkouts")
                elif held:
                    f = held.pop(0 if rng_choices[k % len(rng_choices)] else -1)
                    k += 1
                    raw = f.dbapi_connection
                    if raw is not None:
                        led.holders.pop(raw.cid, None)
                    led.ev(name, op, raw.cid if raw is not None else None)
                    if op == "ci":
                        f.close()
                        slots(-1)
                    elif op == "inv":
                        f.invalidate()
                        f.close()
                        slots(-1)
                    elif op == "sinv":
                        f.invalidate(soft=True)
                        f.close()
                        slots(-1)
                    elif op == "det":
                        led.detached.add(raw.cid)
                        f.detach()
                        slots(-1)
                        f.close()
                    elif op == "drop":
                        del f  # refcount finaliser -> _finalize_fairy in this thread
                        slots(-1)
                    elif op == "dispose":
                        led.holders[raw.cid] = name
                        held.append(f)
                        led.judge_limits = False
                        pool.dispose()
                    f = None
                set_op(False)
        finally:
            set_op(True)
            while held:
                f = held.pop()
                raw = f.dbapi_connection
                if raw is not None:
                    led.holders.pop(raw.cid, None)
                led.ev(name, "final-close", raw.cid if raw is not None else None)
                f.close()
                slots(-1)
                f = None
            set_op(False)

    return run


def gen_prog(rng, nops, allow_dispose):
    prog = []
    depth = 0
    for _ in range(nops):
        if depth == 0 or rng.random() < 0.5:
            prog.append("co")
            depth += 1
        else:
            r = rng.random()
            op = "ci" if r < 0.5 else "inv" if r < 0.62 else "sinv" if r < 0.72 else "det" if r < 0.82 else "drop" if r < 0.95 else ("dispose" if allow_dispose else "ci")
            prog.append(op)
            if op != "dispose":
                depth -= 1
    return prog


def run_queuepool_schedule(ctx, sa_pool, sa_exc, sched_mod, cfg, progs, rng, forced=None):
    led = Ledger(ctx, cfg, None if cfg["max_overflow"] < 0 or cfg["pool_size"] == 0 else cfg["pool_size"] + cfg["max_overflow"])
    pool = sa_pool.QueuePool(led.creator, pool_size=cfg["pool_size"], max_overflow=cfg["max_overflow"],
                             timeout=cfg["timeout"], use_lifo=cfg["lifo"], reset_on_return=None)
    s = sched_mod.Scheduler(rng, switch_prob=cfg.get("p", 0.15), forced=forced)
    choices = [rng.random() < 0.5 for _ in range(7)]
    for i, prog in enumerate(progs):
        s.spawn(qp_worker(ctx, pool, led, f"w{i}", prog, sa_exc, choices), f"w{i}")

    q = pool._pool

    def on_step(sch, tag):
        # quiescent invariant: every worker between operations
        if led.judge_limits and not any(led.in_op.values()):
            ctx.count("quiescent_checks")
            co = pool.checkedout()
            if co != led.slots:
                ctx.violation(
                    "checkedout-count-mismatch",
                    f"checkedout()={co} but {led.slots} live checkouts at a quiescent point cfg={cfg}",
                    {"cfg": cfg, "progs": progs, "events": led.events[-60:]},
                )

    s.on_step = on_step
    orig_next = s._next_after_block

    def next_after_block():
        before = s.timeouts_fired
        # lost-wakeup oracle: a timer is about to fire (no runnable task) while the queue holds an idle record
        if not s._runnable():
            waiting = [t for t in s.tasks if t.state == "blocked" and t.wake_time is not None and t.blocked_on is q.not_empty]
            if waiting and len(q.queue) > 0:
                ctx.violation(
                    "lost-wakeup",
                    f"waiter {waiting[0].name} sleeps to its deadline while {len(q.queue)} connection(s) idle cfg={cfg}",
                    {"cfg": cfg, "progs": progs, "events": led.events[-60:]},
                )
        return orig_next()

    s._next_after_block = next_after_block
    s.run()
    ctx.count("schedules")
    ctx.count("preemptions", s.preemptions)
    ctx.count("line_events", s.line_events)
    ctx.count("blocking_waits", s.blocks)
    ctx.count("virtual_timeouts", s.timeouts_fired)
    ctx.maxi("max_simultaneous_open", led.max_open)
    if s.deadlock:
        ctx.violation("deadlock", f"all threads blocked, cfg={cfg} progs={progs}", {"cfg": cfg, "progs": progs, "trace": s.trace[-50:]})
    if s.step_limit_hit:
        ctx.count("step_limit_hit")
    for t in s.tasks:
        if t.exc is not None:
            ctx.violation(
                f"worker-exception:{type(t.exc).__name__}",
                f"{t.name}: {t.exc!r} cfg={cfg} progs={progs}",
                {"cfg": cfg, "progs": progs, "events": led.events[-60:]},
            )
    # final quiescent state
    if led.judge_limits and not s.deadlock and not s.step_limit_hit:
        ctx.count("quiescent_checks")
        idle_conns = [r.dbapi_connection for r in q.queue if r.dbapi_connection is not None]
        owned = led.pool_owned_open()
        final = (pool.checkedout(), pool.checkedin(), len(owned))
        ctx.seen("final_pool_state", [cfg["pool_size"], cfg["max_overflow"], *final])
        if pool.checkedout() != 0:
            ctx.violation("checkedout-nonzero-at-end", f"checkedout()={pool.checkedout()} after all released cfg={cfg} progs={progs}", {"cfg": cfg, "progs": progs, "events": led.events[-80:]})
        if pool.checkedin() > max(cfg["pool_size"], 0) and cfg["pool_size"] > 0:
            ctx.violation("idle-over-pool-size", f"checkedin()={pool.checkedin()} > pool_size cfg={cfg}", {"cfg": cfg, "progs": progs})
        if sorted(c.cid for c in idle_conns) != sorted(c.cid for c in owned):
            ctx.violation(
                "idle-set-differs-from-open-set",
                f"idle={sorted(c.cid for c in idle_conns)} open={sorted(c.cid for c in owned)} cfg={cfg} progs={progs}",
                {"cfg": cfg, "progs": progs, "events": led.events[-80:]},
            )
    npre = s.preemptions
    completed = sum(1 for p in progs if "co" in p)
    ctx.case({"cfg": cfg, "progs": progs, "trace": s.digest()}, nontrivial=npre >= 1 and completed >= 2)
    ctx.seen("schedule_digest", s.digest())
    pool.dispose()
    return s, led


def run_simple_pool_schedule(ctx, sa_pool, sched_mod, kind, nthreads, rng):
    ids = itertools.count(1)
    opened = {}

    def creator():
        c = MockConn(next(ids))
        opened[c.cid] = c
        return c

    if kind == "null":
        pool = sa_pool.NullPool(creator, reset_on_return=None)
    elif kind == "singleton":
        pool = sa_pool.SingletonThreadPool(creator, pool_size=nthreads + 1, reset_on_return=None)
    else:
        pool = sa_pool.StaticPool(creator, reset_on_return=None)
    seen_by_thread = {}
    ever = {}
    s = sched_mod.Scheduler(rng, switch_prob=0.2)

    def worker(name):
        def run():
            for _ in range(3):
                f = pool.connect()
                raw = f.dbapi_connection
                if raw.closed:
                    ctx.violation(f"{kind}pool-closed-connection-handed-out", f"{raw}", {"kind": kind})
                if kind == "null":
                    if raw.cid in ever:
                        ctx.violation("nullpool-connection-reused", f"{raw} seen before", {"kind": kind})
                    ever[raw.cid] = name
                elif kind == "singleton":
                    prev = seen_by_thread.setdefault(name, raw.cid)
                    if prev != raw.cid:
                        ctx.violation("singletonthreadpool-different-connection-same-thread", f"{name}: {prev} then {raw.cid}", {"kind": kind})
                    owner = ever.setdefault(raw.cid, name)
                    if owner != name:
                        ctx.violation("singletonthreadpool-connection-crossed-threads", f"{raw} of {owner} given to {name}", {"kind": kind})
                f.close()
                if kind == "null" and not raw.closed:
                    ctx.violation("nullpool-not-closed-at-return", f"{raw}", {"kind": kind})
                f = None

        return run

    for i in range(nthreads):
        s.spawn(worker(f"w{i}"), f"w{i}")
    s.run()
    ctx.count("schedules")
    ctx.count("simple_pool_schedules")
    ctx.count("preemptions", s.preemptions)
    ctx.count("line_events", s.line_events)
    for t in s.tasks:
        if t.exc is not None:
            ctx.violation(f"worker-exception:{kind}:{type(t.exc).__name__}", f"{t.name}: {t.exc!r}", {"kind": kind})
    if kind == "static":
        n_open = sum(1 for c in opened.values() if not c.closed)
        ctx.seen("staticpool_open_at_end", n_open)
    ctx.case({"kind": kind, "n": nthreads, "trace": s.digest()}, nontrivial=s.preemptions >= 1)
    pool.dispose()


def lock_selfcheck(sched_mod, rng):
    """The harness must not itself break mutual exclusion (lesson recorded in DESIGN)."""
    for _ in range(20):
        s = sched_mod.Scheduler(rng, switch_prob=0.5)
        lk = sched_mod.SLock()
        inside = []
        bad = []

        def w():
            for _ in range(3):
                with lk:
                    inside.append(1)
                    s.yield_point("in")
                    if len(inside) != 1:
                        bad.append(1)
                    inside.pop()

        for i in range(3):
            s.spawn(w)
        s.run()
        if bad or s.deadlock:
            raise RuntimeError("scheduler lock self-check failed")


def run_async(ctx, rng):
    """AsyncAdaptedQueuePool under asyncio task interleavings with seeded extra yields."""
    import asyncio

    from sqlalchemy import exc as sa_exc
    from sqlalchemy import pool as sa_pool
    from sqlalchemy.util import greenlet_spawn

    n = ctx.pick({"quick": 40, "thorough": 1500})
    for it in range(n):
        if it >= 4 and not ctx.budget_ok(0.75):
            break
        cfg = {"pool_size": rng.choice([1, 1, 2]), "max_overflow": rng.choice([0, 0, 1]), "ntasks": rng.randint(2, 4)}
        limit = cfg["pool_size"] + cfg["max_overflow"]
        ids = itertools.count(1)
        opened = {}
        holders = {}
        state = {"slots": 0}

        def creator():
            n_open = sum(1 for c in opened.values() if not c.closed)
            if n_open >= limit:
                ctx.violation("asyncqueuepool-over-limit", f"creator() with {n_open} open, limit {limit} cfg={cfg}", {"cfg": cfg})
            c = MockConn(next(ids))
            opened[c.cid] = c
            return c

        pool = sa_pool.AsyncAdaptedQueuePool(creator, pool_size=cfg["pool_size"], max_overflow=cfg["max_overflow"],
                                             timeout=10.0, reset_on_return=None)
        yields = [rng.randint(0, 3) for _ in range(40)]
        timeouts = [0]

        async def task(name, k0):
            k = k0
            for _ in range(rng.randint(1, 3)):
                for _ in range(yields[k % 40]):
                    await asyncio.sleep(0)
                k += 1
                try:
                    f = await greenlet_spawn(pool.connect)
                except sa_exc.TimeoutError:
                    # AsyncAdaptedQueuePool waits on real (wall-clock) time: on a loaded
                    # machine a timeout is not evidence of anything - counted, never judged
                    timeouts[0] += 1
                    continue
                raw = f.dbapi_connection
                if raw.cid in holders:
                    ctx.violation("async-two-holders", f"{raw} given to {name} while held by {holders[raw.cid]} cfg={cfg}", {"cfg": cfg})
                holders[raw.cid] = name
                state["slots"] += 1
                for _ in range(yields[k % 40]):
                    await asyncio.sleep(0)
                k += 1
                holders.pop(raw.cid, None)
                await greenlet_spawn(f.close)
                state["slots"] -= 1

        async def main():
            await asyncio.gather(*[task(f"t{i}", i * 5) for i in range(cfg["ntasks"])])
            if pool.checkedout() != 0:
                ctx.violation("async-checkedout-nonzero-at-end", f"{pool.checkedout()} cfg={cfg}", {"cfg": cfg})
            if pool.checkedin() > cfg["pool_size"]:
                ctx.violation("async-idle-over-pool-size", f"{pool.checkedin()} cfg={cfg}", {"cfg": cfg})
            await greenlet_spawn(pool.dispose)

        asyncio.run(main())
        ctx.count("async_schedules")
        ctx.count("async_timeouts", timeouts[0])
        ctx.case({"async": cfg, "yields": yields[:12], "it": it, "shard": ctx.shard}, nontrivial=cfg["ntasks"] >= 2)


def enumerate_bounded(ctx, sa_pool, sa_exc, sched_mod, cfg, progs, rng, max_pre):
    """All schedules with <= max_pre forced preemptions (2 threads)."""
    # baseline: no preemption; count steps
    s0, _ = run_queuepool_schedule(ctx, sa_pool, sa_exc, sched_mod, cfg, progs, rng, forced={})
    n = s0.step
    ctx.count("enum_baseline_steps", n)
    nt = len(progs)
    stride = max(1, n // ctx.pick({"quick": 40, "thorough": 400}))
    points = list(range(1, n + 1, stride))
    done = 0
    for i in points:
        for tgt in range(nt):
            if not ctx.budget_ok(0.85):
                return done
            s1, _ = run_queuepool_schedule(ctx, sa_pool, sa_exc, sched_mod, cfg, progs, rng, forced={i: tgt})
            done += 1
            if max_pre >= 2 and s1.preemptions:
                n1 = s1.step
                st2 = max(1, (n1 - i) // ctx.pick({"quick": 6, "thorough": 60}))
                for j in range(i + 1, n1 + 1, st2):
                    for tgt2 in range(nt):
                        if not ctx.budget_ok(0.85):
                            return done
                        run_queuepool_schedule(ctx, sa_pool, sa_exc, sched_mod, cfg, progs, rng, forced={i: tgt, j: tgt2})
                        done += 1
    ctx.count("enum_schedules", done)
    return done


def run_os_thread_stress(ctx, rng):
    """Secondary mode: real, unscheduled OS threads (what the scheduler model omits),
    with ``sleep(0)`` injected at sampled LINE events of the pool modules to provoke
    GIL hand-offs.  Only interval-free oracles are used here (the monitor has its own
    real lock): no connection held by two holders, creator never called beyond the
    limit, final accounting.  Timeouts are real time and therefore never judged."""
    import sys
    import threading
    import time as rtime

    import sqlalchemy.pool.base as pool_base
    import sqlalchemy.pool.impl as pool_impl
    import sqlalchemy.util.queue as sa_queue
    from sqlalchemy import exc as sa_exc
    from sqlalchemy import pool as sa_pool

    from vf.mon import sched as sched_mod

    mon = sys.monitoring
    TOOL = 4
    codes = []
    for m in (pool_impl, pool_base, sa_queue):
        codes.extend(sched_mod.Instrumentation._codes_of(m))
    tick = [0]

    def on_line(code, lineno):
        tick[0] += 1
        if tick[0] % 7 == 0:
            rtime.sleep(0)

    rounds = ctx.pick({"quick": 3, "thorough": 40})
    for r in range(rounds):
        if r >= 1 and not ctx.budget_ok(0.97):
            break
        size, over = rng.choice([(1, 0), (1, 1), (2, 1), (2, 0)])
        limit = size + over
        lock = threading.Lock()
        opened = {}
        holders = {}
        ids = itertools.count(1)
        problems = []

        def creator():
            with lock:
                n = sum(1 for c in opened.values() if not c.closed and c.cid not in detached)
                if n >= limit:
                    problems.append(("stress-queuepool-over-limit", f"creator() with {n} pool-owned open, limit {limit}"))
                c = MockConn(next(ids))
                opened[c.cid] = c
            return c

        detached = set()
        pool = sa_pool.QueuePool(creator, pool_size=size, max_overflow=over, timeout=20, reset_on_return=None)
        nthreads = rng.randint(3, 6)
        plans = [[rng.choice(["ci", "ci", "inv", "det", "drop"]) for _ in range(ctx.pick({"quick": 40, "thorough": 80}))] for _ in range(nthreads)]

        def worker(name, plan):
            for op in plan:
                try:
                    f = pool.connect()
                except sa_exc.TimeoutError:
                    ctx.count("stress_real_timeouts")
                    continue
                raw = f.dbapi_connection
                with lock:
                    if raw.cid in holders:
                        problems.append(("stress-two-holders", f"connection {raw.cid} handed to {name} while held by {holders[raw.cid]}"))
                    if raw.closed:
                        problems.append(("stress-closed-connection-handed-out", f"{raw}"))
                    holders[raw.cid] = name
                rtime.sleep(0)
                with lock:
                    holders.pop(raw.cid, None)
                    if op == "det":
                        detached.add(raw.cid)
                if op == "ci":
                    f.close()
                elif op == "inv":
                    f.invalidate()
                    f.close()
                elif op == "det":
                    f.detach()
                    f.close()
                else:
                    del f
                f = None

        try:
            mon.use_tool_id(TOOL, "vf-stress")
        except ValueError:
            pass
        mon.register_callback(TOOL, mon.events.LINE, on_line)
        for c in codes:
            mon.set_local_events(TOOL, c, mon.events.LINE)
        try:
            ths = [threading.Thread(target=worker, args=(f"t{i}", plans[i])) for i in range(nthreads)]
            for t in ths:
                t.start()
            for t in ths:
                t.join(120)
            stuck = [t for t in ths if t.is_alive()]
        finally:
            for c in codes:
                mon.set_local_events(TOOL, c, 0)
            mon.register_callback(TOOL, mon.events.LINE, None)
            mon.free_tool_id(TOOL)
        if stuck:
            raise RuntimeError("stress workers did not finish (harness watchdog)")
        desc = {"stress": [size, over, nthreads]}
        for mech, msg in problems[:3]:
            ctx.violation(mech, msg + f" cfg={desc}", desc)
        if pool.checkedout() != 0:
            ctx.violation("stress-checkedout-nonzero-at-end", f"checkedout()={pool.checkedout()} cfg={desc}", desc)
        if pool.checkedin() > size:
            ctx.violation("stress-idle-over-pool-size", f"checkedin()={pool.checkedin()} cfg={desc}", desc)
        ctx.count("stress_rounds")
        ctx.count("stress_checkouts", sum(len(p) for p in plans))
        ctx.count("stress_line_events", tick[0])
        ctx.case({"stress": [size, over, nthreads], "round": r, "shard": ctx.shard, "seed": ctx.seed}, nontrivial=True)
        pool.dispose()


def run(ctx):
    import sqlalchemy.pool.base as pool_base
    import sqlalchemy.pool.impl as pool_impl
    import sqlalchemy.util.queue as sa_queue
    from sqlalchemy import exc as sa_exc
    from sqlalchemy import pool as sa_pool

    from vf.mon import sched as sched_mod

    rng = ctx.rng
    instr = sched_mod.Instrumentation(
        line_modules=[pool_impl, pool_base, sa_queue],
        threading_modules=[pool_impl, sa_queue],
        time_names=[(pool_base, "time", "module"), (sa_queue, "_time", "func")],
    )
    with instr:
        lock_selfcheck(sched_mod, rng)
        nsched = ctx.pick({"quick": 450, "thorough": 12000})
        for it in range(nsched):
            if it >= 15 and not ctx.budget_ok(0.45):
                break
            cfg = {
                "pool_size": rng.choice([0, 1, 1, 2]),
                "max_overflow": rng.choice([-1, 0, 0, 1, 2]),
                "timeout": rng.choice([0.5, 3.0]),
                "lifo": rng.random() < 0.3,
                "p": rng.choice([0.05, 0.15, 0.3]),
            }
            nthreads = rng.randint(2, 4)
            allow_dispose = rng.random() < 0.08
            progs = [gen_prog(rng, rng.randint(2, 5), allow_dispose) for _ in range(nthreads)]
            run_queuepool_schedule(ctx, sa_pool, sa_exc, sched_mod, cfg, progs, rng)
            if it < 3:
                ctx.sample({"cfg": cfg, "progs": progs})
        for it in range(ctx.pick({"quick": 12, "thorough": 400})):
            if it >= 3 and not ctx.budget_ok(0.55):
                break
            run_simple_pool_schedule(ctx, sa_pool, sched_mod, ["null", "singleton", "static"][it % 3], rng.randint(2, 3), rng)
        # bounded-preemption enumeration on a small configuration
        small = [
            ({"pool_size": 1, "max_overflow": 0, "timeout": 0.5, "lifo": False}, [["co", "ci"], ["co", "ci"]]),
            ({"pool_size": 1, "max_overflow": 1, "timeout": 0.5, "lifo": False}, [["co", "co", "ci"], ["co", "inv"]]),
            ({"pool_size": 1, "max_overflow": 0, "timeout": 0.5, "lifo": True}, [["co", "det"], ["co", "drop"]]),
            ({"pool_size": 2, "max_overflow": 0, "timeout": 0.5, "lifo": False}, [["co", "sinv", "co"], ["co", "ci"], ["co", "ci"]]),
        ]
    run_async(ctx, rng)
    with instr:
        cfgi = (ctx.shard + ctx.seed) % len(small)
        cfg, progs = small[cfgi]
        enumerate_bounded(ctx, sa_pool, sa_exc, sched_mod, dict(cfg), progs, rng, max_pre=1 if ctx.quick else 2)
    run_os_thread_stress(ctx, rng)
