"""C26 -- the pool recovers from any fault without leaking or reusing dead connections.

Fault enumeration on a programmable fake DBAPI (vf/mon/poolrig_gg.py):

  for each (configuration, base history)           history = <=4 checkouts by <=3 holders:
      dry run, no fault  -> N fault points           checkout (raw_connection / connect), use,
      for each point k < N, for each fault kind:     close, invalidate, soft invalidate, detach,
          run the history with that fault            drop reference + gc, clock tick (recycle),
                                                     kill (every open DBAPI connection dies silently)
      thorough: also pairs of points

A fault point is a DBAPI call the library makes (connect, cursor, execute/ping (pre-ping
and use), commit, rollback (reset), close) or an invocation of a pool event listener
(checkout / connect / checkin / reset).  Kinds at DBAPI points: ordinary Error, an Error
the dialect classifies as disconnect, a BaseException subclass (KeyboardInterrupt-like), a
SystemExit subclass; at the checkout listener: DisconnectionError, InvalidatePoolError,
RuntimeError, BaseException; at other listeners RuntimeError / BaseException.
Configurations: QueuePool (1+0, 1+1, 2+0 FIFO/LIFO), NullPool, StaticPool,
SingletonThreadPool, AssertionPool x pre_ping x recycle x reset_on_return x listeners x
dialect (postgresql+psycopg2, mysql+pymysql: their own is_disconnect drives the faults).
Time inside sqlalchemy.pool.base is a strictly increasing virtual clock.

Oracle.  Holders always release in ``finally`` (close, then drop the reference, then gc).
After that:
  * QueuePool.checkedout() == 0, and a probe checkout + use + close succeeds without
    waiting (pool_timeout=0): no slot was leaked;
  * ledger conservation: the DBAPI connections still open (close() never attempted) are at
    most the ones idle in the pool, and after pool.dispose() there is none: every
    connection the pool opened is idle in it or closed;
  * at every hand-out (checkout, or transparent reconnect of a Connection) the DBAPI
    connection has never had close() called, was not soft-invalidated before this
    checkout, and was created after the last pool-wide invalidation that the injected
    faults oblige (disconnect during a Connection's statement, failed pre-ping,
    InvalidatePoolError from a checkout listener; the documented rule "only if the failing
    connection is newer than the previous invalidation" is applied);
  * the fake recorded no use of a connection after its close().

Guards: a close() that raised counts as closed (the pool logs it and moves on, by
contract).  BaseExceptions propagate to the holder by design; what must hold is the state
after the holder has released (a holder whose close() raised has released too: the
reference is dropped and collected, the pool's finalizer does the rest).  A *detached* connection is the holder's to close: a holder
never drops one without close().  StaticPool / SingletonThreadPool / AssertionPool share or
restrict connections by design, so their histories have one holder at a time; StaticPool
documents invalidation as "only partially supported" (a soft invalidation makes it drop the
record with its open connection), so no soft invalidation is generated for it.  A failing
*checkin* listener is not among the faults the property lists and is not injected.  Recycle
*age* is exercised but not judged (the property speaks of invalidation only).

Limit: "close() interrupted by a BaseException inside the error handling of an earlier
fault" (two faults in one call) is a family of its own - none of the pool's multi-step error
handlers (invalidate + pool-wide invalidate + checkin) is safe against it.  Two members are
kept as directed cases and are recorded as open known findings (gc-path reset failure, and
failing checkout on SingletonThreadPool); the other members that the pair enumeration of the
thorough tier produces are executed and counted (``pairs_interrupted_close_*``) but not
judged.  Every other pair of faults is judged.

Mechanisms are computed from the witness: <symptom>:<phase of the fault>:<kind class>, for
a leaked detached connection the fault that hit that very connection.  ``directed_cases``
replays on every run (shard 0) the witnesses of the defects this check found (five repaired
upstream in this tree, two recorded as open known findings), so a regression shows whatever
the seed.
"""
from __future__ import annotations

import gc
import warnings

META = {
    "id": "C26",
    "level": "fault_enumeration",
    "technique": "count-then-enumerate fault injection at every DBAPI call and pool listener invocation of bounded checkout histories on a programmable fake DBAPI, ledger conservation + hand-out identity oracle, virtual clock",
    "level_text": "For every sampled (pool configuration, history) the fault-free run counts the fault points; then the history is re-run once per point x fault kind (quick and thorough) and for sampled pairs of points (thorough). Single-threaded and deterministic: a verdict is about exactly the enumerated fault positions.",
    "level_note": "The DBAPI is a fake: what is exercised is the pool / engine code and each dialect's own is_disconnect classification, not a driver. Histories are bounded (<=4 checkouts, <=3 holders) and sampled, configurations sampled; thread interleavings are C25's subject. Recycle age is not judged. engine.dispose() in the middle of a history is not generated. Pairs whose second fault is a BaseException out of a close() provoked by the first fault are run but not judged (two representatives are directed cases / open known findings).",
    "design_ref": "DESIGN.md section 4, C26",
    "rule": "case = (configuration, history, fault plan); non-trivial = the armed fault really fired; distinct by (config, history, plan)",
    "shards": {"quick": 8, "thorough": 16},
    "soft_s": {"quick": 150, "thorough": 800},
    "exhaustive": {"quick": False, "thorough": False},
    "require": ["faults_injected", "dry_runs", "handouts_checked", "quiescence_checks", "ledger_connections",
                "faults_in_reset", "faults_in_connect", "faults_in_preping", "faults_in_close", "listener_faults",
                "baseexception_faults", "expected_pool_invalidations", "probe_checkouts", "connections_killed",
                "calls_on_dead_connections"],
    "assumptions": ["the fake DBAPI's ledger (close_calls, created_at) is the ground truth for open/closed"],
}

SEQUENTIAL = ("static", "singleton", "assertion")

BASE_HISTORIES = [
    [("co", 0, "raw"), ("use", 0), ("ci", 0), ("co", 0, "raw"), ("use", 0), ("ci", 0)],
    [("co", 0, "conn"), ("use", 0), ("ci", 0), ("co", 1, "conn"), ("use", 1), ("ci", 1)],
    [("co", 0, "raw"), ("ci", 0), ("tick",), ("co", 0, "raw"), ("use", 0), ("ci", 0)],
    [("co", 0, "conn"), ("use", 0), ("inv", 0), ("use", 0), ("ci", 0), ("co", 1, "raw"), ("ci", 1)],
    [("co", 0, "raw"), ("soft", 0), ("ci", 0), ("co", 0, "raw"), ("use", 0), ("ci", 0)],
    [("co", 0, "raw"), ("det", 0), ("use", 0), ("ci", 0), ("co", 1, "conn"), ("use", 1), ("ci", 1)],
    [("co", 0, "conn"), ("use", 0), ("drop", 0), ("co", 1, "raw"), ("use", 1), ("ci", 1)],
    [("co", 0, "raw"), ("co", 1, "conn"), ("use", 1), ("use", 0), ("ci", 0), ("ci", 1), ("co", 2, "conn"), ("use", 2), ("ci", 2)],
    [("co", 0, "conn"), ("co", 1, "conn"), ("use", 0), ("ci", 0), ("use", 1), ("ci", 1), ("co", 0, "raw"), ("co", 1, "raw"), ("ci", 1), ("ci", 0)],
    [("co", 0, "conn"), ("ci", 0), ("co", 0, "conn"), ("ci", 0), ("co", 0, "conn"), ("use", 0), ("ci", 0)],
    # two outages: the replacement made inside a checkout dies while pooled as well
    [("co", 0, "raw"), ("ci", 0), ("kill",), ("co", 0, "raw"), ("use", 0), ("ci", 0), ("kill",), ("co", 1, "conn"),
     ("use", 1), ("ci", 1)],
]


def random_history(rng, sequential):
    ops, holding, ncheck = [], {}, 0
    nh = 1 if sequential else rng.choice([1, 2, 2, 3])
    for _ in range(rng.randint(4, 11)):
        free = [h for h in range(nh) if h not in holding]
        choices = []
        if free and ncheck < 4 and (not sequential or not holding):
            choices += ["co"] * 4
        if holding:
            choices += ["use"] * 4 + ["ci"] * 4 + ["inv", "soft", "det", "drop"]
        choices += ["tick", "kill"]
        k = rng.choice(choices)
        if k == "co":
            h = rng.choice(free)
            how = rng.choice(["raw", "conn"])
            holding[h] = how
            ncheck += 1
            ops.append(("co", h, how))
        elif k in ("tick", "kill"):
            ops.append((k,))
        else:
            h = rng.choice(sorted(holding))
            ops.append((k, h))
            if k in ("ci", "drop"):
                del holding[h]
    return ops


def make_config(rng):
    pool = rng.choice(["queue10", "queue11", "queue20", "queue11", "null", "static", "singleton", "assertion"])
    return {
        "pool": pool,
        "lifo": rng.random() < 0.3,
        "pre_ping": rng.random() < 0.5,
        "recycle": rng.choice([-1, -1, 40]),
        "reset": rng.choice(["rollback", "rollback", "commit", None]),
        "listeners": rng.choice([(), (), ("checkout",), ("checkout", "connect", "checkin", "reset")]),
        "dialect": rng.choice(["psycopg2", "pymysql"]),
    }


def build(config, plan, clock):
    from sqlalchemy import pool as sp

    from vf.mon.poolrig_gg import Rig

    kw = {"pool_pre_ping": config["pre_ping"], "pool_recycle": config["recycle"],
          "pool_reset_on_return": config["reset"]}
    p = config["pool"]
    if p.startswith("queue"):
        kw.update(poolclass=sp.QueuePool, pool_size=int(p[5]), max_overflow=int(p[6]), pool_timeout=0,
                  pool_use_lifo=config["lifo"])
    else:
        kw.update(poolclass={"null": sp.NullPool, "static": sp.StaticPool, "singleton": sp.SingletonThreadPool,
                             "assertion": sp.AssertionPool}[p])
    return Rig(config["dialect"], plan=plan, clock=clock, listeners=config["listeners"], **kw)


class Run:
    """One execution of a history under a fault plan."""

    def __init__(self, ctx, config, history, plan, judge=True):
        from vf.mon.poolrig_gg import VClock

        self.ctx, self.config, self.history, self.plan, self.judge = ctx, config, history, plan, judge
        self.clock = VClock()
        self.trace = []
        self.viol = []
        self.epoch = 0.0
        self.soft_dead = set()
        self.handouts = 0
        self.seen_fired = 0
        self.expected_inval = 0
        self.preping_faults = 0
        self.fault_ops = {}
        self.fault_batch = {}
        self.dead_handouts = 0
        self.kills = 0
        self.inv_detached = set()
        self.closing_txn = False

    def bad(self, mech, text):
        self.viol.append((mech, text))

    # -- hand-out identity ------------------------------------------------------
    def current_fc(self, how, obj):
        if how == "raw":
            return obj.dbapi_connection
        if obj.closed or obj.invalidated:
            return None
        return obj.connection.dbapi_connection

    def handout(self, fc, where):
        self.handouts += 1
        if fc.close_calls:
            self.bad("closed-connection-handed-out", f"{where}: connection #{fc.fake_id} handed out after close()")
        elif fc.fake_id in self.soft_dead:
            self.bad("soft-invalidated-connection-handed-out", f"{where}: connection #{fc.fake_id} was soft-invalidated")
        elif fc.created_at <= self.epoch:
            self.bad("connection-older-than-pool-invalidation-handed-out",
                     f"{where}: connection #{fc.fake_id} created at {fc.created_at} <= invalidation at {self.epoch}")
        elif getattr(fc, "dead", False):
            if self.config["pre_ping"]:
                # the pre_ping contract: a connection that died while pooled is detected at
                # checkout and replaced, never handed out
                self.bad("dead-connection-handed-out-despite-pre-ping",
                         f"{where}: connection #{fc.fake_id} died while pooled and was handed out without a ping")
            else:
                self.dead_handouts += 1        # without pre_ping the pool cannot know

    def absorb_faults(self, rig, opkind, how):
        """Faults fired during the op just executed: which of them oblige a pool-wide invalidation."""
        for k, desc, kind in rig.fired[self.seen_fired:]:
            pool_wide = False
            self.fault_batch[k] = self.seen_fired      # faults absorbed together fired in the same op
            self.fault_ops[k] = (opkind if not (opkind in ("ci", "drop") and self.closing_txn) else "ci-txn", how)
            if opkind == "co" and desc in ("dbapi:ping", "dbapi:cursor", "dbapi:execute"):
                self.preping_faults += 1
            if kind == "InvalidatePoolError":
                pool_wide = True
            elif kind == "disconnect" and desc in ("dbapi:ping", "dbapi:cursor", "dbapi:execute"):
                if opkind == "co":
                    pool_wide = True              # pre-ping
                elif opkind == "use" and how == "conn":
                    pool_wide = True              # Connection._handle_dbapi_exception
            if kind in ("disconnect", "interrupt", "exit") and opkind == "use" and how == "conn":
                cid0 = self.fault_info[k][1]
                fc0 = rig.fake.connections.get(cid0)
                if fc0 is not None and getattr(fc0, "detached", False):
                    self.inv_detached.add(cid0)      # Connection invalidates itself on disconnect
            if pool_wide:
                at, cid = self.fault_info[k]
                fc = rig.fake.connections.get(cid)
                self.expected_inval += 1
                if fc is None or fc.created_at > self.epoch:
                    self.epoch = at
        self.seen_fired = len(rig.fired)

    # -- execution ----------------------------------------------------------------
    def execute(self):
        from vf.mon.poolrig_gg import virtual_time

        cfg = self.config
        with virtual_time(self.clock), warnings.catch_warnings():
            warnings.simplefilter("ignore")
            rig = build(cfg, self.plan, self.clock)
            self.rig = rig
            self.fault_info = {}
            orig = rig._dbapi_fault

            def spy_fault(ev):
                n0 = len(rig.fired)
                exc = orig(ev)
                if len(rig.fired) > n0:
                    self.fault_info[rig.fired[-1][0]] = (self.clock.peek(), ev.conn)
                return exc
            rig.fake.fault = spy_fault
            orig_point = rig._point

            def point(desc, kinds):
                n0 = len(rig.fired)
                kind = orig_point(desc, kinds)
                if len(rig.fired) > n0 and rig.fired[-1][0] not in self.fault_info:
                    self.fault_info[rig.fired[-1][0]] = (self.clock.peek(), None)
                return kind
            rig._point = point
            holders = {}
            try:
                for op in self.history:
                    self.step(rig, holders, op)
            finally:
                # every holder releases: close, drop the reference, collect
                for h in sorted(holders):
                    how, obj, fc = holders[h]
                    self.closing_txn = how == "conn" and obj.in_transaction()
                    try:
                        obj.close()
                        self.trace.append(("release", h, "ok"))
                    except BaseException as e:  # noqa: BLE001
                        self.trace.append(("release", h, type(e).__name__))
                    self.absorb_faults(rig, "ci", how)
                holders.clear()
                obj = None
                gc.collect()
            self.npoints = rig.npoints
            self.points = rig.points
            self.fired = list(rig.fired)
            if self.judge:
                self.quiescence(rig)
            rig.dispose()
            if self.judge:
                left = rig.open_conns()
                if left:
                    ids = [c.fake_id for c in left]
                    if any(getattr(c, "detached", False) for c in left):
                        why = ("invalidated-while-detached" if any(c.fake_id in self.inv_detached for c in left)
                               else "DETACHED")
                        self.bad("detached-connection-never-closed:" + why,
                                 f"detached connections {ids} never closed after the holder released")
                    else:
                        self.bad("connection-open-after-dispose", f"connections {ids} never closed (leaked outside the pool)")
            self.nconns = len(rig.conns())
            self.uac = list(rig.uac)
            if self.judge and self.uac:
                self.bad("dbapi-connection-used-after-close", f"use after close(): {self.uac[:4]}")
        return self

    def step(self, rig, holders, op):
        self.closing_txn = False
        kind = op[0]
        eng = rig.eng
        err = None
        how = None
        try:
            if kind == "tick":
                self.clock.tick(100)
            elif kind == "kill":
                self.kills += rig.kill_all()
            elif kind == "co":
                _, h, how = op
                if h in holders:
                    return
                obj = eng.raw_connection() if how == "raw" else eng.connect()
                fc = self.current_fc(how, obj)
                holders[h] = (how, obj, fc)
                self.absorb_faults(rig, "co", how)
                self.handout(fc, f"checkout by holder {h}")
            else:
                h = op[1]
                if h not in holders:
                    return
                how, obj, fc = holders[h]
                if kind == "use":
                    if how == "raw":
                        cur = obj.cursor()
                        cur.execute("select 1")
                        cur.close()
                    else:
                        obj.exec_driver_sql("select 1")
                elif kind == "ci":
                    del holders[h]
                    self.closing_txn = how == "conn" and obj.in_transaction()
                    obj.close()
                elif kind == "inv":
                    if fc is not None and getattr(fc, "detached", False):
                        self.inv_detached.add(fc.fake_id)
                    obj.invalidate()
                elif kind == "soft":
                    if fc is not None and self.current_fc(how, obj) is fc:
                        self.soft_dead.add(fc.fake_id)
                    (obj if how == "raw" else obj.connection).invalidate(soft=True)
                elif kind == "det":
                    obj.detach()
                    if fc is not None:
                        self.soft_dead.discard(fc.fake_id)
                elif kind == "drop":
                    del holders[h]
                    if (obj.is_detached if how == "raw" else (not obj.closed and not obj.invalidated
                                                              and obj.connection.is_detached)):
                        # guard: a detached connection is owned by the holder, who must close it
                        self.closing_txn = how == "conn" and obj.in_transaction()
                        obj.close()
                    obj = None
                    gc.collect()
        except BaseException as e:  # noqa: BLE001  faults propagate to the holder by design
            err = e
        self.trace.append((op, type(err).__name__ if err is not None else "ok"))
        failed = err is not None
        if kind == "ci" and err is not None:
            # release = close, drop the reference, collect: a close() that raised leaves the
            # clean-up to the finalizer of the (cyclic) Connection / fairy garbage
            obj = None
            err = None
            gc.collect()
        if kind != "co" or err is not None:
            self.absorb_faults(rig, kind, how)
        # transparent reconnect of a Connection = a hand-out too.  Only after an op that
        # succeeded: if it raised, whatever the holder is left with was acquired before the
        # failure (e.g. reconnect, then disconnect + interrupted close in the same call)
        if kind in ("use", "inv") and op[1] in holders and not failed:
            how, obj, fc = holders[op[1]]
            try:
                now = self.current_fc(how, obj) if how == "conn" else fc
            except BaseException:  # noqa: BLE001
                now = fc
            if now is not None and now is not fc:
                holders[op[1]] = (how, obj, now)
                self.handout(now, f"reconnect of holder {op[1]}")
        err = None

    def quiescence(self, rig):
        ctx = self.ctx
        pool = rig.eng.pool
        ctx.count("quiescence_checks")
        rig.armed = False
        if hasattr(pool, "checkedout") and pool.checkedout() != 0:
            self.bad("checkedout-nonzero-at-quiescence", f"checkedout()={pool.checkedout()} status={pool.status()}")
        open_now = rig.open_conns()
        if hasattr(pool, "checkedin"):
            if len(open_now) > pool.checkedin():
                self.bad("open-connection-not-in-pool",
                         f"{len(open_now)} connections open but only {pool.checkedin()} idle in the pool: "
                         f"{[c.fake_id for c in open_now]}")
        elif self.config["pool"] == "null" and open_now:
            self.bad("open-connection-not-in-pool", f"NullPool left {[c.fake_id for c in open_now]} open")
        elif len(open_now) > 1:
            self.bad("open-connection-not-in-pool", f"{self.config['pool']} pool left {[c.fake_id for c in open_now]} open")
        # the pool still works: a probe holder gets a live connection at once
        if not self.config["pre_ping"]:
            for c0 in rig.open_conns():        # without pre_ping dead idle connections are expected
                c0.dead = False
        try:
            c = rig.eng.connect()
            fc = c.connection.dbapi_connection
            ctx.count("probe_checkouts")
            self.handout(fc, "probe checkout after quiescence")
            c.exec_driver_sql("select 1")
            c.close()
        except BaseException as e:  # noqa: BLE001
            self.bad("pool-unusable-after-faults", f"probe checkout failed: {e!r}")


def fault_phase(run):
    """(phase, kind class) of the first fault that fired: how the history was disturbed."""
    if not run.fired:
        return "no-fault"
    k, desc, kind = run.fired[0]
    opkind, how = run.fault_ops.get(k, ("?", None))
    kc = "baseexception" if kind in ("interrupt", "exit") else kind
    if desc == "dbapi:connect":
        phase = "connect"
    elif desc == "dbapi:close":
        phase = "close"
    elif desc.startswith("listener:"):
        phase = desc.split(":")[1] + "-listener"
        if phase == "reset-listener":
            phase = "gc-reset" if opkind == "drop" else "reset"
    elif desc == "dbapi:rollback" and opkind == "ci-txn":
        # Connection.close() rolls its own transaction back before the pool's reset
        phase = "transaction-rollback-in-close"
    elif desc in ("dbapi:rollback", "dbapi:commit"):
        phase = "gc-reset" if opkind == "drop" else "reset"
    elif opkind == "co":
        phase = "preping"
    else:
        phase = "use"
    return f"{phase}:{kc}"


def fault_phase_of(run, fault):
    k, desc, kind = fault
    one = Run.__new__(Run)
    one.fired, one.fault_ops = [fault], run.fault_ops
    return fault_phase(one)


def multi_fault_phase(run, mech):
    """More than one fault fired.  For a leaked detached connection the fault that hit that
    very connection is the cause; otherwise all faults are named in order (Exception kinds
    collapsed, they take the same path)."""
    if mech.startswith("detached-"):
        leaked = {c.fake_id for c in run.rig.open_conns() if getattr(c, "detached", False)}
        hits = [f for f in run.fired if run.fault_info.get(f[0], (0, None))[1] in leaked]
        if hits:
            return fault_phase_of(run, hits[-1])
    parts = []
    for f in run.fired:
        ph = fault_phase_of(run, f)
        head, _, kc = ph.rpartition(":")
        parts.append(head + ":" + ("exception" if kc in ("error", "disconnect", "RuntimeError") else kc))
    if len(parts) == 2 and parts[1] == "close:baseexception" \
            and run.fault_batch.get(run.fired[0][0]) == run.fault_batch.get(run.fired[1][0]):
        # family "close() interrupted inside the error handling of an earlier fault": the
        # invalidation that the first fault provokes is not exception safe, the record is not
        # checked in.  One mechanism per place where the first fault hit, whatever the symptom
        # (checkedout() != 0, AssertionPool 'already checked out', SingletonThreadPool handing
        # the dead thread-local fairy out again ...)
        first = parts[0].split(":")[0]
        if first in ("gc-reset", "reset"):
            return "MECH=checkedout-nonzero-at-quiescence:gc-reset-then-close:baseexception"
        if run.fault_ops.get(run.fired[0][0], ("?",))[0] == "co":
            return "MECH=closed-connection-handed-out:checkout-listener-then-close:baseexception"
    return "+".join(parts)


def interrupted_close_family(run):
    """Two faults in the same op, the second a BaseException out of DBAPI close(): the close()
    belongs to the error handling of the first fault."""
    f = run.fired
    return (len(f) == 2 and f[1][1] == "dbapi:close" and f[1][2] in ("interrupt", "exit")
            and run.fault_batch.get(f[0][0]) == run.fault_batch.get(f[1][0]))


def judge_and_report(ctx, run, tag):
    fired = run.fired
    if tag == "pair" and interrupted_close_family(run):
        # Limit (see module docstring): this family is represented by two directed cases
        # (recorded as open known findings); its other members are run, counted, not judged.
        ctx.count("pairs_interrupted_close_not_judged")
        if run.viol:
            ctx.count("pairs_interrupted_close_with_symptom")
            ctx.seen("interrupted_close_symptoms", run.viol[0][0] + " after " + fault_phase_of(run, fired[0]))
        run.viol = []
    viol = sorted(run.viol, key=lambda v: 0 if v[0].startswith("detached-") else 1 if v[0].startswith("connection-open") else 2)
    for mech, text in viol[:1]:
        ph = fault_phase(run) if len(fired) < 2 else multi_fault_phase(run, mech)
        if ph.startswith("MECH="):
            mech = ph[5:]
        elif mech.endswith(":DETACHED"):
            mech = mech.replace(":DETACHED", ":reset-failed" if ph.startswith(("reset", "gc-reset")) else ":" + ph)
        elif mech.startswith("detached-"):
            pass
        elif mech == "connection-open-after-dispose" and ph.startswith("connect-listener"):
            mech = "connection-leaked:connect-listener-failed"
        else:
            mech = f"{mech}:{ph}"
        ctx.violation(mech,
                      f"{text} :: config={run.config} history={run.history} plan={run.plan} trace={run.trace[-8:]}",
                      {"config": run.config, "history": run.history, "plan": run.plan, "fired": fired,
                       "trace": run.trace, "dbapi_tail": [(e.kind, e.conn, e.get("faulted")) for e in run.rig.fake.log[-30:]]})
    ctx.count("fault_runs")
    ctx.count("handouts_checked", run.handouts)
    ctx.count("ledger_connections", run.nconns)
    ctx.count("expected_pool_invalidations", run.expected_inval)
    ctx.count("faults_in_preping", run.preping_faults)
    ctx.count("connections_killed", run.kills)
    ctx.count("dead_handouts_without_preping", run.dead_handouts)
    ctx.count("calls_on_dead_connections", run.rig.dead_calls)
    for k, desc, kind in fired:
        ctx.count("faults_injected")
        ctx.seen("fault_sites", f"{desc}:{kind}")
        if kind in ("interrupt", "exit"):
            ctx.count("baseexception_faults")
        if desc.startswith("listener:"):
            ctx.count("listener_faults")
        if desc == "dbapi:connect":
            ctx.count("faults_in_connect")
        if desc == "dbapi:close":
            ctx.count("faults_in_close")
        if desc in ("dbapi:rollback", "dbapi:commit"):
            ctx.count("faults_in_reset")
    ctx.case({"c": run.config, "h": run.history, "p": sorted(run.plan.items())}, nontrivial=bool(fired))


def enumerate_faults(ctx, config, history, pairs=0):
    dry = Run(ctx, config, history, {}, judge=True).execute()
    ctx.count("dry_runs")
    if dry.viol:
        judge_and_report(ctx, dry, "dry")
        return
    ctx.case({"c": config, "h": history, "p": []}, nontrivial=False)
    ctx.count("fault_points", dry.npoints)
    # which points are pre-ping (execute/ping/cursor inside a checkout)? counted for evidence
    singles = []
    for k, desc, kinds in dry.points:
        for kind in kinds:
            singles.append({k: kind})
    for plan in singles:
        if not ctx.budget_ok():
            return
        r = Run(ctx, config, history, plan).execute()
        judge_and_report(ctx, r, "single")
    rng = ctx.rng
    for _ in range(pairs):
        if not ctx.budget_ok() or dry.npoints < 2:
            return
        a, b = sorted(rng.sample(range(dry.npoints), 2))
        ka, kb = dry.points[a][2], dry.points[b][2]
        if not ka or not kb:
            continue                    # a point where no fault is injected (checkin listener)
        plan = {a: rng.choice(ka), b: rng.choice(kb)}
        r = Run(ctx, config, history, plan).execute()
        ctx.count("pair_runs")
        judge_and_report(ctx, r, "pair")


def directed_cases(ctx):
    """Fixed witnesses that every run reaches (shard 0): the histories behind the defects this
    check found, so that a regression - or an open known finding - shows on every run
    whatever the seed."""
    base = {"lifo": False, "pre_ping": False, "recycle": -1, "reset": "rollback", "listeners": (), "dialect": "psycopg2"}
    cases = [
        # Connection.close() of a detached Connection whose transaction rollback fails
        ({**base, "pool": "queue11"}, [("co", 0, "conn"), ("use", 0), ("det", 0), ("ci", 0)], "dbapi:rollback", 0, "error"),
        # the same with the pool's own reset failing (no transaction in progress)
        ({**base, "pool": "queue11"}, [("co", 0, "raw"), ("det", 0), ("use", 0), ("ci", 0)], "dbapi:rollback", 0, "error"),
        # invalidate() of a detached connection
        ({**base, "pool": "queue10"}, [("co", 0, "conn"), ("det", 0), ("inv", 0), ("ci", 0)], None, 0, None),
        # connect listener fails
        ({**base, "pool": "queue10", "listeners": ("checkout", "connect", "checkin", "reset")},
         [("co", 0, "raw"), ("ci", 0), ("co", 0, "raw"), ("ci", 0)], "listener:connect", 0, "RuntimeError"),
        # BaseException in the reset of a garbage collected checkout
        ({**base, "pool": "queue10"}, [("co", 0, "raw"), ("use", 0), ("drop", 0), ("co", 1, "raw"), ("ci", 1)],
         "dbapi:rollback", 0, "interrupt"),
        # BaseException in close() during invalidate()
        ({**base, "pool": "queue10"}, [("co", 0, "raw"), ("inv", 0), ("ci", 0), ("co", 1, "raw"), ("ci", 1)],
         "dbapi:close", 0, "interrupt"),
    ]
    # double fault: the reset of a garbage collected checkout fails, then close() inside the
    # resulting invalidation is interrupted
    cases.append(({**base, "pool": "queue10"}, [("co", 0, "raw"), ("use", 0), ("drop", 0), ("co", 1, "raw"), ("ci", 1)],
                  [("dbapi:rollback", 0, "error"), ("next-point", 0, "interrupt")], None, None))
    # double fault on SingletonThreadPool: a checkout listener fails on a pooled connection, then
    # close() inside the resulting invalidation is interrupted; the thread-local fairy stays
    # registered until a cyclic gc run and is handed out again with the half-closed connection
    cases.append(({**base, "pool": "singleton", "listeners": ("checkout",)},
                  [("co", 0, "raw"), ("ci", 0), ("co", 0, "raw"), ("ci", 0), ("co", 0, "raw"), ("ci", 0)],
                  [("listener:checkout", 1, "RuntimeError"), ("next-point", 0, "interrupt")], None, None))
    # pre_ping across two outages (no injected fault: the connections die while pooled)
    for dialect in ("psycopg2", "pymysql"):
        cases.append(({**base, "pool": "queue10", "pre_ping": True, "dialect": dialect},
                      [("co", 0, "raw"), ("ci", 0), ("kill",), ("co", 0, "raw"), ("use", 0), ("ci", 0), ("kill",),
                       ("co", 1, "conn"), ("use", 1), ("ci", 1)], None, None, None))
    for config, history, site, nth, kind in cases:
        dry = Run(ctx, config, history, {}, judge=True).execute()
        ctx.count("dry_runs")
        ctx.count("directed_cases")
        if site is None:
            judge_and_report(ctx, dry, "directed")
            continue
        sites = site if isinstance(site, list) else [(site, nth, kind)]
        plan = {}
        for st, n, kd in sites:
            if st == "next-point":          # the call the previous fault provokes (close)
                plan[max(plan) + 1] = kd
            else:
                plan[[k for k, desc, kinds in dry.points if desc == st][n]] = kd
        judge_and_report(ctx, Run(ctx, config, history, plan).execute(), "directed")


def run(ctx):
    rng = ctx.rng
    if ctx.shard == 0:
        directed_cases(ctx)
    npairs_hist = ctx.pick({"quick": 10, "thorough": 170})
    for i in range(npairs_hist):
        if not ctx.budget_ok():
            break
        config = make_config(rng)
        seq = config["pool"] in SEQUENTIAL
        if i % 3 == 0:
            history = BASE_HISTORIES[(i // 3 + ctx.shard) % len(BASE_HISTORIES)]
            if seq:
                history = [op for op in history if len(op) == 1 or op[1] == 0]
        else:
            history = random_history(rng, seq)
        if config["pool"] == "static":
            # guard: StaticPool documents invalidation as "only partially supported": a soft
            # invalidation makes it drop the old record (and its open connection) unclosed
            history = [op for op in history if op[0] != "soft"]
        enumerate_faults(ctx, config, history, pairs=ctx.pick({"quick": 0, "thorough": 60}))
        if ctx.evaluations and len(ctx.samples) < 3:
            ctx.sample({"config": config, "history": history})
