"""C27 -- a database disconnect invalidates the connection and blocks silent continuation.

Fault enumeration over Connection-level histories on a programmable fake DBAPI
(vf/mon/poolrig_gg.py), postgresql+psycopg2 and mysql+pymysql dialects (each dialect's own
``is_disconnect`` classifies the injected error), QueuePool (size 2-4, overflow 0/1, FIFO/LIFO, pool_recycle unset or far above any age)
pre-filled with idle connections "opened before the failure", virtual clock in sqlalchemy.pool.base.

  history  = ops on one Connection: exec, begin, begin_nested, savepoint release /
             rollback, commit, rollback, close + reconnect, "other" (a second Connection of
             the same engine does one statement), followed by a fixed recovery tail
             exec, rollback, exec, commit, other, exec
  dry run  -> N DBAPI calls (cursor / execute / commit / rollback / connect / close)
  then one run per call index x {disconnect, ordinary error} x handle_error listener
  variant {none, passive, force is_disconnect=True, force False,
  invalidate_pool_on_disconnect=False} (quick: 3 of the 5 per history, thorough: all).
  Chained faults: for every call index, a disconnect there, then a second fault that only
  exists because of the first - on the transparent reconnect (its connect(), or the cursor /
  execute of the first statement after it; disconnect or ordinary) - then, after a reconnect
  that worked, a third fault (ordinary error or disconnect); every fault is judged by the
  same specification against the state the earlier ones left.

Online trace specification (checked while the faulted history runs):
  D := the error is finally classified as a disconnect (dialect verdict, possibly
       overridden by the handle_error listener).
  D  =>  the failing call raises a DBAPIError with connection_invalidated=True and
         Connection.invalidated is True (unless the failing op was close());
         no DBAPI connection created before the failure is handed out afterwards
         (only the failing one if the listener cleared invalidate_pool_on_disconnect);
         if a transaction was in progress: every later exec / commit / begin /
         begin_nested / release raises and NO DBAPI call (cursor, execute, commit,
         connect) is made for it, until Connection.rollback() is called (which must not
         raise); savepoint-handle rollback alone does not lift the block;
         after rollback() - or at once if the failing call was rollback() itself - the next
         exec succeeds on a DBAPI connection created after the failure (transparent
         reconnect) and Connection.invalidated is False again.
  !D =>  connection_invalidated is False, Connection.invalidated stays False, the
         failing call closed / opened no DBAPI connection, and after rollback() the
         Connection keeps working on the very same DBAPI connection.

Guards: BaseException faults are C26's subject.  A fault in the pool's own
reset-on-return rollback (during close()) is judged only by the ledger rule.  What an
*ordinary* error leaves of the transaction is not prescribed by the property, so the
history calls rollback() right after one.
"""
from __future__ import annotations

import warnings

META = {
    "id": "C27",
    "level": "fault_enumeration",
    "technique": "count-then-enumerate injection of disconnect / ordinary errors at every DBAPI call of Connection histories on a fake DBAPI, online trace specification + connection-identity ledger, virtual clock",
    "level_text": "For each sampled history the fault-free run counts the DBAPI calls; the history is re-run once per call index x {disconnect, ordinary error} x handle_error listener variant (3 of the 5 variants per history in quick, all 5 in thorough). Single faults, plus chains of three faults (disconnect -> fault on the reconnect path -> later error). Deterministic, single-threaded.",
    "level_note": "The DBAPI is a fake: the engine / pool / dialect.is_disconnect code is real, the driver is not. Dialects driven: postgresql+psycopg2 (message based classification) and mysql+pymysql (error-code based). pysqlite cannot run on the fake (needs create_function). Histories are sampled and bounded (<= 9 ops + 6 tail ops).",
    "design_ref": "DESIGN.md section 4, C27",
    "rule": "case = (dialect, listener variant, history, fault plan); non-trivial = the fault fired while the Connection was checked out; distinct by all four",
    "shards": {"quick": 8, "thorough": 16},
    "soft_s": {"quick": 150, "thorough": 800},
    "exhaustive": {"quick": False, "thorough": False},
    "require": ["faults_injected", "disconnects_judged", "ordinary_errors_judged", "blocked_ops_checked",
                "reconnects_checked", "handouts_checked", "faults_in_transaction", "faults_in_savepoint",
                "faults_in_commit", "faults_in_rollback", "listener_flips", "dry_runs", "chained_fault_runs",
                "three_fault_runs", "failed_reconnects_judged", "ordinary_errors_after_disconnect_judged"],
    "assumptions": ["the fake DBAPI's ledger (created_at, close_calls) is the ground truth for connection identity"],
}

LISTENERS = ["none", "passive", "force_true", "force_false", "no_pool_invalidate"]
TAIL = ["exec", "rollback", "exec", "commit", "other", "exec"]
# recovery tail of the chained-fault family: blocked exec, rollback, reconnect attempt (2nd
# fault hits it), successful reconnect, rollback, other, exec (3rd fault: ordinary / disconnect),
# then the usual recovery again
CHAIN_TAIL = ["exec", "rollback", "exec", "exec", "rollback", "other", "exec", "exec", "rollback", "exec",
              "commit", "other", "exec"]


def random_history(rng):
    ops = []
    txn, depth = False, 0
    for _ in range(rng.randint(3, 9)):
        c = ["exec"] * 5 + ["other"] * 2 + ["close_reconnect"]
        if not txn:
            c += ["begin"] * 2
        c += ["nested"] * 3 if depth < 2 else []
        if depth:
            c += ["release"] * 2 + ["sp_rollback"] * 2
        if txn:
            c += ["commit"] * 2 + ["rollback"] * 2
        op = rng.choice(c)
        ops.append(op)
        if op in ("exec", "begin", "nested"):
            txn = True
        if op == "nested":
            depth += 1
        if op in ("release", "sp_rollback"):
            depth -= 1
        if op in ("commit", "rollback", "close_reconnect"):
            txn, depth = False, 0
    return ops


class Run:
    def __init__(self, ctx, dialect, listener, history, plan, lifo, chain=None):
        from vf.mon.poolrig_gg import VClock

        self.ctx, self.dialect, self.listener, self.history, self.plan, self.lifo = ctx, dialect, listener, history, plan, lifo
        self.chain = list(chain or [])
        self.clock = VClock()
        self.trace = []
        self.viol = []
        self.stats = {}

    def bump(self, k, n=1):
        self.stats[k] = self.stats.get(k, 0) + n

    def bad(self, mech, text):
        if not self.viol:
            self.viol.append((mech, text))

    def execute(self):
        from sqlalchemy import pool as sp

        from vf.mon.poolrig_gg import Rig, virtual_time

        with virtual_time(self.clock), warnings.catch_warnings():
            warnings.simplefilter("ignore")
            pc = self.lifo if isinstance(self.lifo, dict) else {"lifo": bool(self.lifo)}
            self.poolcfg = {"lifo": False, "recycle": -1, "size": 3, "overflow": 0, **pc}
            rig = Rig(self.dialect, plan={}, clock=self.clock, poolclass=sp.QueuePool,
                      pool_size=self.poolcfg["size"], max_overflow=self.poolcfg["overflow"], pool_timeout=0,
                      pool_use_lifo=self.poolcfg["lifo"], pool_recycle=self.poolcfg["recycle"])
            self.rig = rig
            self.seen_ctx = []
            if self.listener != "none":
                def handle_error(ectx):
                    self.seen_ctx.append((ectx.is_disconnect, ectx.invalidate_pool_on_disconnect))
                    if self.listener == "force_true":
                        ectx.is_disconnect = True
                    elif self.listener == "force_false":
                        ectx.is_disconnect = False
                    elif self.listener == "no_pool_invalidate":
                        ectx.invalidate_pool_on_disconnect = False
                rig.sa.event.listen(rig.eng, "handle_error", handle_error)
            try:
                self._run(rig)
            finally:
                self.npoints = rig.npoints
                self.points = list(rig.points)
                self.fired = list(rig.fired)
                rig.dispose()
        return self

    # ------------------------------------------------------------------
    def _fc(self, conn):
        if conn.closed or conn.invalidated:
            return None
        return conn.connection.dbapi_connection

    def _handout(self, fc, where):
        """every acquisition of a DBAPI connection after the failure"""
        self.bump("handouts_checked")
        if fc.close_calls:
            self.bad("closed-connection-reused", f"{where}: connection #{fc.fake_id} handed out after close()")
        elif fc.created_at <= self.epoch:
            self.bad("connection-opened-before-failure-reused",
                     f"{where}: connection #{fc.fake_id} (created {fc.created_at}) handed out after the "
                     f"disconnect at {self.epoch}")

    def _run(self, rig):
        eng, fake, sa = rig.eng, rig.fake, rig.sa
        # pre-fill the pool: three idle connections "opened before the failure"
        rig.armed = False
        pre = [eng.connect() for _ in range(self.poolcfg["size"])]
        for c in pre:
            c.exec_driver_sql("select 0")
            c.rollback()
        for c in pre:
            c.close()
        del pre, c
        rig.armed = True
        rig.plan = dict(self.plan)
        rig.chain = list(self.chain)
        self.fail_time = None
        # pool-wide invalidation the disconnects oblige, by the documented rule of
        # Pool._invalidate: it moves to "now" only if the failing connection is newer than it
        # (the failing connection itself is closed: caught by the close_calls rule)
        self.epoch = 0.0
        self.last_ofc = None
        conn = eng.connect()
        handles = []
        state = {"txn": False, "blocked": False, "after_fault": False, "need_reconnect": False, "fc": self._fc(conn)}
        seq = list(self.history) + (CHAIN_TAIL if self.chain else TAIL)
        i = 0
        while i < len(seq):
            op = seq[i]
            i += 1
            if op in ("release", "sp_rollback") and not handles:
                continue
            if state["after_fault"] and op in ("release", "sp_rollback") and not state["blocked"]:
                handles.clear()
                continue            # handles from before the failure are dead; not part of the property
            mark = fake.mark()
            nfired = len(rig.fired)
            fc_before = state["fc"]
            open_before = {c.fake_id for c in rig.open_conns()}
            was_invalid = conn.invalidated
            nconn_before = len(rig.conns())
            err = None
            try:
                if op == "exec":
                    conn.exec_driver_sql("select 1")
                elif op == "begin":
                    conn.begin()
                elif op == "nested":
                    handles.append(conn.begin_nested())
                elif op == "release":
                    handles.pop().commit()
                elif op == "sp_rollback":
                    handles.pop().rollback()
                elif op == "commit":
                    conn.commit()
                elif op == "rollback":
                    conn.rollback()
                elif op == "close_reconnect":
                    conn.close()
                    handles.clear()
                    conn = eng.connect()
                elif op == "other":
                    o = eng.connect()
                    try:
                        ofc = o.connection.dbapi_connection
                        self.last_ofc = ofc
                        if True:
                            self._handout(ofc, "second Connection")
                        o.exec_driver_sql("select 2")
                        o.commit()
                    finally:
                        o.close()
                        del o
            except Exception as e:  # noqa: BLE001
                err = e
            events = fake.since(mark)
            calls = [e.kind for e in events if e.kind in ("cursor", "execute", "commit", "connect", "ping")]
            fault = rig.fired[nfired] if len(rig.fired) > nfired else None
            self.trace.append((op, type(err).__name__ if err else "ok", fault[1:] if fault else None))
            # ------------------------------------------------------------ the faulted op
            if fault is not None:
                k, desc, kind = fault
                self.bump("faults_injected")
                classified = kind == "disconnect"
                final = {"force_true": True, "force_false": False}.get(self.listener, classified)
                if self.listener in ("force_true", "force_false") and final != classified:
                    self.bump("listener_flips")
                if state["txn"]:
                    self.bump("faults_in_transaction")
                if handles:
                    self.bump("faults_in_savepoint")
                if desc == "dbapi:commit":
                    self.bump("faults_in_commit")
                if desc == "dbapi:rollback":
                    self.bump("faults_in_rollback")
                on_main = op not in ("other",) and not (op == "close_reconnect")
                if err is None:
                    if on_main:
                        self.bad(f"error-swallowed:{op}:{kind}", f"{op} did not raise although {desc} failed with {kind}")
                    return self._finish(conn)
                if not on_main:
                    # fault hit the second Connection or the pool's reset during close():
                    # only the ledger rule applies from here on
                    if final and desc != "dbapi:connect":
                        # (a failed connect() discards nothing: the reference point stays)
                        self.fail_time = self.clock.peek()
                        if (self.listener != "no_pool_invalidate" and op == "other" and desc != "dbapi:rollback"
                                and self.last_ofc is not None and self.last_ofc.created_at > self.epoch):
                            self.epoch = self.fail_time
                    state["after_fault"] = True
                    if op == "close_reconnect":
                        try:
                            conn = eng.connect()
                        except Exception:  # noqa: BLE001
                            return self._finish(None)
                        state.update(txn=False, blocked=False, fc=self._fc(conn))
                        handles.clear()
                    continue
                inval = getattr(err, "connection_invalidated", None)
                if final:
                    self.bump("disconnects_judged")
                    self.fail_time = self.fault_time(k)
                    if fc_before is not None:
                        if self.listener != "no_pool_invalidate" and fc_before.created_at > self.epoch:
                            self.epoch = self.fail_time
                    else:
                        # a failed reconnect of an already invalidated Connection has no pooled
                        # connection to discard: the reference point stays
                        self.bump("failed_reconnects_judged")
                    if not isinstance(err, sa.exc.DBAPIError) or inval is not True:
                        self.bad(f"disconnect-not-flagged:{op}", f"{op} raised {err!r} connection_invalidated={inval}")
                    elif not conn.invalidated:
                        self.bad(f"connection-not-invalidated:{op}", f"Connection.invalidated is False after disconnect in {op}")
                    # was a transaction in progress?  rollback() itself clears it even when it fails
                    if desc == "dbapi:connect":
                        # the transparent reconnect failed: nothing new was begun
                        had_txn = conn.get_transaction() is not None
                    elif state["txn"] or op == "nested" or (op == "exec" and desc != "dbapi:cursor"):
                        had_txn = True
                    elif op == "exec":
                        # the cursor of the first statement failed: whether autobegin had
                        # already happened is an implementation detail - ask the library
                        had_txn = conn.get_transaction() is not None
                    else:
                        had_txn = False
                    state["blocked"] = had_txn and op != "rollback"
                    state["txn"] = state["blocked"]
                    state["need_reconnect"] = True
                    state["after_fault"] = True
                    state["fc"] = None
                    if op == "rollback":
                        handles.clear()
                else:
                    self.bump("ordinary_errors_judged")
                    if state["after_fault"]:
                        self.bump("ordinary_errors_after_disconnect_judged")
                    state["after_fault"] = True
                    if isinstance(err, sa.exc.DBAPIError) and inval:
                        self.bad(f"ordinary-error-flagged-as-disconnect:{op}", f"{err!r}")
                    elif conn.invalidated and not was_invalid:
                        self.bad(f"ordinary-error-invalidated-connection:{op}", f"after {err!r}")
                    elif fc_before is not None:
                        closed_now = open_before - {c.fake_id for c in rig.open_conns()}
                        if closed_now or len(rig.conns()) != nconn_before:
                            self.bad(f"ordinary-error-touched-pool:{op}",
                                     f"connections closed {sorted(closed_now)} / opened {len(rig.conns()) - nconn_before}")
                    # what is left of the transaction is not prescribed: roll back and go on
                    try:
                        conn.rollback()
                    except Exception as e2:  # noqa: BLE001
                        self.bad(f"rollback-failed-after-ordinary-error:{op}", f"{e2!r}")
                    handles.clear()
                    state.update(txn=False, blocked=False)
                    if self._fc(conn) is not fc_before and fc_before is not None:
                        self.bad(f"ordinary-error-replaced-connection:{op}", "Connection no longer on the same DBAPI connection")
                if self.viol:
                    return self._finish(conn)
                continue
            # ------------------------------------------------------------ ops after / before the fault
            if state["blocked"]:
                self.bump("blocked_ops_checked")
                if op in ("exec", "commit", "begin", "nested", "release"):
                    if err is None:
                        self.bad(f"silent-continuation:{op}", f"{op} succeeded on an invalidated transaction before rollback()")
                    elif calls:
                        self.bad(f"dbapi-call-while-blocked:{op}", f"{op} raised {type(err).__name__} but made DBAPI calls {calls}")
                elif op == "sp_rollback":
                    if calls:
                        self.bad("dbapi-call-while-blocked:sp_rollback", f"DBAPI calls {calls}")
                elif op == "rollback":
                    if err is not None:
                        self.bad("rollback-raised-on-invalidated-transaction", f"{err!r}")
                    state.update(blocked=False, txn=False)
                    handles.clear()
                elif op == "close_reconnect":
                    state.update(blocked=False, txn=False, need_reconnect=False, fc=self._fc(conn))
                    if state["fc"] is not None:
                        self._handout(state["fc"], "new Connection after close")
                if self.viol:
                    return self._finish(conn)
                continue
            if err is not None:
                if state["after_fault"] and op in ("release", "sp_rollback"):
                    continue
                self.bad(f"unexpected-error:{op}:{'after' if state['after_fault'] else 'before'}-fault",
                         f"{op} raised {err!r}")
                return self._finish(conn)
            # successful op in a clean state
            if op in ("exec", "begin", "nested"):
                state["txn"] = True
            if op in ("commit", "rollback", "close_reconnect"):
                state["txn"] = False
                handles.clear()
            now = self._fc(conn)      # (begin() reconnects too)
            if state["need_reconnect"] and op in ("exec", "nested", "close_reconnect"):
                self.bump("reconnects_checked")
                state["need_reconnect"] = False
                if now is None:
                    self.bad(f"no-reconnect:{op}", "Connection still invalidated after a successful statement")
                elif conn.invalidated:
                    self.bad(f"still-invalidated-after-reconnect:{op}", "")
            if now is not None and now is not state["fc"]:
                if self.fail_time is not None:
                    self._handout(now, f"reconnect in {op}")
                state["fc"] = now
            if self.viol:
                return self._finish(conn)
        return self._finish(conn)

    def fault_time(self, k):
        return self.clock.peek()

    def _finish(self, conn):
        try:
            if conn is not None:
                conn.close()
        except Exception:  # noqa: BLE001
            pass


CHAINS = [
    # after the first (disconnect) fault: a fault on the reconnect path, then - after a
    # reconnect that worked and two more statements - a third fault
    [("dbapi:connect", "disconnect", 0), ("dbapi:execute", "error", 2)],
    [("dbapi:connect", "error", 0), ("dbapi:execute", "error", 2)],
    [("dbapi:cursor", "disconnect", 0), ("dbapi:execute", "error", 2)],
    [("dbapi:execute", "disconnect", 0), ("dbapi:execute", "error", 2)],
    [("dbapi:connect", "disconnect", 0), ("dbapi:execute", "disconnect", 2)],
]


def report(ctx, r):
    for mech, text in r.viol[:1]:
        lis = r.listener if r.listener in ("force_true", "force_false", "no_pool_invalidate") else "plain"
        ctx.violation(f"{mech}:{lis}",
                      f"{text} :: dialect={r.dialect} listener={r.listener} history={r.history} plan={r.plan} chain={r.chain} trace={r.trace[-7:]}",
                      {"dialect": r.dialect, "listener": r.listener, "history": r.history, "plan": r.plan, "chain": r.chain,
                       "lifo": r.lifo, "trace": r.trace, "fired": r.fired,
                       "dbapi_tail": [(e.kind, e.conn, e.get("sql"), e.get("faulted")) for e in r.rig.fake.log[-30:]]})
    for k, v in r.stats.items():
        ctx.count(k, v)
    ctx.count("fault_runs")
    if r.chain:
        ctx.count("chained_fault_runs")
        if len(r.fired) >= 3:
            ctx.count("three_fault_runs")
    ctx.case({"d": r.dialect, "l": r.listener, "h": r.history, "p": sorted(r.plan.items()), "c": r.chain},
             nontrivial=bool(r.fired))


def enumerate_faults(ctx, dialect, history, lifo, listeners):
    dry = Run(ctx, dialect, "passive", history, {}, lifo).execute()
    ctx.count("dry_runs")
    if dry.viol:
        report(ctx, dry)
        return
    ctx.count("fault_points", dry.npoints)
    for listener in listeners:
        for k, desc, kinds in dry.points:
            if desc in ("dbapi:connect", "dbapi:close"):
                continue            # C26's territory
            for kind in ("disconnect", "error"):
                if not ctx.budget_ok():
                    return
                report(ctx, Run(ctx, dialect, listener, history, {k: kind}, lifo).execute())
    # chained faults: disconnect, then trouble on the reconnect path, then another error
    for listener in (LISTENERS[:2] + ["no_pool_invalidate", "force_true"] if ctx.thorough else ["none"]):
        for k, desc, kinds in dry.points:
            if desc in ("dbapi:connect", "dbapi:close"):
                continue
            for chain in CHAINS:
                if not ctx.budget_ok():
                    return
                report(ctx, Run(ctx, dialect, listener, history, {k: "disconnect"}, lifo, chain=chain).execute())


def run(ctx):
    rng = ctx.rng
    nh = ctx.pick({"quick": 9, "thorough": 120})
    for i in range(nh):
        if not ctx.budget_ok():
            break
        dialect = ("psycopg2", "pymysql")[(i + ctx.shard) % 2]
        history = random_history(rng)
        # pool configuration crossed with the histories (pool_recycle far above the age any
        # connection reaches on the virtual clock: it must not change anything)
        lifo = {"lifo": rng.random() < 0.4, "recycle": rng.choice([-1, 3600, 100000]),
                "size": rng.choice([2, 3, 3, 4]), "overflow": rng.choice([0, 0, 1])}
        listeners = LISTENERS if ctx.thorough else ["none"] + rng.sample(LISTENERS[1:], 2)
        enumerate_faults(ctx, dialect, history, lifo, listeners)
        if len(ctx.samples) < 3:
            ctx.sample({"dialect": dialect, "history": history + TAIL, "listeners": listeners})
