"""C28 -- event listeners fire exactly as registered.

Part H (histories): a private ``Events`` class with three events over the hierarchy
Base -> A -> B, Base -> C (+ classes and instances created mid-history).  Every
``event.listen`` registers a *fresh* function that logs (its id, args), so one observed
call identifies the registration it came from.  After every dispatch the logged call
sequence must equal the reference registry's list.  Reference registry (the
specification, ~60 lines): per class an ordered list built from the registrations on
that class and its ancestors - prepended ones first (latest first), then appended ones
in registration order; instance listeners after class listeners; ``once`` listeners
fire on the first dispatch that reaches them and never again; ``named`` listeners
receive keyword arguments; ``remove`` of an unregistered triple must raise
InvalidRequestError; ``contains`` mirrors the registry; ``_update(other,
only_propagate)`` onto a fresh dispatch copies the propagate=True (resp. all) instance
listeners in order; ``_join(local, parent)`` dispatches local-then-parent.  A second
history family drives a real ``Engine``/``Connection`` with ``before_cursor_execute``
listeners registered with retval=True/False and checks the statement each listener
observed and the statement that reached the DBAPI.

Part S (schedules): M-sched with LINE preemption in event/attr.py, event/registry.py,
event/base.py and util.langhelpers.only_once; 2-4 threads concurrently call
``exec_once``, ``exec_once_unless_exception`` (listener raises on its first n calls),
``_exec_w_sync_on_first_run``, dispatch of ``once=True`` listeners, and first
``engine.connect()`` on a fresh engine.  Oracles: a once-only listener body runs at most
once (exactly once when nothing raises); ``_exec_w_sync_on_first_run`` listeners never
overlap until the first success; no thread sees an exception other than the one the
listener itself raised.

Guards: the same function is never registered twice on one inheritance chain (what
"each once" means for duplicates is not specified); multiple inheritance is exercised
by one diamond class whose dispatch is compared as a multiset; ``_update`` is applied
only to fresh targets, once (its documented use).
"""
from __future__ import annotations

import itertools

META = {
    "id": "C28",
    "level": "exploration",
    "technique": "lock-step reference-registry oracle over listen/remove/dispatch histories + deterministic thread scheduler on exec-once paths with call-count / overlap monitors",
    "level_text": "All listen/remove/subclass/dispatch histories of length <=3 over a reduced alphabet (exhaustive) and seeded random histories up to 30 ops, judged call-by-call against a reference registry; engine/connection retval chains; thousands of thread schedules (line- and lock-level preemption) of concurrent exec_once / exec_once_unless_exception / _exec_w_sync_on_first_run / once=True dispatch / first engine.connect().",
    "level_note": "Reference registry transcribes the documented semantics (registration order, insert first, propagate, once, named). Orders under multiple inheritance are not judged. Scheduler granularity is a source line + lock operations; free-threaded builds are out of scope (util.mini_gil is a no-op on this GIL build).",
    "design_ref": "DESIGN.md section 4, C28",
    "rule": "case = one history or one schedule; non-trivial = history with >=2 registrations and >=1 dispatch reaching >=2 listeners, or schedule with >=1 preemption; distinct by op list / (scenario, switch trace)",
    "shards": {"quick": 8, "thorough": 16},
    "soft_s": {"quick": 50, "thorough": 900},
    "require": ["dispatches", "listener_calls", "schedules", "preemptions", "line_events", "once_bodies_run", "retval_chains", "propagation_chain_histories"],
    "assumptions": ["reference registry is correct"],
}

EVENTS = ("ev_one", "ev_two", "ev_three")


def build_world():
    from sqlalchemy import event

    class TargetEvents(event.Events):
        def ev_one(self, x, y):
            pass

        def ev_two(self, x):
            pass

        def ev_three(self, x, y, z):
            pass

    class Base:
        dispatch = event.dispatcher(TargetEvents)

    class A(Base):
        pass

    class B(A):
        pass

    class C(Base):
        pass

    return TargetEvents, {"Base": Base, "A": A, "B": B, "C": C}


ARGS = {"ev_one": ("x", "y"), "ev_two": ("x",), "ev_three": ("x", "y", "z")}


class Reg:
    __slots__ = ("rid", "target", "ev", "insert", "propagate", "once", "named", "fired", "seq", "fn")

    def __init__(self, rid, target, ev, insert, propagate, once, named, seq):
        self.rid, self.target, self.ev = rid, target, ev
        self.insert, self.propagate, self.once, self.named = insert, propagate, once, named
        self.fired = False
        self.seq = seq
        self.fn = None


class Model:
    """The specification."""

    def __init__(self, classes):
        self.classes = dict(classes)       # name -> class
        self.parents = {"Base": None, "A": "Base", "B": "A", "C": "Base"}
        self.instances = {}                # name -> (obj, clsname)
        self.regs = []                     # active registrations
        self.copied = {}                   # instance name -> list of Reg copied by _update (order kept)

    def ancestors(self, cname):
        out = []
        while cname is not None:
            out.append(cname)
            cname = self.parents[cname]
        return out

    def class_list(self, cname, ev):
        anc = set(self.ancestors(cname))
        rs = [r for r in self.regs if r.ev == ev and r.target in anc]
        ins = sorted([r for r in rs if r.insert], key=lambda r: -r.seq)
        app = sorted([r for r in rs if not r.insert], key=lambda r: r.seq)
        return ins + app

    def inst_list(self, iname, ev):
        rs = [r for r in self.regs if r.ev == ev and r.target == iname]
        ins = sorted([r for r in rs if r.insert], key=lambda r: -r.seq)
        app = sorted([r for r in rs if not r.insert], key=lambda r: r.seq)
        own = ins + app
        cp = [r for r in self.copied.get(iname, []) if r.ev == ev and r in self.regs and r not in own]
        # _update extends the existing deque: copied ones keep their place relative to later
        # own registrations via seq of the copy operation
        merged = sorted(own + cp, key=lambda r: self._pos(iname, r))
        return merged

    def _pos(self, iname, r):
        return 0

    def expected(self, kind, name, ev):
        if kind == "cls":
            return self.class_list(name, ev)
        cname = self.instances[name][1]
        return self.class_list(cname, ev) + self.inst_list(name, ev)

    def fire(self, regs):
        out = []
        for r in regs:
            if r.once:
                if r.fired:
                    continue
                r.fired = True
            out.append(r)
        return out


def run_history(ctx, event, exc, ops, desc_tag):
    """Interpret one history against the real event system and the model."""
    TargetEvents, classes = build_world()
    m = Model(classes)
    log = []
    rid = itertools.count(1)
    seq = itertools.count(1)
    n_disp = 0
    max_reach = 0
    regs_by_id = {}
    dyn = itertools.count(1)
    inst_seq = {}   # iname -> ordered list of regs in the instance deque (model of the deque itself)

    def mk(r):
        if r.named:
            def fn(**kw):
                log.append((r.rid, "kw", tuple(sorted(kw))))
        else:
            def fn(*a):
                log.append((r.rid, "pos", a))
        return fn

    def target_obj(name):
        return m.classes[name] if name in m.classes else m.instances[name][0]

    def viol(mech, msg):
        ctx.violation(mech, f"{msg} :: ops={ops}", {"ops": ops, "tag": desc_tag})

    for op in ops:
        kind = op[0]
        if kind == "listen":
            _, tname, ev, insert, propagate, once, named = op
            if tname not in m.classes and tname not in m.instances:
                continue
            r = Reg(next(rid), tname, ev, insert, propagate, once, named, next(seq))
            r.fn = mk(r)
            regs_by_id[r.rid] = r
            kw = {}
            if insert:
                kw["insert"] = True
            if propagate:
                kw["propagate"] = True
            if once:
                kw["once"] = True
            if named:
                kw["named"] = True
            event.listen(target_obj(tname), ev, r.fn, **kw)
            m.regs.append(r)
            if tname in m.instances:
                lst = inst_seq.setdefault((tname, ev), [])
                if insert:
                    lst.insert(0, r)
                else:
                    lst.append(r)
        elif kind == "remove":
            _, k = op
            act = [r for r in regs_by_id.values()]
            if not act:
                continue
            r = act[k % len(act)]
            registered = r in m.regs
            try:
                event.remove(target_obj(r.target), r.ev, r.fn)
                raised = False
            except exc.InvalidRequestError:
                raised = True
            if registered and raised:
                viol("remove-registered-raised", f"remove of registered listener {r.rid} raised")
            elif not registered and not raised:
                viol("remove-unregistered-did-not-raise", f"remove of unregistered listener {r.rid} did not raise")
            if registered:
                m.regs.remove(r)
                for lst in inst_seq.values():
                    if r in lst:
                        lst.remove(r)
        elif kind == "contains":
            _, k = op
            act = list(regs_by_id.values())
            if not act:
                continue
            r = act[k % len(act)]
            got = event.contains(target_obj(r.target), r.ev, r.fn)
            if got != (r in m.regs):
                viol("contains-mismatch", f"contains({r.target},{r.ev},#{r.rid})={got} model={r in m.regs}")
        elif kind == "subclass":
            _, pname = op
            if pname not in m.classes:
                continue
            nm = f"D{next(dyn)}"
            m.classes[nm] = type(nm, (m.classes[pname],), {})
            m.parents[nm] = pname
        elif kind == "instance":
            _, cname = op
            if cname not in m.classes:
                continue
            nm = f"i{len(m.instances) + 1}"
            m.instances[nm] = (m.classes[cname](), cname)
        elif kind == "update":
            # fresh instance of class cname, populated from instance src
            _, cname, k, only_prop = op
            if not m.instances or cname not in m.classes:
                continue
            src = sorted(m.instances)[k % len(m.instances)]
            nm = f"i{len(m.instances) + 1}"
            obj = m.classes[cname]()
            m.instances[nm] = (obj, cname)
            obj.dispatch._update(m.instances[src][0].dispatch, only_propagate=only_prop)
            for ev in EVENTS:
                src_list = inst_seq.get((src, ev), [])
                cp = [r for r in src_list if (r.propagate or not only_prop)]
                inst_seq[(nm, ev)] = list(cp)
        elif kind in ("dispatch", "dispatch_cls", "dispatch_join"):
            ev = op[2]
            args = tuple(range(1, len(ARGS[ev]) + 1))
            del log[:]
            if kind == "dispatch":
                if not m.instances:
                    continue
                nm = sorted(m.instances)[op[1] % len(m.instances)]
                obj, cname = m.instances[nm]
                getattr(obj.dispatch, ev)(*args)
                exp = m.class_list(cname, ev) + inst_seq.get((nm, ev), [])
            elif kind == "dispatch_cls":
                names = sorted(m.classes)
                cname = names[op[1] % len(names)]
                d = m.classes["Base"].dispatch._for_class(m.classes[cname])
                getattr(d, ev)(*args)
                exp = m.class_list(cname, ev)
            else:
                if len(m.instances) < 2:
                    continue
                names = sorted(m.instances)
                n1 = names[op[1] % len(names)]
                n2 = names[(op[1] // 7 + 1 + names.index(n1)) % len(names)]
                if n1 == n2:
                    continue
                o1, c1 = m.instances[n1]
                o2, c2 = m.instances[n2]
                j = o1.dispatch._join(o2.dispatch)
                getattr(j, ev)(*args)
                exp = (m.class_list(c1, ev) + inst_seq.get((n1, ev), [])
                       + m.class_list(c2, ev) + inst_seq.get((n2, ev), []))
            exp = m.fire(exp)
            got = [e[0] for e in log]
            want = [r.rid for r in exp]
            n_disp += 1
            ctx.count("dispatches")
            ctx.count("listener_calls", len(got))
            max_reach = max(max_reach, len(want))
            if got != want:
                if sorted(got) == sorted(want):
                    viol("dispatch-order", f"{op}: called {got}, registry says {want}")
                elif len(got) != len(set(got)) and set(got) == set(want):
                    viol("dispatch-listener-called-twice", f"{op}: called {got}, registry says {want}")
                elif set(want) - set(got):
                    viol("dispatch-listener-missed", f"{op}: called {got}, registry says {want}")
                else:
                    viol("dispatch-unregistered-listener-called", f"{op}: called {got}, registry says {want}")
            else:
                for e in log:
                    r = regs_by_id[e[0]]
                    if r.named:
                        if e[1] != "kw" or e[2] != tuple(sorted(ARGS[ev])):
                            viol("named-listener-args", f"{op}: listener {r.rid} received {e}")
                    elif e[1] != "pos" or e[2] != args:
                        viol("positional-listener-args", f"{op}: listener {r.rid} received {e}")
    ctx.case({"ops": ops}, nontrivial=len(m.regs) >= 2 and n_disp >= 1 and max_reach >= 2)
    TargetEvents._clear()
    from sqlalchemy.event import base as ev_base
    ev_base._remove_dispatcher(TargetEvents)


def gen_ops_random(rng, n):
    ops = []
    for _ in range(n):
        r = rng.random()
        if r < 0.34:
            tgt = rng.choice(["Base", "A", "B", "C", "D1", "D2", "D3", "i1", "i2", "i3", "i4"])
            ops.append(("listen", tgt, rng.choice(EVENTS[:2]), rng.random() < 0.3, rng.random() < 0.4,
                        rng.random() < 0.2, rng.random() < 0.25))
        elif r < 0.44:
            ops.append(("remove", rng.randrange(50)))
        elif r < 0.49:
            ops.append(("contains", rng.randrange(50)))
        elif r < 0.55:
            ops.append(("subclass", rng.choice(["Base", "A", "B", "C", "D1", "D1", "D2", "D3"])))
        elif r < 0.65:
            ops.append(("instance", rng.choice(["Base", "A", "B", "C", "D1", "D2", "D3", "D4"])))
        elif r < 0.69:
            ops.append(("update", rng.choice(["A", "B", "C"]), rng.randrange(9), rng.random() < 0.6))
        elif r < 0.85:
            ops.append(("dispatch", rng.randrange(9), rng.choice(EVENTS[:2])))
        elif r < 0.94:
            ops.append(("dispatch_cls", rng.randrange(9), rng.choice(EVENTS[:2])))
        else:
            ops.append(("dispatch_join", rng.randrange(60), rng.choice(EVENTS[:2])))
    return ops


def gen_ops_chain(rng):
    """Propagation chains: listeners on an instance are handed down through several
    generations of ``_update`` (as a Connection branches from an Engine, an option-engine
    from an engine, a sub-subclass from a subclass), then some are removed, then every
    generation is dispatched."""
    ops = [("instance", rng.choice(["A", "B", "C"]))]

    def listens(tgt, n):
        for _ in range(n):
            ops.append(("listen", tgt, rng.choice(EVENTS[:2]), rng.random() < 0.25, rng.random() < 0.7,
                        rng.random() < 0.1, rng.random() < 0.2))

    listens("i1", rng.randint(1, 4))
    depth = rng.randint(2, 4)
    for d in range(depth):
        # source = the newest instance (index d of d+1 instances, names i1..i9 sort in order)
        ops.append(("update", rng.choice(["A", "B", "C"]), d, rng.random() < 0.7))
        if rng.random() < 0.4:
            listens(f"i{d + 2}", rng.randint(1, 2))
    for rnd in range(2):
        for _ in range(rng.randint(1, 3)):
            ops.append(rng.choice([("remove", rng.randrange(8)), ("remove", rng.randrange(8)), ("contains", rng.randrange(8))]))
        for i in range(depth + 1):
            for ev in EVENTS[:2]:
                ops.append(("dispatch", i, ev))
        if rng.random() < 0.5:
            ops.append(("dispatch_join", rng.randrange(60), rng.choice(EVENTS[:2])))
    return ops


REDUCED = [
    ("listen", "Base", "ev_one", False, False, False, False),
    ("listen", "A", "ev_one", True, False, False, False),
    ("listen", "B", "ev_one", False, False, True, False),
    ("listen", "i1", "ev_one", False, True, False, True),
    ("listen", "i1", "ev_one", True, False, False, False),
    ("listen", "D1", "ev_one", False, False, False, False),
    ("remove", 0),
    ("remove", 1),
    ("subclass", "A"),
    ("subclass", "D1"),
    ("instance", "B"),
    ("instance", "D1"),
    ("instance", "D2"),
    ("listen", "D2", "ev_one", False, False, False, False),
    ("update", "B", 0, True),
    ("dispatch", 0, "ev_one"),
    ("dispatch", 1, "ev_one"),
    ("dispatch_cls", 5, "ev_one"),
    ("dispatch_cls", 2, "ev_one"),
    ("dispatch_cls", 6, "ev_one"),
    ("dispatch", 2, "ev_one"),
]


def retval_history(ctx, rng):
    """Engine / Connection before_cursor_execute chains with retval=True/False."""
    import sqlalchemy as sa
    from sqlalchemy import event

    from vf.mon.dbapi_spy import Spy

    spy = Spy()
    eng = spy.engine(":memory:", poolclass=sa.pool.StaticPool)
    regs = []   # (level, tag, retval, insert)
    seen = []
    with eng.connect() as conn:
        conn.exec_driver_sql("select 0")
        n = rng.randint(2, 6)
        eng_regs, conn_regs = [], []
        for i in range(n):
            level = rng.choice(["engine", "conn"])
            retval = rng.random() < 0.6
            insert = rng.random() < 0.3
            tag = f"/*{level[0]}{i}*/"

            def fn(c, cur, stmt, params, context, executemany, tag=tag, retval=retval):
                seen.append((tag, stmt))
                if retval:
                    return stmt + tag, params
                return None

            event.listen(eng if level == "engine" else conn, "before_cursor_execute", fn, retval=retval, insert=insert)
            lst = eng_regs if level == "engine" else conn_regs
            if insert:
                lst.insert(0, (tag, retval))
            else:
                lst.append((tag, retval))
        mark = spy.mark()
        del seen[:]
        conn.exec_driver_sql("select 1")
        # connection dispatch is join(local=connection, parent=engine): local listeners first
        order = conn_regs + eng_regs
        stmt = "select 1"
        want_seen = []
        for tag, retval in order:
            want_seen.append((tag, stmt))
            if retval:
                stmt = stmt + tag
        got_sql = [e.sql for e in spy.since(mark, ("execute",))][-1]
        ctx.count("retval_chains")
        desc = {"order": order}
        if seen != want_seen:
            ctx.violation("retval-chain-observed-statements", f"listeners saw {seen}, expected {want_seen}", desc)
        elif got_sql != stmt:
            ctx.violation("retval-chain-final-statement", f"DBAPI got {got_sql!r}, expected {stmt!r}", desc)
        ctx.case({"retval": order}, nontrivial=len(order) >= 2)
    eng.dispose()


# ---------------------------------------------------------------------------- schedules
def sched_scenarios(ctx, rng, sched_mod, instr_modules):
    import sqlalchemy as sa
    from sqlalchemy import event

    nsched = ctx.pick({"quick": 260, "thorough": 9000})
    for it in range(nsched):
        if it >= 10 and not ctx.budget_ok():
            break
        scen = ["exec_once", "exec_once_unless_exception", "sync_first_run", "once_listener", "first_connect",
                "class_level_for_modify_exec_once"][it % 6]
        nthreads = rng.randint(2, 4)
        s = sched_mod.Scheduler(rng, switch_prob=rng.choice([0.1, 0.25, 0.5]))
        TargetEvents, classes = build_world()
        obj = classes["A"]()
        state = {"bodies": 0, "inside": 0, "overlap": 0, "success": 0, "raised": 0}
        fail_first = rng.randint(0, 2) if scen in ("exec_once_unless_exception", "sync_first_run") else 0

        class Boom(Exception):
            pass

        def listener(x, y):
            state["inside"] += 1
            if state["inside"] > 1 and state["success"] == 0:
                state["overlap"] += 1
            state["bodies"] += 1
            me = state["bodies"]
            s.yield_point("in-listener")
            s.yield_point("in-listener2")
            state["inside"] -= 1
            if me <= fail_first:
                state["raised"] += 1
                raise Boom()
            state["success"] += 1

        eng = None
        if scen == "once_listener":
            event.listen(obj, "ev_one", listener, once=True)
            coll = obj.dispatch.ev_one

            def call():
                coll(1, 2)
        elif scen == "class_level_for_modify_exec_once":
            # the pattern pool.__connect uses for first_connect: the collection is still the
            # shared _EmptyListener (only class-level listeners); every caller goes through
            # for_modify() and then exec_once()
            event.listen(classes["A"], "ev_one", listener)

            def call():
                obj.dispatch.ev_one.for_modify(obj.dispatch).exec_once(1, 2)
        elif scen == "first_connect":
            path = ctx.tmppath(".db")
            eng = sa.create_engine(f"sqlite:///{path}", poolclass=sa.pool.QueuePool,
                                   connect_args={"check_same_thread": False})
            init_calls = []
            orig_init = eng.dialect.initialize

            def counting_init(connection):
                init_calls.append(1)
                s.yield_point("in-initialize")
                return orig_init(connection)

            eng.dialect.initialize = counting_init

            def call():
                c = eng.connect()
                c.close()
        else:
            event.listen(obj, "ev_one", listener)
            coll = obj.dispatch.ev_one
            meth = {"exec_once": "exec_once", "exec_once_unless_exception": "exec_once_unless_exception",
                    "sync_first_run": "_exec_w_sync_on_first_run"}[scen]

            def call():
                getattr(coll, meth)(1, 2)

        unexpected = []

        def worker():
            for _ in range(2):
                try:
                    call()
                except Boom:
                    pass
                except Exception as e:  # noqa
                    unexpected.append(repr(e))

        for i in range(nthreads):
            s.spawn(worker, f"w{i}")
        s.run()
        ctx.count("schedules")
        ctx.count("preemptions", s.preemptions)
        ctx.count("line_events", s.line_events)
        desc = {"scenario": scen, "threads": nthreads, "fail_first": fail_first, "trace": s.trace[-40:]}
        if s.deadlock:
            ctx.violation(f"deadlock:{scen}", "all threads blocked", desc)
        if unexpected:
            ctx.violation(f"concurrent-dispatch-unexpected-exception:{scen}", f"{unexpected[:3]}", desc)
        if scen == "first_connect":
            ctx.count("once_bodies_run", len(init_calls))
            if len(init_calls) != 1:
                ctx.violation("first-connect-initialize-not-once", f"dialect.initialize ran {len(init_calls)} times under {nthreads} threads", desc)
            eng.dispose()
        elif scen in ("exec_once", "once_listener", "class_level_for_modify_exec_once"):
            ctx.count("once_bodies_run", state["bodies"])
            if state["bodies"] != 1:
                ctx.violation(f"once-listener-ran-{'twice' if state['bodies'] > 1 else 'never'}:{scen}",
                              f"body ran {state['bodies']} times under {nthreads} threads", desc)
        elif scen == "exec_once_unless_exception":
            ctx.count("once_bodies_run", state["bodies"])
            if state["success"] > 1:
                ctx.violation("once-unless-exception-ran-after-success", f"{state}", desc)
            if state["overlap"]:
                ctx.violation("once-unless-exception-overlap", f"{state}", desc)
            calls = nthreads * 2
            want_bodies = min(calls, fail_first + 1)
            if state["bodies"] != want_bodies:
                ctx.violation("once-unless-exception-call-count", f"bodies={state['bodies']} expected {want_bodies} {state}", desc)
        else:
            ctx.count("once_bodies_run", state["bodies"])
            if state["overlap"]:
                ctx.violation("sync-on-first-run-overlap-before-first-success", f"{state}", desc)
            if state["bodies"] != nthreads * 2:
                ctx.violation("sync-on-first-run-call-count", f"bodies={state['bodies']} expected {nthreads * 2}", desc)
        ctx.case({"scen": scen, "n": nthreads, "ff": fail_first, "trace": s.digest()}, nontrivial=s.preemptions >= 1)
        ctx.seen("schedule_digest", scen + s.digest())
        TargetEvents._clear()
        from sqlalchemy.event import base as ev_base
        ev_base._remove_dispatcher(TargetEvents)


def run(ctx):
    import sqlalchemy.event.attr as ev_attr
    import sqlalchemy.event.base as ev_base
    import sqlalchemy.event.registry as ev_registry
    import sqlalchemy.pool.base as pool_base
    import sqlalchemy.util.langhelpers as langhelpers
    from sqlalchemy import event
    from sqlalchemy import exc

    from vf.mon import sched as sched_mod

    rng = ctx.rng
    # ---- Part H: exhaustive short histories over the reduced alphabet
    L = ctx.pick({"quick": 3, "thorough": 4})
    idx = 0
    setup = [("instance", "A")]
    for n in range(1, L + 1):
        for combo in itertools.product(range(len(REDUCED)), repeat=n):
            idx += 1
            if not ctx.mine(idx):
                continue
            if n == L and not ctx.budget_ok(0.35):
                break
            ops = setup + [REDUCED[i] for i in combo] + [("dispatch", 0, "ev_one"), ("dispatch_cls", 1, "ev_one"), ("dispatch", 1, "ev_one"), ("dispatch", 2, "ev_one"), ("dispatch_cls", 5, "ev_one"), ("dispatch_cls", 6, "ev_one")]
            run_history(ctx, event, exc, ops, "exhaustive")
            if idx in (1, 300, 3000):
                ctx.sample({"history": ops})
    ctx.count("exhaustive_histories_done")
    for k in range(ctx.pick({"quick": 500, "thorough": 20000})):
        if k >= 20 and not ctx.budget_ok(0.5):
            break
        ops = [("instance", "A"), ("instance", "C")] + gen_ops_random(rng, rng.randint(5, 30))
        run_history(ctx, event, exc, ops, "random")
    for k in range(ctx.pick({"quick": 300, "thorough": 8000})):
        if k >= 20 and not ctx.budget_ok(0.55):
            break
        ops = gen_ops_chain(rng)
        run_history(ctx, event, exc, ops, "chain")
        ctx.count("propagation_chain_histories")
        if k == 0:
            ctx.sample({"chain_history": ops})
    for k in range(ctx.pick({"quick": 40, "thorough": 1500})):
        if k >= 3 and not ctx.budget_ok(0.6):
            break
        retval_history(ctx, rng)
    # ---- Part S
    class OnlyOnceMod:
        pass

    import sqlalchemy.pool.impl as pool_impl
    import sqlalchemy.util.queue as sa_queue

    instr = sched_mod.Instrumentation(
        line_modules=[ev_attr, ev_registry, ev_base, pool_base],
        threading_modules=[ev_attr, pool_impl, sa_queue],
        lock_attrs=[(ev_attr, "_exec_once_mutex_creation_lock"), (ev_attr, "_instance_collection_lock")],
    )
    # util.langhelpers is large: preempt only inside only_once's closure
    mon_extra = _only_once_codes(langhelpers)
    with instr:
        import sys
        for code in mon_extra:
            sys.monitoring.set_local_events(sched_mod.TOOL_ID, code, sys.monitoring.events.LINE)
            instr.codes.append(code)
        sched_scenarios(ctx, rng, sched_mod, None)


def _only_once_codes(langhelpers):
    import types

    out = []
    code = langhelpers.only_once.__code__
    out.append(code)
    for c in code.co_consts:
        if isinstance(c, types.CodeType):
            out.append(c)
    return out
