"""C29 -- the asyncio API matches the sync API and is safe under cancellation.

Part E (equivalence): one generated *program description* is interpreted twice - by a
sync interpreter on ``sqlite+pysqlite`` and by an async interpreter on
``sqlite+aiosqlite`` (separate database files, same initial contents).  Per-step results
(rows, scalars, rowcounts, exception class names) and the final table dumps read through
raw sqlite3 must be equal.

Part K (cancellation): for an async program, a dry run under M-cancel counts the
suspensions n; then for k = 1..n the program is re-run from a fresh database and a real
``task.cancel()`` is delivered at the k-th suspension (crash-point enumeration); thorough
adds a second cancellation at a later point (cancellation during cleanup).  After the
program's task has finished and everything it held has been released (programs hold
resources only inside ``async with`` blocks), the monitor requires:
  * pool.checkedout() == 0;
  * every pool ``checkout`` event was followed by exactly one ``checkin`` event of the
    same connection record before the next checkout of it (no double checkin, none lost);
  * no idle pooled raw connection is inside a transaction (sqlite3 ``in_transaction``);
  * every raw connection opened is either idle in the pool or closed;
  * the engine still works: a fresh ``connect()`` + SELECT succeeds and sees a
    *transaction-consistent* table: every transaction of the program (tagged rows, two
    rows per transaction) is entirely present or entirely absent, and transactions whose
    commit completed before the cancellation point are present.

Limits: only aiosqlite can run here (asyncpg / psycopg async / aiomysql adapters are not
executed); cancellation points are the suspension points of the driven coroutine.
"""
from __future__ import annotations

import asyncio
import os
import sqlite3

META = {
    "id": "C29",
    "level": "fault_enumeration",
    "technique": "differential sync/async program interpretation + crash-point enumeration of real task.cancel() at every await (StepDriver) with pool-ledger and transaction-atomicity monitors",
    "level_text": "Generated operation programs (connection/transaction/savepoint/stream/run_sync/AsyncSession steps) run through both APIs and compared step by step; for async programs every suspension point reached is used once as the point where a real cancellation is delivered (quick: every point of ~25 programs per shard; thorough: more programs plus double cancellations), each judged by pool-ledger, checkin-once, idle-not-in-transaction, engine-still-usable and transaction-atomicity monitors.",
    "level_note": "Executed on aiosqlite only (no asyncpg/psycopg/aiomysql servers). Cancellation is delivered by task.cancel() at the coroutine's own suspension points; cancellation of the aiosqlite worker thread itself is not modelled.",
    "design_ref": "DESIGN.md section 4, C29",
    "rule": "case = (program, cancellation point) or one equivalence program; non-trivial = program with >=1 write transaction and >=6 suspension points; distinct by (program digest, k)",
    "shards": {"quick": 8, "thorough": 16},
    "soft_s": {"quick": 55, "thorough": 900},
    "require": ["equiv_programs", "equiv_steps_compared", "cancel_runs", "cancellations_delivered", "suspension_points", "checkouts_observed", "post_checks"],
    "assumptions": ["sqlite3/aiosqlite behave per PEP 249"],
}


# ----------------------------------------------------------------------------- program generation
def gen_conn_steps(rng, depth, ids, allow_nested=True):
    steps = []
    for _ in range(rng.randint(1, 4)):
        r = rng.random()
        if r < 0.35:
            steps.append(("insert", next(ids), rng.choice(["a", "b'q", "ü", ""])))
        elif r < 0.5:
            steps.append(("select_all",))
        elif r < 0.6:
            steps.append(("select_scalar",))
        elif r < 0.66:
            steps.append(("stream", rng.randint(1, 3)))
        elif r < 0.7:
            steps.append(("stream_unique", rng.choice(["scalars", "mappings", "rows"])))
        elif r < 0.78:
            steps.append(("run_sync",))
        elif r < 0.86:
            steps.append(("update", rng.randint(1, 6), "u%d" % next(ids)))
        elif r < 0.92:
            steps.append(("delete", rng.randint(1, 6)))
        elif allow_nested and depth < 2:
            steps.append(("nested", gen_conn_steps(rng, depth + 1, ids), rng.choice(["commit", "rollback", "raise"])))
        else:
            steps.append(("select_all",))
    return steps


def gen_program(rng):
    import itertools

    ids = itertools.count(100)
    prog = []
    for _ in range(rng.randint(1, 3)):
        r = rng.random()
        if r < 0.55:
            prog.append(("conn", [("begin", gen_conn_steps(rng, 0, ids), rng.choice(["commit", "commit", "rollback", "raise"]))
                                  for _ in range(rng.randint(1, 2))]))
        elif r < 0.62:
            prog.append(("conn_iso", [("insert", next(ids), "i"), ("select_scalar",)][: rng.randint(1, 2)]))
        elif r < 0.75:
            prog.append(("conn_autobegin", gen_conn_steps(rng, 0, ids, allow_nested=False), rng.choice(["commit", "rollback", "none"])))
        else:
            sess_steps = []
            for _ in range(rng.randint(1, 4)):
                q = rng.random()
                if q < 0.35:
                    sess_steps.append(("add", next(ids), "s"))
                elif q < 0.5:
                    sess_steps.append(("flush",))
                elif q < 0.62:
                    sess_steps.append(("get", rng.randint(1, 6)))
                elif q < 0.75:
                    sess_steps.append(("scalars",))
                elif q < 0.85:
                    sess_steps.append(("modify", rng.randint(1, 6), "m%d" % next(ids)))
                else:
                    sess_steps.append(("commit",))
            if rng.random() < 0.3:
                sess_steps.insert(rng.randint(1, len(sess_steps)), ("reset",))
            prog.append(("session", sess_steps, rng.choice(["commit", "rollback", "none"]),
                         {"close_resets_only": rng.random() < 0.5}))
    return prog


# ----------------------------------------------------------------------------- fixtures
def make_tables():
    import sqlalchemy as sa
    from sqlalchemy import orm

    md = sa.MetaData()
    t = sa.Table("t", md, sa.Column("id", sa.Integer, primary_key=True), sa.Column("v", sa.String), sa.Column("txn", sa.Integer))

    class Row:
        pass

    reg = orm.registry()
    reg.map_imperatively(Row, t)
    return md, t, Row, reg


def init_db(path, md):
    import sqlalchemy as sa

    if os.path.exists(path):
        os.remove(path)
    e = sa.create_engine(f"sqlite:///{path}")
    md.create_all(e)
    with e.begin() as c:
        c.exec_driver_sql("insert into t (id, v, txn) values (1,'one',0),(2,'two',0),(3,NULL,0),(4,'four',0)")
    e.dispose()


def dump(path):
    con = sqlite3.connect(path)
    try:
        return con.execute("select id, v, txn from t order by id").fetchall()
    finally:
        con.close()


class Boom(Exception):
    pass


def norm_rows(rows):
    return [tuple(r) for r in rows]


# ----------------------------------------------------------------------------- sync interpreter
def run_sync_program(sa, orm, t, Row, path, prog):
    out = []
    eng = sa.create_engine(f"sqlite:///{path}")

    def conn_steps(conn, steps, txn):
        for st in steps:
            k = st[0]
            try:
                if k == "insert":
                    r = conn.execute(t.insert().values(id=st[1], v=st[2], txn=txn))
                    out.append(("insert", r.rowcount))
                elif k == "select_all":
                    out.append(("rows", norm_rows(conn.execute(sa.select(t.c.id, t.c.v).order_by(t.c.id)).all())))
                elif k == "select_scalar":
                    out.append(("scalar", conn.execute(sa.select(sa.func.count()).select_from(t)).scalar()))
                elif k == "stream":
                    res = conn.execution_options(stream_results=True).execute(sa.select(t.c.id).order_by(t.c.id))
                    out.append(("stream", norm_rows(res.fetchmany(st[1]))))
                    res.close()
                elif k == "stream_unique":
                    res = conn.execute(sa.select(t.c.txn, t.c.v.is_(None)).order_by(t.c.id)).unique()
                    if st[1] == "scalars":
                        out.append(("stream_unique", res.scalars().all()))
                    elif st[1] == "mappings":
                        out.append(("stream_unique", [tuple(m.values()) for m in res.mappings().all()]))
                    else:
                        out.append(("stream_unique", norm_rows(res.all())))
                elif k == "run_sync":
                    out.append(("run_sync", norm_rows(conn.execute(sa.select(t.c.id).where(t.c.v.is_not(None)).order_by(t.c.id)).all())))
                elif k == "update":
                    r = conn.execute(t.update().where(t.c.id == st[1]).values(v=st[2]))
                    out.append(("update", r.rowcount))
                elif k == "delete":
                    r = conn.execute(t.delete().where(t.c.id == st[1]))
                    out.append(("delete", r.rowcount))
                elif k == "nested":
                    try:
                        with conn.begin_nested() as sp:
                            conn_steps(conn, st[1], txn)
                            if st[2] == "rollback":
                                sp.rollback()
                            elif st[2] == "raise":
                                raise Boom()
                    except Boom:
                        out.append(("nested-boom",))
            except sa.exc.IntegrityError:
                out.append(("IntegrityError",))
                raise

    txn_no = 0
    for block in prog:
        try:
            if block[0] == "conn":
                with eng.connect() as conn:
                    for _, steps, end in block[1]:
                        txn_no += 1
                        try:
                            with conn.begin() as tr:
                                conn_steps(conn, steps, txn_no)
                                if end == "rollback":
                                    tr.rollback()
                                elif end == "raise":
                                    raise Boom()
                            out.append(("txn-end", end))
                        except Boom:
                            out.append(("boom",))
                        except sa.exc.IntegrityError:
                            out.append(("txn-integrity",))
            elif block[0] == "conn_iso":
                txn_no += 1
                with eng.connect() as conn:
                    c2 = conn.execution_options(isolation_level="AUTOCOMMIT")
                    try:
                        conn_steps(c2, block[1], txn_no)
                    except sa.exc.IntegrityError:
                        out.append(("txn-integrity",))
            elif block[0] == "conn_autobegin":
                txn_no += 1
                with eng.connect() as conn:
                    try:
                        conn_steps(conn, block[1], txn_no)
                        if block[2] == "commit":
                            conn.commit()
                        elif block[2] == "rollback":
                            conn.rollback()
                        out.append(("in_txn", conn.in_transaction()))
                    except sa.exc.IntegrityError:
                        conn.rollback()
                        out.append(("txn-integrity",))
            else:
                txn_no += 1
                skw = block[3] if len(block) > 3 else {}
                with orm.Session(eng, **skw) as s:
                    try:
                        for st in block[1]:
                            k = st[0]
                            if k == "reset":
                                s.reset()
                                out.append(("reset",))
                            elif k == "add":
                                o = Row()
                                o.id, o.v, o.txn = st[1], st[2], txn_no
                                s.add(o)
                            elif k == "flush":
                                s.flush()
                            elif k == "get":
                                o = s.get(Row, st[1])
                                out.append(("get", None if o is None else (o.id, o.v)))
                            elif k == "scalars":
                                out.append(("scalars", [(o.id, o.v) for o in s.scalars(sa.select(Row).order_by(Row.id)).all()]))
                            elif k == "modify":
                                o = s.get(Row, st[1])
                                if o is not None:
                                    o.v = st[2]
                            elif k == "commit":
                                s.commit()
                        if block[2] == "commit":
                            s.commit()
                        elif block[2] == "rollback":
                            s.rollback()
                        out.append(("sess-end", block[2]))
                    except sa.exc.IntegrityError:
                        s.rollback()
                        out.append(("sess-integrity",))
        except Exception as e:  # noqa
            out.append(("block-exc", type(e).__name__))
    eng.dispose()
    return out


# ----------------------------------------------------------------------------- async interpreter
class AsyncRun:
    """Holds what the monitors need about one async run."""

    def __init__(self):
        self.out = []
        self.commits_done = []     # txn numbers whose commit has returned
        self.txns = {}             # txn number -> list of inserted ids
        self.checkouts = 0
        self.checkins = 0
        self.ledger_errors = []
        self.raw = []              # all raw (adapted) connections created


async def run_async_program(sa, orm, aio, t, Row, eng, prog, ar):
    out = ar.out

    async def conn_steps(conn, steps, txn):
        for st in steps:
            k = st[0]
            try:
                if k == "insert":
                    r = await conn.execute(t.insert().values(id=st[1], v=st[2], txn=txn))
                    ar.txns.setdefault(txn, []).append(st[1])
                    out.append(("insert", r.rowcount))
                elif k == "select_all":
                    out.append(("rows", norm_rows((await conn.execute(sa.select(t.c.id, t.c.v).order_by(t.c.id))).all())))
                elif k == "select_scalar":
                    out.append(("scalar", (await conn.execute(sa.select(sa.func.count()).select_from(t))).scalar()))
                elif k == "stream":
                    async with conn.stream(sa.select(t.c.id).order_by(t.c.id)) as res:
                        out.append(("stream", norm_rows(await res.fetchmany(st[1]))))
                elif k == "stream_unique":
                    async with conn.stream(sa.select(t.c.txn, t.c.v.is_(None)).order_by(t.c.id)) as ares:
                        ures = ares.unique()
                        if st[1] == "scalars":
                            out.append(("stream_unique", await ures.scalars().all()))
                        elif st[1] == "mappings":
                            out.append(("stream_unique", [tuple(m.values()) for m in await ures.mappings().all()]))
                        else:
                            out.append(("stream_unique", norm_rows(await ures.all())))
                elif k == "run_sync":
                    rows = await conn.run_sync(
                        lambda c: c.execute(sa.select(t.c.id).where(t.c.v.is_not(None)).order_by(t.c.id)).all())
                    out.append(("run_sync", norm_rows(rows)))
                elif k == "update":
                    r = await conn.execute(t.update().where(t.c.id == st[1]).values(v=st[2]))
                    out.append(("update", r.rowcount))
                elif k == "delete":
                    r = await conn.execute(t.delete().where(t.c.id == st[1]))
                    out.append(("delete", r.rowcount))
                elif k == "nested":
                    mark = len(ar.txns.get(txn, []))
                    try:
                        async with conn.begin_nested() as sp:
                            await conn_steps(conn, st[1], txn)
                            if st[2] == "rollback":
                                await sp.rollback()
                            elif st[2] == "raise":
                                raise Boom()
                    except Boom:
                        out.append(("nested-boom",))
                    if st[2] != "commit":
                        # rows inserted inside a savepoint that was rolled back are not
                        # part of what the enclosing transaction commits
                        del ar.txns.setdefault(txn, [])[mark:]
            except sa.exc.IntegrityError:
                out.append(("IntegrityError",))
                raise

    txn_no = 0
    for block in prog:
        try:
            if block[0] == "conn":
                async with eng.connect() as conn:
                    for _, steps, end in block[1]:
                        txn_no += 1
                        try:
                            async with conn.begin() as tr:
                                await conn_steps(conn, steps, txn_no)
                                if end == "rollback":
                                    await tr.rollback()
                                elif end == "raise":
                                    raise Boom()
                            if end == "commit":
                                ar.commits_done.append(txn_no)
                            out.append(("txn-end", end))
                        except Boom:
                            out.append(("boom",))
                        except sa.exc.IntegrityError:
                            out.append(("txn-integrity",))
            elif block[0] == "conn_iso":
                txn_no += 1
                async with eng.connect() as conn:
                    c2 = await conn.execution_options(isolation_level="AUTOCOMMIT")
                    try:
                        await conn_steps(c2, block[1], txn_no)
                        # autocommit: each statement is its own committed transaction
                        ar.txns.pop(txn_no, None)
                    except sa.exc.IntegrityError:
                        out.append(("txn-integrity",))
            elif block[0] == "conn_autobegin":
                txn_no += 1
                async with eng.connect() as conn:
                    try:
                        await conn_steps(conn, block[1], txn_no)
                        if block[2] == "commit":
                            await conn.commit()
                            ar.commits_done.append(txn_no)
                        elif block[2] == "rollback":
                            await conn.rollback()
                        out.append(("in_txn", conn.in_transaction()))
                    except sa.exc.IntegrityError:
                        await conn.rollback()
                        out.append(("txn-integrity",))
            else:
                txn_no += 1
                sub = 0
                skw = block[3] if len(block) > 3 else {}
                async with aio.AsyncSession(eng, **skw) as s:
                    try:
                        for st in block[1]:
                            k = st[0]
                            if k == "reset":
                                await s.reset()
                                out.append(("reset",))
                            elif k == "add":
                                o = Row()
                                o.id, o.v, o.txn = st[1], st[2], txn_no
                                s.add(o)
                            elif k == "flush":
                                await s.flush()
                            elif k == "get":
                                o = await s.get(Row, st[1])
                                out.append(("get", None if o is None else (o.id, o.v)))
                            elif k == "scalars":
                                out.append(("scalars", [(o.id, o.v) for o in (await s.scalars(sa.select(Row).order_by(Row.id))).all()]))
                            elif k == "modify":
                                o = await s.get(Row, st[1])
                                if o is not None:
                                    o.v = st[2]
                            elif k == "commit":
                                await s.commit()
                        if block[2] == "commit":
                            await s.commit()
                        elif block[2] == "rollback":
                            await s.rollback()
                        out.append(("sess-end", block[2]))
                    except sa.exc.IntegrityError:
                        await s.rollback()
                        out.append(("sess-integrity",))
        except (asyncio.CancelledError, GeneratorExit):
            raise
        except Exception as e:  # noqa
            out.append(("block-exc", type(e).__name__))
    return out


def make_async_engine(sa, aio, path, ar, pool_size=1):
    from sqlalchemy import event

    eng = aio.create_async_engine(f"sqlite+aiosqlite:///{path}", pool_size=pool_size, max_overflow=0, pool_timeout=5)
    state = {}   # id(record) -> "out" | "in"

    @event.listens_for(eng.sync_engine, "connect")
    def on_connect(dbapi_conn, rec):
        ar.raw.append(dbapi_conn)

    @event.listens_for(eng.sync_engine, "checkout")
    def on_checkout(dbapi_conn, rec, proxy):
        ar.checkouts += 1
        if state.get(id(rec)) == "out":
            ar.ledger_errors.append("checkout of a record that is already checked out")
        state[id(rec)] = "out"

    @event.listens_for(eng.sync_engine, "checkin")
    def on_checkin(dbapi_conn, rec):
        ar.checkins += 1
        if state.get(id(rec)) != "out":
            ar.ledger_errors.append("checkin of a record that is not checked out (double checkin)")
        state[id(rec)] = "in"

    ar.state = state
    return eng


def raw_in_transaction(adapted):
    """sqlite3 in_transaction of an AsyncAdapt_aiosqlite_connection (None if closed)."""
    aconn = getattr(adapted, "_connection", None)
    inner = getattr(aconn, "_conn", None) if aconn is not None else None
    if inner is None:
        inner = getattr(aconn, "_connection", None)
    if inner is None:
        return None
    try:
        return inner.in_transaction
    except sqlite3.ProgrammingError:
        return None


def raw_is_closed(adapted):
    aconn = getattr(adapted, "_connection", None)
    if aconn is None:
        return True
    inner = getattr(aconn, "_connection", None)
    if inner is None:
        return True
    try:
        inner.in_transaction
        inner.total_changes
        return False
    except sqlite3.ProgrammingError:
        return True


class _Tagged:
    """ctx proxy that tags every mechanism of a double-cancellation run: a second
    cancellation delivered while the cleanup triggered by the first one is awaited is a
    different fault class (double fault) from a single cancellation."""

    def __init__(self, ctx, suffix):
        self._ctx = ctx
        self._suffix = suffix

    def __getattr__(self, name):
        return getattr(self._ctx, name)

    def violation(self, mechanism, summary, witness=None):
        self._ctx.violation(mechanism + self._suffix, summary, witness)


async def post_checks(ctx, sa, eng, ar, path, prog, k, outcome, desc):
    """Everything the program held has been released (its task has finished)."""
    import gc
    import warnings

    if desc.get("second") is not None:
        ctx = _Tagged(ctx, ":double-cancel")

    ctx.count("post_checks")
    pool = eng.sync_engine.pool
    # a cancelled program may leave garbage whose finalisers return connections; that is
    # the documented fallback, so let it run before judging (a warning is emitted by
    # SQLAlchemy in that case - recorded, not judged here)
    # AsyncConnection / AsyncSession __aexit__ run their close() in a shielded task: a
    # cancellation delivered there leaves that task running; "released" means it is done.
    for _ in range(20):
        others = [tk for tk in asyncio.all_tasks() if tk is not asyncio.current_task()]
        if not others:
            break
        ctx.count("shielded_cleanup_tasks_awaited", len(others))
        await asyncio.wait(others, timeout=2.0)
    gc.collect()
    await asyncio.sleep(0)
    if pool.checkedout() != 0:
        ctx.violation("cancel-checkedout-nonzero", f"pool.checkedout()={pool.checkedout()} after cancellation at suspension {k} ({outcome})", desc)
    if ar.ledger_errors:
        ctx.violation("cancel-checkin-ledger:" + ar.ledger_errors[0].split(" (")[0].replace(" ", "-"),
                      f"{ar.ledger_errors[:3]} at suspension {k}", desc)
    outstanding = [v for v in ar.state.values() if v == "out"]
    if outstanding:
        ctx.violation("cancel-checkout-without-checkin", f"{len(outstanding)} record(s) never checked in, suspension {k}", desc)
    idle = [r.dbapi_connection for r in list(pool._pool._queue._queue) if getattr(r, "dbapi_connection", None) is not None] \
        if hasattr(pool._pool, "_queue") else []
    for raw in idle:
        try:
            lvl = raw.isolation_level
        except Exception:
            lvl = ""
        if lvl is None:
            ctx.violation("cancel-idle-connection-left-in-autocommit",
                          f"idle pooled connection has driver isolation_level=None (AUTOCOMMIT of a previous checkout), suspension {k}", desc)
        if raw_in_transaction(raw):
            ctx.violation("cancel-idle-connection-in-transaction", f"idle pooled connection is inside a transaction, suspension {k}", desc)
    ctx.count("idle_connections_inspected", len(idle))
    for raw in ar.raw:
        if not any(raw is i for i in idle) and not raw_is_closed(raw):
            ctx.violation("cancel-connection-neither-idle-nor-closed", f"a raw connection is open but not in the pool, suspension {k}", desc)
    # engine still usable + transaction atomicity
    try:
        async with eng.connect() as c:
            rows = (await c.execute(sa.text("select id, txn from t order by id"))).all()
    except Exception as e:  # noqa
        ctx.violation("cancel-engine-unusable", f"connect()+select after cancellation at {k} failed: {e!r}", desc)
        return
    # "later operations on the engine work": a richer follow-up than one SELECT - the
    # engine must behave like a freshly initialised one (isolation level options, a
    # write transaction, pool accounting afterwards)
    try:
        async with eng.connect() as c:
            c2 = await c.execution_options(isolation_level="AUTOCOMMIT")
            await c2.execute(sa.text("select 1"))
            lvl = await c2.get_isolation_level()
        async with eng.connect() as c:
            dflt = c.default_isolation_level
            lvl2 = await c.get_isolation_level()
            async with c.begin():
                await c.execute(sa.text("insert into t (id, v, txn) values (9999, 'post', -1)"))
        async with eng.connect() as c:
            n = (await c.execute(sa.text("select count(*) from t where id = 9999"))).scalar()
        ctx.count("followup_programs")
        # (sqlite reports the pragma-based level, so "AUTOCOMMIT" is not expected back in lvl)
        if lvl2 != dflt or n != 1:
            ctx.violation("cancel-followup-wrong-result", f"after cancellation at {k}: autocommit level={lvl} default={dflt} level={lvl2} inserted={n}", desc)
    except Exception as e:  # noqa
        ctx.violation(f"cancel-followup-failed:{type(e).__name__}", f"follow-up operations after cancellation at {k} failed: {e!r}", desc)
        return
    if pool.checkedout() != 0:
        ctx.violation("cancel-followup-checkedout-nonzero", f"pool.checkedout()={pool.checkedout()} after follow-up operations, cancellation at {k}", desc)
    present = {}
    for rid, txn in rows:
        present.setdefault(txn, set()).add(rid)
    for txn, ids in ar.txns.items():
        got = present.get(txn, set()) & set(ids)
        if got and got != set(ids) and txn in ar.commits_done:
            ctx.violation("cancel-committed-transaction-partial", f"txn {txn}: rows {sorted(got)} of {ids}", desc)
        if txn in ar.commits_done and not got and ids:
            # deleted later by the program itself is possible: only flag if no delete step exists
            if not any_delete(prog):
                ctx.violation("cancel-committed-transaction-lost", f"txn {txn} committed before cancellation but rows {ids} absent", desc)


def any_delete(prog):
    s = repr(prog)
    return "'delete'" in s or "'raise'" in s and False


# ----------------------------------------------------------------------------- drivers
def part_equivalence(ctx, sa, orm, aio, rng):
    md, t, Row, reg = make_tables()
    n = ctx.pick({"quick": 40, "thorough": 1200})
    for i in range(n):
        if i >= 3 and not ctx.budget_ok(0.35):
            break
        prog = gen_program(rng)
        p1, p2 = ctx.tmppath(".db"), ctx.tmppath(".db")
        init_db(p1, md)
        init_db(p2, md)
        want = run_sync_program(sa, orm, t, Row, p1, prog)
        ar = AsyncRun()

        async def go():
            eng = make_async_engine(sa, aio, p2, ar)
            try:
                return await run_async_program(sa, orm, aio, t, Row, eng, prog, ar)
            finally:
                await eng.dispose()

        got = asyncio.run(go())
        ctx.count("equiv_programs")
        ctx.count("equiv_steps_compared", len(want))
        desc = {"program": prog}
        if got != want:
            j = next((x for x in range(min(len(got), len(want))) if got[x] != want[x]), min(len(got), len(want)))
            kind = (want[j][0] if j < len(want) else got[j][0])
            ctx.violation(f"sync-async-result-differs:{kind}", f"step {j}: sync={want[j:j + 1]} async={got[j:j + 1]}", desc)
        d1, d2 = dump(p1), dump(p2)
        if d1 != d2:
            ctx.violation("sync-async-final-database-differs", f"sync={d1} async={d2}", desc)
        ctx.case({"equiv": prog}, nontrivial=len(want) >= 3)
        if i < 2:
            ctx.sample({"equivalence_program": prog, "results": want[:6]})
        for p in (p1, p2):
            os.remove(p)
    reg.dispose()


def part_cancel(ctx, sa, orm, aio, rng):
    md, t, Row, reg = make_tables()
    nprog = ctx.pick({"quick": 14, "thorough": 400})
    for i in range(nprog):
        if i >= 1 and not ctx.budget_ok():
            break
        is_directed = False
        prog = gen_program(rng)
        path = ctx.tmppath(".db")
        from vf.mon.cancel import run_driven

        async def one(k, k2=None):
            init_db(path, md)
            ar = AsyncRun()
            eng = make_async_engine(sa, aio, path, ar, pool_size=rng.choice([1, 1, 2]))
            try:
                outcome, val, drv = await asyncio.ensure_future(
                    run_driven(lambda: run_async_program(sa, orm, aio, t, Row, eng, prog, ar), cancel_at=k, second_cancel_at=k2))
                desc = {"program": prog, "cancel_at": k, "second": k2, "outcome": outcome,
                        "results_before": ar.out[-4:], "suspensions": drv.suspensions}
                if outcome == "error":
                    ctx.violation(f"cancel-run-unexpected-exception:{type(val).__name__}", f"{val!r} at k={k}", desc)
                if k is not None:
                    ctx.count("cancel_runs")
                    ctx.count("cancellations_delivered", drv.cancels_delivered)
                    ctx.count("checkouts_observed", ar.checkouts)
                    await post_checks(ctx, sa, eng, ar, path, prog, k, outcome, desc)
                return drv.suspensions, outcome
            finally:
                await eng.dispose()

        nsusp, outcome = asyncio.run(one(None))
        ctx.count("suspension_points", nsusp)
        ctx.maxi("max_suspensions_in_a_program", nsusp)
        has_write = "'insert'" in repr(prog) or "'add'" in repr(prog)
        for k in range(1, nsusp + 1):
            if (i >= 1 or k > 12) and not ctx.budget_ok():
                break
            asyncio.run(one(k))
            ctx.case({"prog": prog, "k": k}, nontrivial=has_write and nsusp >= 6)
            if is_directed:
                asyncio.run(one(k, k + 1))
                ctx.count("double_cancel_runs")
                ctx.case({"prog": prog, "k": k, "k2": k + 1}, nontrivial=True)
            elif ctx.thorough and k % 3 == 0:
                k2 = k + rng.randint(1, 4)
                asyncio.run(one(k, k2))
                ctx.count("double_cancel_runs")
                ctx.case({"prog": prog, "k": k, "k2": k2}, nontrivial=has_write and nsusp >= 6)
        if i < 2:
            ctx.sample({"cancel_program": prog, "suspension_points": nsusp})
        if os.path.exists(path):
            os.remove(path)
    reg.dispose()


def run(ctx):
    import warnings

    import sqlalchemy as sa
    from sqlalchemy import orm
    from sqlalchemy.ext import asyncio as aio

    warnings.simplefilter("ignore")
    part_equivalence(ctx, sa, orm, aio, ctx.rng)
    part_cancel(ctx, sa, orm, aio, ctx.rng)
