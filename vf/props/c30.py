"""C30 -- flush writes exactly the in-memory object graph to the database.

Runs the real Session / unit of work on generated operation histories over the mapping
zoo of ``vf.gen.ormrig_gi`` (SQLite file DB, foreign_keys=ON, DBAPI spy) and, after every
flush and every commit, judges the *model-free consistency relation* between the live
objects' ``__dict__`` (read without triggering loads) and the rows read through the raw
DBAPI connection (in-transaction) / an independent observer connection (committed):

  (a) a persistent object's loaded column / composite attributes equal its row(s);
  (b) a persistent object has a row; an object the session reports deleted has none
      (unless another live object now owns that identity: row switch / rowid reuse);
  (c) a loaded many-to-one's target key equals the FK columns of the row;
  (d) a loaded collection's persistent members are exactly the rows that reference the
      parent (one-to-many) / the association rows (many-to-many, association object);
      a member the history never removed or expunged but which is outside the session
      (so no row was written for it) is reported as
      ``collection-member-dropped-from-session-not-inserted``;
  (e) every row is owned by some live object (all rows are created by the generator);
  (g) the rows themselves are referentially intact (``PRAGMA foreign_key_check``); about half
      of the histories run with foreign_keys=OFF so that a row the flush leaves dangling is
      seen here instead of being vetoed by the database (a vetoed flush is C31's business);
  (f) at commit: a brand-new Session on a separate engine loads an equivalent graph
      (class, column values, many-to-one keys, collection membership).

There is no simulation of the unit of work: nothing predicts *which* statements should
be emitted, only that objects and rows agree afterwards.

Guards (each is documented ORM behaviour; encoded once in the rig, see its docstring):
S1 stale collection / many-to-one entries for objects deleted in the same flush are
filtered; S2 ORM None => column default fires (nothing to do: comparison is after the
flush); S3/S4 one-sided relationship mutation and direct FK-column writes are never
generated; S5 expunged objects make no claim; S6 expire/refresh only at clean points;
S7 the reverse many-to-one is loaded before re-parenting (backrefs do not emit SQL to
find the old parent).  Contradictory input is never generated: deleting an object that
takes part in an unflushed relationship change, a cascade onto a stale already-deleted
member, a Node parent swap whose old+new edges form a cycle (judged by C31's probe).
Objects are expunged only at the start of a transaction and only if they predate it (the
session forgets everything about an expunged object, including rows it wrote); a detached
object is re-added only if its loaded values are still current; after ``close()`` detached
objects make no claim.
A primary-key change is flushed at once (an attribute load while a PK change is pending
raises ObjectDeletedError -- reported separately, outside this property).
Intent rule: what the history explicitly add()s -- an object (graph) built outside any
session (ops tnew / collection edits on parents outside the session / add), or an object
marked with Session.delete() and re-added before the flush (op undel) -- is persistent after
the flush.  A member once removed from a delete-orphan collection of a parent outside any
session and later dropped by the flush is ``member-orphaned-outside-session-dropped-at-flush``.
Histories whose flush raises are not judged here (C31 / C32 judge those).
Two directed witnesses run on shard 0 of every run: the pending delete-orphan child that
is dropped when moved to another parent, and the delete cascade onto a stale, already
deleted collection member whose second DELETE removes a row that reused its rowid.
"""
from __future__ import annotations

import itertools

META = {
    "id": "C30",
    "level": "exploration",
    "technique": "model-free consistency relation between live object graph (__dict__ snapshot, no loads) and rows after every flush/commit of generated Session histories; fresh-Session reload comparison",
    "level_text": "Seeded random histories (<=18 ops quick / <=60 thorough) over a 21-class mapping zoo (o2m/m2o, delete-orphan, self-referential tree, post_update cycle, many-to-many, association object, joined + single inheritance, natural PK with passive_updates=False, composites) with 4 knob combinations and expire_on_commit on/off, plus every history of length <=3 over a reduced alphabet on Z1 and Z3; each flush/commit is judged by relation (a)-(f).",
    "level_note": "SQLite only (PostgreSQL/MariaDB are not executable here). Unloaded attributes have no in-memory value and are not compared; documented staleness S1-S7 is filtered (see module docstring); histories whose flush raises are left to C31/C32. Trusted base: mapper configuration facts (local/remote pairs, table/PK layout) read from the mappers, raw sqlite3 reads.",
    "design_ref": "DESIGN.md section 4, 'ORM properties - common rig' and C30",
    "rule": "case = one history (op list, knobs); non-trivial = its flushes emitted >= 2 distinct (verb, table) statement kinds; distinct by op list + knobs",
    "shards": {"quick": 16, "thorough": 16},
    "soft_s": {"quick": 50, "thorough": 840},
    "exhaustive": {"quick": False, "thorough": False},
    "require": ["flushes_judged", "commits_judged", "column_values_compared", "m2o_compared", "collections_compared",
                "collection_members_compared", "rows_checked_for_owner", "deleted_objects_checked",
                "fresh_values_compared", "exhaustive_small_histories"],
    "assumptions": ["mapper configuration (local_remote_pairs, tables, primary keys) is as declared by the zoo",
                    "raw sqlite3 reads on the session's DBAPI connection show the in-transaction state"],
}

KNOBS = [
    dict(tree_cascade="default", m2m_set=False),
    dict(tree_cascade="all", m2m_set=True),
    dict(tree_cascade="all", m2m_set=False),
    dict(tree_cascade="default", m2m_set=True),
]

# no savepoints here: a SAVEPOINT rollback leaves what unmodified objects loaded while it was
# open stale by design (S8); C33 owns savepoints and encodes that
WEIGHTS = {"rollback": 1, "close": 1, "nest": 0, "spc": 0, "spr": 0, "tnew": 8, "add": 5, "undel": 4}


class Zoos:
    def __init__(self, ctx):
        self.ctx = ctx
        self.cache = {}

    def get(self, k):
        from vf.gen import ormrig_gi as R

        if k not in self.cache:
            zoo = R.Zoo(**KNOBS[k])
            tpl = zoo.template(self.ctx.tmppath(".tpl.db"))
            self.cache[k] = (zoo, tpl)
        return self.cache[k]

    def dispose(self):
        for zoo, _ in self.cache.values():
            zoo.dispose()


def stmt_kinds(rig, mark):
    out = set()
    for e in rig.dml_since(mark):
        w = e.sql.split()
        verb = w[0].upper()
        table = w[2] if verb in ("INSERT", "DELETE") else w[1]
        out.add(f"{verb} {table}")
    return out


def judge(ctx, rig, R, where, ops, knobs, reader=None, fresh_snap=None):
    """Apply the relation; report findings as violations.  Returns the snapshot."""
    cnt = {}
    snap = R.snapshot(rig)
    findings = R.relation(rig, snap, reader or rig.read_txn, cnt)
    if where.startswith(("flush", "final-flush")):
        findings += R.intent_findings(rig, snap, cnt)
    if fresh_snap is not None:
        findings += R.fresh_compare(rig, fresh_snap, cnt)
    for k, v in cnt.items():
        ctx.count(k, v)
    for f in findings:
        ctx.violation(
            f.mechanism,
            f"{where}: {f.summary}",
            {"ops": ops, "knobs": knobs, "where": where, "detail": f.detail, "graph": R.snap_public(snap)[:40]},
        )
    return snap


def run_history(ctx, R, zoo, tpl, knobs, eoc, opsrc, maxops, fk=True):
    """opsrc(gen) yields ops to try; returns nothing, reports through ctx.  ``fk=False``: the
    database enforces no foreign key, so a row left dangling by the flush is not vetoed
    (IntegrityError -> history not judged) but seen by relation (g)."""
    import sqlalchemy as sa

    rig = R.Rig(zoo, tpl, ctx.tmppath(".db"), expire_on_commit=eoc, fk=fk)
    if not fk:
        ctx.count("histories_without_fk_enforcement")
    it = R.Interp(rig)
    ops = []
    kinds = set()
    kd = {"knobs": knobs, "expire_on_commit": eoc, "fk": fk}
    aborted = None
    try:
        for op in opsrc(rig):
            if len(ops) >= maxops:
                break
            mark = rig.spy.mark()
            try:
                if op[0] == "commit":
                    # flush, snapshot, judge in-transaction, commit, judge committed + fresh load
                    rig.session.flush()
                    kinds |= stmt_kinds(rig, mark)
                    pre = judge(ctx, rig, R, "flush-before-commit", ops + [op], kd)
                    ctx.count("flushes_judged")
                    it.apply(op)
                    judge(ctx, rig, R, "commit", ops + [op], kd, reader=rig.read_committed, fresh_snap=pre)
                    ctx.count("commits_judged")
                    ops.append(op)
                    continue
                ok = it.apply(op)
            except sa.exc.SQLAlchemyError as e:
                aborted = type(e).__name__
                ops.append(op)
                break
            kinds |= stmt_kinds(rig, mark)
            if not ok:
                ctx.count("ops_skipped_by_guard")
                continue
            ops.append(op)
            ctx.seen("op_kinds", op[0])
            if op[0] in ("flush", "expall", "expire", "refresh", "pk", "nest") or (
                    op[0] == "add" and not (rig.session.new or rig.session.deleted)):   # ops that flush explicitly
                judge(ctx, rig, R, "flush", ops, kd)
                ctx.count("flushes_judged")
            elif op[0] in ("rollback", "spr", "spc", "close"):
                # not a flush, but the relation must hold as well (also C33's business)
                if not (rig.session.new or rig.session.dirty or rig.session.deleted):
                    judge(ctx, rig, R, "after-" + op[0], ops, kd)
        if aborted is None:
            # final flush + commit so that every history is judged at least once
            mark = rig.spy.mark()
            try:
                rig.session.flush()
                kinds |= stmt_kinds(rig, mark)
                pre = judge(ctx, rig, R, "final-flush", ops + [["flush"]], kd)
                ctx.count("flushes_judged")
                rig.session.commit()
                rig.sp = []
                judge(ctx, rig, R, "final-commit", ops + [["flush"], ["commit"]], kd, reader=rig.read_committed, fresh_snap=pre)
                ctx.count("commits_judged")
            except sa.exc.SQLAlchemyError as e:
                aborted = type(e).__name__
        if aborted:
            ctx.count("histories_aborted_by_exception")
            ctx.seen("abort_exceptions", aborted)
        for k in kinds:
            ctx.seen("statement_kinds", k)
        ctx.count("ops_applied", len(ops))
        ctx.case({"ops": ops, **kd}, nontrivial=len(kinds) >= 2)
        return ops, kinds
    finally:
        rig.close()


# reduced alphabets for the exhaustive small mode -------------------------------------
Z1_BASE = [
    ["new", "Parent", 0, {"name": "p0", "n": None}, {}],
    ["new", "Parent", 1, {"name": "p1", "n": 3}, {}],
    ["new", "Child", 2, {"val": 1}, {"parent": 0}],
    ["new", "Child", 3, {"val": 2}, {"parent": None}],
    ["commit"],
    ["touch", 0, "children"],
]
Z1_ALPHA = [
    ["m2o", 2, "parent", 1], ["m2o", 2, "parent", None], ["m2o", 3, "parent", 0],
    ["app", 1, "children", 2], ["app", 0, "children", 3], ["rem", 0, "children", 2],
    ["repl", 0, "children", [3]], ["clr", 0, "children"], ["del", 2], ["del", 0],
    ["set", 2, "val", 9], ["expire", 0], ["flush"], ["touch", 1, "children"],
    ["set", 1, "n", None], ["set", 1, "name", None], ["new", "Child", None, {"val": 5}, {"parent": 1}],
    ["undel", 2], ["undel", 0],
]
Z3_BASE = [
    ["new", "Left", 0, {"name": "l0"}, {}],
    ["new", "Left", 1, {"name": "l1"}, {}],
    ["new", "Right", 2, {"name": "r2"}, {}],
    ["new", "Right", 3, {"name": "r3"}, {}],
    ["app", 0, "rights", 2],
    ["commit"],
    ["touch", 0, "rights"],
]
Z3_ALPHA = [
    ["app", 0, "rights", 3], ["app", 1, "rights", 2], ["rem", 0, "rights", 2], ["app", 2, "lefts", 1],
    ["rem", 2, "lefts", 0], ["repl", 0, "rights", [3]], ["repl", 0, "rights", [2, 3]], ["clr", 0, "rights"],
    ["del", 0], ["del", 2], ["flush"], ["expall"], ["touch", 2, "lefts"],
]


# the self-referential tree with its outside relatives (tag many-to-many, referencing NRef, owning NOwner)
Z2_BASE = [
    ["new", "Node", 0, {"label": "n0"}, {"parent": None}],
    ["new", "Node", 1, {"label": "n1"}, {"parent": 0}],
    ["new", "Node", 2, {"label": "n2"}, {"parent": 0}],
    ["new", "NTag", 3, {"word": "t3"}, {}],
    ["app", 0, "tags", 3],
    ["new", "NRef", 4, {"note": "r4"}, {"node": 1}],
    ["new", "NOwner", 5, {"name": "o5"}, {}],
    ["app", 5, "nodes", 2],
    ["commit"],
    ["touch", 0, "children"], ["touch", 1, "children"], ["touch", 2, "children"], ["touch", 0, "tags"], ["touch", 5, "nodes"],
]
Z2_ALPHA = [
    ["rem", 0, "children", 1], ["del", 0], ["del", 1], ["m2o", 2, "parent", 1], ["m2o", 2, "parent", None],
    ["rem", 0, "tags", 3], ["del", 3], ["new", "Node", None, {"label": "nx"}, {"parent": 1}], ["m2o", 4, "node", 2],
    ["del", 4], ["rem", 5, "nodes", 2], ["del", 5], ["flush"], ["set", 1, "label", "z"],
    ["undel", 0], ["undel", 1],
]
# graph building outside the session over two delete-orphan parent classes (Z9)
Z9_BASE = [
    ["new", "Folder", 0, {"name": "f0"}, {}],
    ["commit"],
    ["tnew", "Draft", 1, {"title": "d1"}],
    ["tnew", "Note", 2, {"text": "n2"}],
    ["tnew", "Note", 3, {"text": "n3"}],
    ["app", 1, "notes", 2],
]
Z9_ALPHA = [
    ["rem", 1, "notes", 2], ["clr", 1, "notes"], ["repl", 1, "notes", [3]], ["pop", 1, "notes"], ["app", 1, "notes", 3],
    ["add", 2], ["add", 3], ["add", 1], ["app", 0, "notes", 2], ["app", 0, "notes", 3], ["flush"], ["del", 0],
]
DROP_BASE = [
    ["new", "Owner", 0, {"name": "o0"}, {}],
    ["new", "Owner", 1, {"name": "o1"}, {}],
    ["new", "Item", 2, {"qty": 1}, {"owner": 1}],
]


def directed_rowswitch_selfref(ctx, R, zoo, tpl):
    """Row switch (delete + add of the same primary key in one flush) on a mapper that is
    flushed per-state (self-referential Node): the replacing object UPDATEs the row; the
    row must still be there afterwards."""
    import sqlalchemy as sa

    rig = R.Rig(zoo, tpl, ctx.tmppath(".db"))
    ops = ["n=Node(id=1,label='old'); commit", "delete(n); add(Node(id=1,label='new'))", "flush"]
    try:
        s = rig.session
        Node = zoo.cls["Node"]
        old = Node(id=1, label="old")
        s.add(old)
        s.commit()
        new = Node(id=1, label="new")
        rig.track(old)
        rig.track(new)
        s.delete(old)
        s.add(new)
        try:
            s.flush()
        except sa.exc.SQLAlchemyError as e:
            ctx.seen("directed_rowswitch_raised", type(e).__name__)
            return
        cnt = {}
        snap = R.snapshot(rig)
        for f in R.relation(rig, snap, rig.read_txn, cnt):
            mech = f.mechanism
            if mech in ("persistent-object-without-row", "row-without-owner", "deleted-object-row-exists"):
                mech = "row-switch-on-per-state-mapper-deletes-row"
            ctx.violation(mech, "directed: " + f.summary, {"ops": ops, "detail": f.detail, "graph": R.snap_public(snap)})
        for k, v in cnt.items():
            ctx.count(k, v)
        ctx.count("directed_histories")
        ctx.case({"directed": "rowswitch-selfref"}, nontrivial=True)
    finally:
        rig.close()


def directed_stale_cascade(ctx, R, zoo, tpl):
    """Session.delete(parent) cascades along a loaded collection that still lists a child
    whose DELETE an earlier flush already emitted (documented staleness).  The child is put
    back into the identity map and deleted a second time; if a new row has been given the
    same rowid meanwhile, that second DELETE removes the new object's row."""
    import sqlalchemy as sa

    rig = R.Rig(zoo, tpl, ctx.tmppath(".db"))
    ops = ["o1,o2=Owner(),Owner(); i1=Item(owner=o1); commit", "o1.items", "delete(i1); flush", "delete(o1)",
           "i2=Item(owner=o2); add(i2)", "flush"]
    try:
        s = rig.session
        Owner, Item = zoo.cls["Owner"], zoo.cls["Item"]
        o1, o2 = Owner(name="a"), Owner(name="b")
        i1 = Item(qty=1, owner=o1)
        s.add_all([o1, o2, i1])
        s.commit()
        list(o1.items)
        s.delete(i1)
        s.flush()
        i2 = Item(qty=2, owner=o2)
        try:
            s.delete(o1)
            s.add(i2)
            s.flush()
        except sa.exc.SQLAlchemyError as e:
            ctx.count("directed_histories")
            ctx.seen("directed_stale_cascade_raised", type(e).__name__)
            return
        cnt = {}
        snap = R.snapshot(rig)
        for f in R.relation(rig, snap, rig.read_txn, cnt):
            mech = f.mechanism
            if mech in ("persistent-object-without-row", "row-without-owner", "deleted-object-row-exists"):
                mech = "delete-cascade-onto-stale-deleted-member-deletes-reused-row"
            ctx.violation(mech, "directed: " + f.summary, {"ops": ops, "detail": f.detail, "graph": R.snap_public(snap)})
        for k, v in cnt.items():
            ctx.count(k, v)
        ctx.count("directed_histories")
        ctx.case({"directed": "stale-cascade"}, nontrivial=True)
    finally:
        rig.close()


def run(ctx):
    import warnings

    warnings.simplefilter("ignore")
    from vf.gen import ormrig_gi as R

    zoos = Zoos(ctx)
    rng = ctx.rng
    try:
        # ---- part A: exhaustive histories of length <= 3 over reduced alphabets (Z1, Z3)
        import time

        t0 = time.monotonic()

        def part_a_over():   # budget split only (never a verdict): leave >= 40% to part B
            return time.monotonic() - t0 > 0.6 * ctx.soft_s

        idx = 0
        maxlen = 3 if ctx.thorough else 2
        for L in range(1, maxlen + 1):
            for name, base, alpha in (("Z9", Z9_BASE, Z9_ALPHA), ("Z2", Z2_BASE, Z2_ALPHA), ("Z3", Z3_BASE, Z3_ALPHA), ("Z1", Z1_BASE, Z1_ALPHA)):
                for seq in itertools.product(range(len(alpha)), repeat=L):
                    idx += 1
                    if not ctx.mine(idx):
                        continue
                    if not ctx.budget_ok() or part_a_over():
                        break
                    tail = [alpha[i] for i in seq]
                    # each sequence under both zoo variants of this shard (one with, one
                    # without tree delete cascade) and with / without FK enforcement
                    k0, k1 = ctx.shard % len(KNOBS), (ctx.shard + 2) % len(KNOBS)
                    if name in ("Z2", "Z3"):   # the zoo knobs (tree cascade, list/set) matter here
                        combos = [(k0, False), (k1, False), (k0 if idx % 2 else k1, True)]
                    else:
                        combos = [(k0 if idx % 2 else k1, bool((idx // 2) % 2))]
                    for k, fk in combos:
                        zoo, tpl = zoos.get(k)
                        run_history(ctx, R, zoo, tpl, KNOBS[k], bool(idx % 2), lambda rig, b=base, t=tail: iter(b + t), 99, fk=fk)
                    ctx.count("exhaustive_small_histories")
        # quick: length-3 sequences are sampled instead of enumerated
        if ctx.quick:
            for j in range(25):
                for name, base, alpha in (("Z1", Z1_BASE, Z1_ALPHA), ("Z3", Z3_BASE, Z3_ALPHA), ("Z2", Z2_BASE, Z2_ALPHA), ("Z9", Z9_BASE, Z9_ALPHA)):
                    if not ctx.budget_ok() or part_a_over():
                        break
                    k = (ctx.shard + 2 * rng.randrange(2)) % len(KNOBS)
                    zoo, tpl = zoos.get(k)
                    tail = [rng.choice(alpha) for _ in range(3)]
                    run_history(ctx, R, zoo, tpl, KNOBS[k], rng.random() < 0.5, lambda rig, b=base, t=tail: iter(b + t), 99,
                                fk=rng.random() < 0.5)
                    ctx.count("sampled_len3_histories")

        # ---- directed witnesses (run on every shard 0): a pending delete-orphan child moved
        # to another parent is silently dropped from the session and never INSERTed
        if ctx.shard == 0:
            zoo, tpl = zoos.get(0)
            for tail in ([["app", 0, "items", 2]], [["m2o", 2, "owner", 0]]):
                run_history(ctx, R, zoo, tpl, KNOBS[0], True, lambda rig, t=tail: iter(DROP_BASE + t + [["flush"]]), 99)
                ctx.count("directed_histories")
            directed_stale_cascade(ctx, R, zoo, tpl)
            directed_rowswitch_selfref(ctx, R, zoo, tpl)

        # ---- part B: random histories
        nhist = ctx.pick({"quick": 170, "thorough": 2600})
        maxops = ctx.pick({"quick": 18, "thorough": 60})
        for h in range(nhist):
            if not ctx.budget_ok():
                break
            k = (ctx.shard + 2 * rng.randrange(2)) % len(KNOBS)   # two zoo variants per shard (build cost)
            zoo, tpl = zoos.get(k)
            fams = rng.sample(R.FAMILIES, rng.randint(1, 3))
            n = rng.randint(5, maxops)

            def src(rig, fams=fams, n=n):
                # without FK enforcement an expunged object's row legitimately dangles (S5): no expunge there
                gen = R.Gen(rig, rng, fams, WEIGHTS if rig.fk else {**WEIGHTS, "exp": 0})
                for _ in range(n * 2):
                    op = gen.step()
                    if op is not None:
                        yield op

            ops, kinds = run_history(ctx, R, zoo, tpl, KNOBS[k], rng.random() < 0.5, src, n, fk=rng.random() < 0.6)
            ctx.count("random_histories")
            for f in fams:
                ctx.seen("families", f)
            if h < 2:
                ctx.sample({"knobs": KNOBS[k], "families": fams, "ops": ops, "statement_kinds": sorted(kinds)})
    finally:
        zoos.dispose()
