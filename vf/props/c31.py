"""C31 -- flush emits statements in an order that satisfies every constraint.

The real unit of work flushes generated *final-state-valid* object graphs against SQLite
with ``PRAGMA foreign_keys=ON`` (immediate enforcement: the database refuses the first
statement that references a row not yet inserted or still referenced).  SQLite is the
judge; ``ormrig_gi.FKTracker`` sits on the spied DBAPI statement stream and, before every
INSERT/UPDATE/DELETE, evaluates the statement's FK values against the rows existing at
that moment on the same connection, so a failure is reported with the offending
statement and the missing / still-referencing row.  Any exception out of a judged flush
(IntegrityError, CircularDependencyError, FlushError, StaleDataError ...) is a violation:
the property says the flush succeeds.

Workload
  A  two-phase batches: phase 1 builds and commits a graph; phase 2 applies 8..40 mixed
     inserts / deletes / re-parentings / collection edits / PK changes with *no* flush in
     between (half of the cases with autoflush off so that everything lands in one
     flush); then one flush, then commit (which checks the DEFERRED FK of Z7).
  B  random histories of the C30 generator (many small flushes).
  C  scripted probes: post_update cycle insert + unlink-and-delete, tree subtree delete
     with re-parenting, parent/child swap in the self-referential tree.

Validity by construction (see ormrig_gi guards): every op keeps the pending state
final-state-valid; in addition an independent evaluator re-checks, from the no-load
snapshot just before the judged flush, that every loaded many-to-one of a live object
points to a live in-session object (or None where nullable) and NOT NULL relationships
are set; a flush the evaluator cannot vouch for is counted and not judged.

Guards: Z7 (natural PK, passive_updates=False) uses a DEFERRED FK (the ORM documents
passive_updates=False for backends that do not enforce the FK per statement), so its
tables are judged at COMMIT only.  Contradictory input (delete + new reference to the
same object in one flush, cascade onto stale deleted members, ...) is never generated.
"""
from __future__ import annotations

META = {
    "id": "C31",
    "level": "exploration",
    "technique": "real flushes of final-state-valid graphs judged by SQLite immediate FK/NOT NULL enforcement; referential-integrity tracker on the spied statement stream names the offending statement",
    "level_text": "Seeded two-phase batch graphs (one flush with 8..40 mixed inserts/deletes/re-parentings over trees, post_update cycles, many-to-many, association objects, joined inheritance with FK between subclasses, delete-orphan), random multi-flush histories and scripted probes; every flush is executed with immediate FK enforcement and every DML statement is checked by the tracker before it runs.",
    "level_note": "SQLite only: PostgreSQL / MariaDB immediate checks are not executable here (SQLite's per-statement FK enforcement plays their role). Z7 tables carry a DEFERRED FK and are judged at COMMIT. Final-state validity is by construction plus a no-load evaluator; flushes it cannot vouch for are not judged.",
    "design_ref": "DESIGN.md section 4, C31",
    "rule": "case = one judged flush (op list, knobs); non-trivial = the flush emitted >= 3 DML statements touching >= 2 tables or >= 2 rows of a self-referential table; distinct by op list",
    "shards": {"quick": 8, "thorough": 16},
    "soft_s": {"quick": 50, "thorough": 840},
    "exhaustive": {"quick": False, "thorough": False},
    "require": ["flushes_judged", "batch_flushes", "tracker_statements_parsed", "tracker_fk_values_checked",
                "flushes_with_delete_and_insert", "post_update_statements", "probes_run"],
    "assumptions": ["SQLite enforces non-deferred foreign keys at the end of each statement when foreign_keys=ON"],
}

KNOBS = [
    dict(tree_cascade="default", m2m_set=False),
    dict(tree_cascade="all", m2m_set=True),
    dict(tree_cascade="all", m2m_set=False),
    dict(tree_cascade="default", m2m_set=True),
]

BATCH_P1 = {"new": 60, "set": 2, "m2o": 8, "app": 8, "rem": 1, "repl": 1, "clr": 0, "pop": 0, "del": 0, "cycdel": 0,
            "exp": 0, "readd": 0, "merge": 0, "rowswitch": 0, "pk": 0, "flush": 2, "commit": 0, "expire": 0,
            "expall": 0, "refresh": 0, "get": 0, "touch": 2, "tnew": 10, "add": 6}
BATCH_P2 = {"new": 25, "set": 6, "m2o": 14, "app": 10, "rem": 8, "repl": 4, "clr": 2, "pop": 2, "del": 16, "cycdel": 5,
            "exp": 0, "readd": 0, "merge": 0, "rowswitch": 2, "pk": 0, "flush": 0, "commit": 0, "expire": 0,
            "expall": 0, "refresh": 0, "get": 0, "touch": 4, "tnew": 4, "add": 3, "undel": 4}
FOCUS = [["Z2"], ["Z2c"], ["Z3", "Z4"], ["Z6"], ["Z1", "Z1b"], ["Z2", "Z2c"], ["Z1", "Z3", "Z6"], ["Z4", "Z1b"], ["Z7", "Z1"], ["Z9"], ["Z9", "Z1b"]]


def flush_errors():
    """Exception types a flush raises (with autoflush off, loading a collection that has a
    queued pending removal of an item the database does not list raises a bare ValueError
    from collections.remove_without_event(): the op is counted as refused, observation only); anything else out of an op (e.g. InvalidRequestError
    from Session.add() cascading onto a stale member) is the op being refused, not a flush."""
    import sqlalchemy as sa
    from sqlalchemy.orm import exc as orm_exc

    return (sa.exc.DBAPIError, sa.exc.CircularDependencyError, orm_exc.FlushError, orm_exc.StaleDataError,
            orm_exc.ObjectDeletedError)


def evaluator(R, rig, snap):
    """Independent final-state check from the no-load snapshot: returns None if the pending
    state is vouched for, else a reason string."""
    for e in snap.values():
        if e["kind"] not in ("pending", "persistent"):
            continue
        o = rig.objs[e["slot"]]
        if o in rig.session.deleted:
            continue
        sp = R.SPEC[e["cls"]]
        for rel, (targets, nullable) in sp["m2o"].items():
            if rel not in e["m2o"]:
                if e["kind"] == "pending" and not nullable:
                    return f"{e['cls']}.{rel} unset on a pending object"
                continue
            tid = e["m2o"][rel]
            if tid is None:
                if not nullable:
                    # delete-orphan classes: a None parent means the object will be deleted
                    continue
                continue
            te = snap[tid]
            t = rig.objs[te["slot"]]
            if te["kind"] not in ("pending", "persistent"):
                return f"{e['cls']}.{rel} -> {te['cls']} which is {te['kind']}"
            if t in rig.session.deleted and e["kind"] == "pending":
                return f"pending {e['cls']}.{rel} -> {te['cls']} marked deleted"
    return None


def classify(R, rig, tracker, exc, mark):
    """mechanism, summary for an exception raised by a judged flush."""
    import sqlalchemy as sa

    name = type(exc).__name__
    dml = rig.dml_since(mark)
    last = dml[-1].sql.split("\n")[0][:160] if dml else None
    if isinstance(exc, sa.exc.IntegrityError):
        msg = str(getattr(exc, "orig", exc))
        verb = (last or "?").split()[0].upper()
        if "NOT NULL" in msg:
            return "flush-not-null-violation", f"{msg} :: {last}"
        if "FOREIGN KEY" in msg:
            tk = [f for f in tracker.findings if f[1].strip()[:60] == (dml[-1].sql.strip()[:60] if dml else None)]
            if tk:
                return "flush-order-" + tk[-1][0], f"{tk[-1][2]} :: {last}"
            return f"flush-fk-violation-{verb.lower()}", f"{msg} :: {last}"
        return "flush-integrity-error-other", f"{msg} :: {last}"
    if isinstance(exc, sa.exc.DBAPIError) and "LoaderCallableStatus" in str(exc):
        # a DELETE whose primary-key parameter is the NO_VALUE symbol: the flush registered a
        # pending object (no row, no key) for deletion
        return "flush-deletes-pending-object-reached-by-delete-cascade", f"{str(exc).splitlines()[0][:160]} :: {last}"
    if isinstance(exc, sa.exc.CircularDependencyError):
        return "circular-dependency-on-valid-final-state", str(exc)[:300]
    return f"flush-raised-{name}", str(exc)[:300]


def judged_flush(ctx, R, rig, ops, kd, what, commit=False):
    """Flush (and optionally commit) under the tracker; report; returns True if it succeeded."""
    import sqlalchemy as sa

    snap = R.snapshot(rig)
    why = evaluator(R, rig, snap)
    if why is not None:
        ctx.count("flushes_not_vouched_for")
        ctx.seen("not_vouched_reasons", why.split(" ")[0])
        return None
    tracker = R.FKTracker(rig)
    rig.spy.fault = tracker.pre
    mark = rig.spy.mark()
    ok = True
    try:
        try:
            rig.session.flush()
            if commit:
                rig.session.commit()
                rig.sp = []
        except sa.exc.SQLAlchemyError as e:
            ok = False
            mech, summary = classify(R, rig, tracker, e, mark)
            if commit and not rig.dml_since(mark)[-1:] and "FOREIGN KEY" in str(e):
                mech = "deferred-fk-violated-at-commit"
            ctx.violation(mech, f"{what}: {summary}", {
                "ops": ops, **kd, "statements": [(x.sql, x.params) for x in rig.dml_since(mark)][-12:],
                "tracker": tracker.findings[-3:], "exception": type(e).__name__})
    finally:
        rig.spy.fault = None
    dml = rig.dml_since(mark)
    ctx.count("flushes_judged")
    ctx.count("tracker_statements_parsed", tracker.parsed)
    ctx.count("tracker_statements_unparsed", tracker.unparsed)
    ctx.count("tracker_fk_values_checked", tracker.fk_values_checked)
    ctx.count("dml_statements", len(dml))
    verbs = {x.sql.split()[0].upper() for x in dml}
    tables = set()
    for x in dml:
        w = x.sql.split()
        tables.add(w[2] if w[0].upper() in ("INSERT", "DELETE") else w[1])
        ctx.seen("statement_kinds", w[0].upper() + " " + (w[2] if w[0].upper() in ("INSERT", "DELETE") else w[1]))
    if "DELETE" in verbs and "INSERT" in verbs:
        ctx.count("flushes_with_delete_and_insert")
    ctx.count("post_update_statements", sum(1 for x in dml if x.sql.startswith("UPDATE cyc_a SET b_id=?")))
    ctx.maxi("max_statements_in_one_flush", len(dml))
    if ok and tracker.findings:
        # the tracker saw a dangling reference that the database accepted: either the
        # tracker is wrong or enforcement is off -- a harness fault, never a verdict
        raise AssertionError(f"tracker flagged {tracker.findings[:2]} but SQLite accepted the flush")
    selfref = sum(1 for x in dml if " node" in x.sql[:20])
    ctx.case({"ops": ops, **kd}, nontrivial=len(dml) >= 3 and (len(tables) >= 2 or selfref >= 2))
    return ok


def apply_ops(ctx, R, rig, it, gen, n, ops):
    """Generate and apply up to n ops (no judged flush inside)."""
    import sqlalchemy as sa

    tries = 0
    applied = 0
    while applied < n and tries < n * 3:
        tries += 1
        op = gen.step()
        if op is None:
            continue
        ops.append(op)        # recorded first: an autoflush inside may raise (handled by the caller)
        ok = it.apply(op)
        if ok:
            applied += 1
        else:
            ops.pop()
    return applied


def batch_case(ctx, R, zoo, tpl, knobs, rng, idx):
    import sqlalchemy as sa

    autoflush = bool(idx % 2)
    fams = FOCUS[idx % len(FOCUS)]
    rig = R.Rig(zoo, tpl, ctx.tmppath(".db"), expire_on_commit=bool((idx // 2) % 2), autoflush=autoflush)
    it = R.Interp(rig)
    kd = {"knobs": knobs, "autoflush": autoflush, "families": fams}
    ops = []
    try:
        g1 = R.Gen(rig, rng, fams, BATCH_P1)
        try:
            apply_ops(ctx, R, rig, it, g1, rng.randint(6, 30), ops)
        except (sa.exc.SQLAlchemyError, ValueError) as e:   # ValueError: see note on pending removals below
            if not isinstance(e, flush_errors()):
                ctx.count("ops_refused_by_session")
                return
            # phase 1 flushes are judged too (autoflush / explicit flush ops inside)
            ctx.violation("phase1-" + type(e).__name__, str(e)[:300], {"ops": ops, **kd})
            return
        r = judged_flush(ctx, R, rig, ops + [["flush"], ["commit"]], kd, "phase-1 flush+commit", commit=True)
        if not r:
            return
        ops += [["flush"], ["commit"]]
        it.txn_base = len(rig.objs)
        g2 = R.Gen(rig, rng, fams, BATCH_P2)
        g2.seq = g1.seq + 100
        mark = rig.spy.mark()
        try:
            apply_ops(ctx, R, rig, it, g2, rng.randint(8, 40), ops)
        except (sa.exc.SQLAlchemyError, ValueError) as e:   # ValueError: see note on pending removals below
            if not isinstance(e, flush_errors()):
                ctx.count("ops_refused_by_session")
                return
            # an autoflush inside phase 2 failed: it is a flush of a valid state as well
            tr = R.FKTracker(rig)
            mech, summary = classify(R, rig, tr, e, mark)
            ctx.violation(mech, f"autoflush in phase 2: {summary}", {"ops": ops, **kd, "exception": type(e).__name__})
            return
        r = judged_flush(ctx, R, rig, ops + [["flush"]], kd, "phase-2 batch flush")
        if r:
            ctx.count("batch_flushes")
            ops.append(["flush"])
            judged_flush(ctx, R, rig, ops + [["commit"]], kd, "commit after batch", commit=True)
        if idx < 3 * ctx.nshards:
            ctx.sample({"kind": "batch", **kd, "ops": ops[:60]})
    finally:
        rig.close()


def random_case(ctx, R, zoo, tpl, knobs, rng, maxops):
    import sqlalchemy as sa

    fams = rng.sample(R.FAMILIES, rng.randint(1, 3))
    rig = R.Rig(zoo, tpl, ctx.tmppath(".db"), expire_on_commit=rng.random() < 0.5)
    it = R.Interp(rig)
    gen = R.Gen(rig, rng, fams, {"flush": 0, "commit": 0, "expire": 0, "expall": 0, "refresh": 0, "pk": 2, "merge": 2, "exp": 0, "readd": 0, "tnew": 5, "add": 4, "undel": 3})
    kd = {"knobs": knobs, "families": fams}
    ops = []
    try:
        for _ in range(rng.randint(2, 5)):
            mark = rig.spy.mark()
            try:
                apply_ops(ctx, R, rig, it, gen, rng.randint(2, maxops), ops)
            except (sa.exc.SQLAlchemyError, ValueError) as e:
                if not isinstance(e, flush_errors()):
                    ctx.count("ops_refused_by_session")
                    return
                mech, summary = classify(R, rig, R.FKTracker(rig), e, mark)
                ctx.violation(mech, f"autoflush: {summary}", {"ops": ops, **kd, "exception": type(e).__name__})
                return
            commit = rng.random() < 0.4
            r = judged_flush(ctx, R, rig, ops + [["flush"]] + ([["commit"]] if commit else []), kd, "history flush", commit=commit)
            if not r:
                return
            ops.append(["flush"])
            if commit:
                ops.append(["commit"])
                it.txn_base = len(rig.objs)
    finally:
        rig.close()


PROBES = {
    # name -> (ops before the judged flush)
    "post-update-cycle-insert": [
        ["new", "CycA", 0, {"x": 1}, {"b": None}], ["new", "CycB", 1, {"y": 1}, {"a": 0}], ["m2o", 0, "b", 1],
        ["new", "CycA", 2, {"x": 2}, {"b": 1}], ["new", "CycB", 3, {"y": 2}, {"a": 2}], ["m2o", 2, "b", 3],
    ],
    "post-update-unlink-and-delete": [
        ["new", "CycA", 0, {"x": 1}, {"b": None}], ["new", "CycB", 1, {"y": 1}, {"a": 0}], ["m2o", 0, "b", 1],
        ["commit"], ["cycdel", 1], ["cycdel", 0],
    ],
    "tree-delete-subtree-and-reparent": [
        ["new", "Node", 0, {"label": "r"}, {"parent": None}], ["new", "Node", 1, {"label": "a"}, {"parent": 0}],
        ["new", "Node", 2, {"label": "b"}, {"parent": 1}], ["new", "Node", 3, {"label": "c"}, {"parent": 1}],
        ["new", "Node", 4, {"label": "d"}, {"parent": 0}], ["commit"],
        ["m2o", 3, "parent", 4], ["del", 1], ["new", "Node", 5, {"label": "e"}, {"parent": 3}], ["new", "Node", 6, {"label": "f"}, {"parent": 5}],
    ],
    # a row joins the flush only through an orphan cascade (removed from a one-directional
    # delete-orphan collection) while an unrelated row of the same mapper is merely dirty on a
    # scalar; the joining row has children in the database (3-level graph Draft -> Note -> Mark)
    "orphan-joins-flush-beside-scalar-dirty-sibling": [
        ["new", "Draft", 0, {"title": "d"}, {}], ["new", "Note", 1, {"text": "n1"}, {}], ["app", 0, "notes", 1],
        ["new", "Note", 2, {"text": "n2"}, {}], ["new", "Mark", 3, {"score": 1}, {}], ["app", 1, "marks", 3],
        ["new", "Mark", 4, {"score": 2}, {}], ["app", 1, "marks", 4], ["commit"], ["expall"],
        ["touch", 0, "notes"], ["set", 2, "text", "changed"], ["rem", 0, "notes", 1],
    ],
    "orphan-joins-flush-folder-variant": [
        ["new", "Folder", 0, {"name": "f"}, {}], ["new", "Note", 1, {"text": "n1"}, {}], ["new", "Note", 2, {"text": "n2"}, {}],
        ["repl", 0, "notes", [1, 2]], ["new", "Note", 3, {"text": "n3"}, {}], ["new", "Mark", 4, {"score": 1}, {}], ["app", 2, "marks", 4],
        ["commit"], ["expall"], ["touch", 0, "notes"], ["set", 3, "text", "x"], ["set", 1, "text", "y"], ["rem", 0, "notes", 2],
    ],
    # a persistent delete-orphan child is orphaned while a *pending* grandchild hangs on it
    "orphan-with-pending-grandchild": [
        ["new", "Draft", 0, {"title": "d"}, {}], ["new", "Note", 1, {"text": "n"}, {}], ["app", 0, "notes", 1], ["commit"],
        ["touch", 0, "notes"], ["touch", 1, "marks"], ["new", "Mark", 2, {"score": 1}, {}], ["app", 1, "marks", 2], ["rem", 0, "notes", 1],
    ],
    "joined-inheritance-delete-manager-reassign": [
        ["new", "Manager", 0, {"name": "m0", "budget": 1}, {}], ["new", "Manager", 1, {"name": "m1", "budget": 2}, {}],
        ["new", "Engineer", 2, {"name": "e0", "lang": "c"}, {"manager": 0}], ["new", "Engineer", 3, {"name": "e1", "lang": "d"}, {"manager": 0}],
        ["commit"], ["m2o", 2, "manager", 1], ["del", 0], ["new", "Engineer", 4, {"name": "e2", "lang": "e"}, {"manager": 1}],
    ],
}


def probe_swap(ctx, R, zoo, tpl, knobs):
    """Parent/child swap in the self-referential tree: before a -> b (b child of a), after
    b -> a.  Only UPDATEs are needed and any order satisfies the FK; the final state has
    no cycle."""
    import sqlalchemy as sa

    rig = R.Rig(zoo, tpl, ctx.tmppath(".db"))
    try:
        s = rig.session
        Node = zoo.cls["Node"]
        a = Node(label="a")
        b = Node(label="b", parent=a)
        s.add_all([a, b])
        s.commit()
        assert b.parent is a and a.parent is None   # old values loaded, as an application that looks before it re-parents
        b.parent = None
        a.parent = b
        ops = [["new", "Node", 0, {"label": "a"}, {"parent": None}], ["new", "Node", 1, {"label": "b"}, {"parent": 0}],
               ["commit"], ["touch", 1, "parent"], ["touch", 0, "parent"], ["m2o", 1, "parent", None], ["m2o", 0, "parent", 1], ["flush"]]
        ctx.count("probes_run")
        ctx.count("flushes_judged")
        try:
            s.flush()
            s.commit()
            ctx.case({"probe": "swap"}, nontrivial=True)
        except sa.exc.CircularDependencyError as e:
            ctx.violation("self-ref-parent-child-swap-circular-dependency",
                          "re-parenting a persistent child above its former parent in one flush raises CircularDependencyError although the final tree is acyclic and two UPDATEs in any order satisfy the FK: " + str(e)[:200],
                          {"ops": ops, "knobs": knobs})
        except sa.exc.SQLAlchemyError as e:
            ctx.violation("flush-raised-" + type(e).__name__, "swap probe: " + str(e)[:200], {"ops": ops, "knobs": knobs})
    finally:
        rig.close()


def run_probe(ctx, R, zoo, tpl, knobs, name, pre):
    import sqlalchemy as sa

    rig = R.Rig(zoo, tpl, ctx.tmppath(".db"))
    it = R.Interp(rig)
    kd = {"knobs": knobs, "probe": name}
    try:
        ops = []
        for op in pre:
            if op[0] == "commit":
                if not judged_flush(ctx, R, rig, ops + [op], kd, f"probe {name} setup", commit=True):
                    return
                it.txn_base = len(rig.objs)
                ops.append(op)
                continue
            mark = rig.spy.mark()
            try:
                applied = it.apply(op)
            except sa.exc.SQLAlchemyError as e:
                # an autoflush inside the op (e.g. the query of 'cycdel') failed
                mech, summary = classify(R, rig, R.FKTracker(rig), e, mark)
                ctx.count("probes_run")
                ctx.violation(mech, f"probe {name}, autoflush in {op[0]}: {summary}", {"ops": ops + [op], **kd, "exception": type(e).__name__})
                return
            if not applied:
                raise AssertionError(f"probe {name}: op {op} was skipped by its guard")
            ops.append(op)
        ctx.count("probes_run")
        if judged_flush(ctx, R, rig, ops + [["flush"]], kd, f"probe {name}"):
            judged_flush(ctx, R, rig, ops + [["flush"], ["commit"]], kd, f"probe {name} commit", commit=True)
    finally:
        rig.close()


def run(ctx):
    import warnings

    warnings.simplefilter("ignore")
    from vf.gen import ormrig_gi as R

    rng = ctx.rng
    cache = {}

    def zoo_for(k):
        if k not in cache:
            z = R.Zoo(**KNOBS[k])
            cache[k] = (z, z.template(ctx.tmppath(".tpl.db")))
        return cache[k]

    try:
        k0 = ctx.shard % len(KNOBS)
        zoo, tpl = zoo_for(k0)
        for name, pre in sorted(PROBES.items()):
            run_probe(ctx, R, zoo, tpl, KNOBS[k0], name, pre)
        if ctx.shard == 0:
            probe_swap(ctx, R, zoo, tpl, KNOBS[k0])
        nb = ctx.pick({"quick": 90, "thorough": 1500})
        nr = ctx.pick({"quick": 60, "thorough": 1000})
        for i in range(max(nb, nr)):
            if not ctx.budget_ok():
                break
            k = (ctx.shard + i % 2) % len(KNOBS)
            zoo, tpl = zoo_for(k)
            if i < nb:
                batch_case(ctx, R, zoo, tpl, KNOBS[k], rng, i * ctx.nshards + ctx.shard)
            if i < nr:
                random_case(ctx, R, zoo, tpl, KNOBS[k], rng, ctx.pick({"quick": 8, "thorough": 16}))
    finally:
        for z, _ in cache.values():
            z.dispose()
