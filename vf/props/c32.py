"""C32 -- a failed flush leaves the database untouched and the session recoverable.

Crash-point enumeration.  For every generated history (prefix ops + commit, then a tail
of pending inserts / updates / deletes / re-parentings, optionally inside a SAVEPOINT)

  1. a dry run counts N = DML statements of the final flush and M = flush-related hook
     invocations (before_flush, after_flush, after_flush_postexec, mapper before/after
     insert/update/delete), then commits: D_ok = the fault-free database;
  2. for every statement index i < N the history is replayed on a fresh database and a
     fresh Session and the DBAPI spy raises at the i-th ``cursor.execute`` of the flush
     (``sqlite3.IntegrityError`` before the statement, ``sqlite3.OperationalError``
     *after* the statement has executed, a non-DBAPI ``RuntimeError`` before it; quick
     rotates the three kinds over the points, thorough uses all three at every point);
     for every hook index j < M a ``RuntimeError`` is raised from that hook invocation.

Oracle after each injected failure (all observed from outside the code under test):
  * the observer connection sees exactly the pre-transaction dump D0 (nothing committed);
    on alternate points ``Session.commit()`` is attempted *before* rollback: whatever it
    does, the committed rows must be D0 or the complete D_ok, never a part of the work;
  * ``Session.rollback()`` does not raise;
  * objects added in the transaction are transient and outside the session; objects that
    were persistent when the transaction began (including those deleted by the tail) are
    persistent; every attribute then read from them (ordinary attribute access) equals
    the committed row -- judged with the C30 relation against the observer connection;
  * half of the histories flush one or two primary-key switches successfully *before* the
    failing flush: after rollback the object has its old key, ``Session.get(newkey)`` finds
    nothing and every identity-map entry holds an object under that object's own key;
  * every third statement point is run once more with a session event listener
    (after_rollback / after_soft_rollback / after_transaction_end) that raises once while the
    failed flush is being handled, another third inside ``with session.begin():``; per history
    a lifecycle listener (pending_to_persistent, persistent_to_deleted) raises at its first
    call in the flush.  The same oracle applies.  No lifecycle listener is registered
    otherwise: states are judged by predicates only (was_deleted must be False on what
    the rollback made transient); half of the tails also contain successful flushes
    (add + flush, delete + flush) before the failing one;
  * for faults inside a SAVEPOINT, alternate points recover the documented way instead:
    the savepoint is rolled back (must not raise), the in-transaction rows must equal the
    rows at savepoint creation, objects created inside it are transient, the enclosing
    transaction is committed and the committed rows must equal that same dump;
  * re-applying the same tail ops to the same session and committing succeeds and the
    committed dump equals D_ok (compared in the canonical form of ``ormrig_gi.canon_dump``:
    surrogate integer keys abstracted, FK values replaced by the referenced row's content,
    because the order in which same-class pending objects receive autoincrement ids is
    not deterministic across runs after an expunge -- ``insert_order`` ties).

The fault-free twin is itself a replay of the recorded ops on a fresh rig; a history whose
replay does not reproduce the generating run is not used.  Before the rerun everything is
expired again (step 4 loaded it; a rollback leaves everything expired and the op guards
look at what is loaded); a rerun in which a guard refuses an op is counted, not judged.
Row switches (delete + add of the same primary key) are kept out of the tails: whether
the dependents of the replaced row are nulled was seen to differ between identical runs.

Guards: a replay that diverges from the dry run (an op skipped by its guard, the fault
point not reached) is counted and not judged.  The tail runs with autoflush off so that
all its DML belongs to the one flush whose statements are enumerated.  Exception *types*
and messages are not judged.  Tail ops exclude expunge / expire / refresh / merge /
PK change (they flush or drop state by themselves).
"""
from __future__ import annotations

META = {
    "id": "C32",
    "level": "fault_enumeration",
    "technique": "count-then-enumerate fault injection at every DBAPI statement and every flush hook of generated flushes; observer-connection dump, object-state and rerun oracles",
    "level_text": "For each generated history every statement position of its final flush and every flush-hook invocation is a crash point; one replay per point on a fresh database raises IntegrityError / OperationalError (after execution) / RuntimeError there and the five-part oracle is evaluated (committed rows untouched, rollback works, added objects transient, deleted objects persistent again, attributes reload committed values, rerun reaches the fault-free state).",
    "level_note": "Per history the enumeration of crash points is complete, the set of histories is sampled. SQLite only. Faults are injected at the DBAPI boundary (cursor.execute) and through the public event API; failures inside the driver's commit are C23/C26 business. Replays that diverge from the dry run are not judged.",
    "design_ref": "DESIGN.md section 4, C32",
    "rule": "case = (history, crash point, fault kind); non-trivial = at least one statement of the flush had executed before the fault or the fault came from a hook after the first statement; distinct by (ops, point, kind)",
    "shards": {"quick": 16, "thorough": 16},
    "soft_s": {"quick": 50, "thorough": 840},
    "exhaustive": {"quick": False, "thorough": False},
    "require": ["histories", "faults_injected", "faults_at_statements", "faults_at_hooks", "faults_inside_savepoint",
                "observer_dumps_compared", "rollbacks_checked", "added_objects_checked_transient",
                "deleted_objects_checked_persistent_again", "column_values_compared", "reruns_compared",
                "commit_before_rollback_attempts", "savepoint_recoveries", "pk_switches_checked_after_rollback",
                "identity_map_entries_audited", "listener_failures_during_failure_handling", "faults_inside_with_begin",
                "faults_at_lifecycle_listeners"],
    "assumptions": ["the observer connection (separate sqlite3 connection) sees exactly the committed state"],
}

KNOBS = [
    dict(tree_cascade="default", m2m_set=False),
    dict(tree_cascade="all", m2m_set=True),
    dict(tree_cascade="all", m2m_set=False),
    dict(tree_cascade="default", m2m_set=True),
]
PREFIX_W = {"new": 45, "flush": 4, "commit": 2, "del": 3, "exp": 0, "readd": 0, "rowswitch": 0, "cycdel": 1, "tnew": 6, "add": 4}
TAIL_W = {"new": 22, "set": 14, "m2o": 12, "app": 8, "rem": 8, "repl": 3, "clr": 2, "pop": 2, "del": 16, "cycdel": 0,
          "exp": 0, "readd": 0, "merge": 0, "rowswitch": 0, "pk": 0, "flush": 0, "commit": 0, "rollback": 0,
          "nest": 0, "spc": 0, "spr": 0, "close": 0, "expire": 0, "expall": 0, "refresh": 0, "get": 0, "touch": 3,
          "tnew": 0, "add": 0, "undel": 3}
KINDS = ("integrity", "operational-after", "runtime")
DROPPED = "collection-member-dropped-from-session-not-inserted"   # judged by C30 only


class Diverged(Exception):
    pass


def make_exc(kind):
    import sqlite3

    if kind == "integrity":
        return sqlite3.IntegrityError("injected: constraint failed")
    if kind == "operational-after":
        return sqlite3.OperationalError("injected: disk I/O error")
    return RuntimeError("injected: non-DBAPI error")


def generate(ctx, R, zoo, tpl, rng, fams, nested):
    """Dry run.  Returns (prefix, tail, N, M, D_ok) or None when the history is unusable."""
    import sqlalchemy as sa

    rig = R.Rig(zoo, tpl, ctx.tmppath(".db"), expire_on_commit=True)
    it = R.Interp(rig)
    try:
        prefix, tail = [], []
        try:
            g1 = R.Gen(rig, rng, fams, PREFIX_W)
            for _ in range(rng.randint(8, 22)):
                op = g1.step()
                if op is not None and it.apply(op):
                    prefix.append(op)
            it.apply(["commit"])
            prefix.append(["commit"])
            rig.session.autoflush = False
            g2 = R.Gen(rig, rng, fams, TAIL_W)
            g2.use_pool = False   # an object that enters the session in the failed attempt keeps what
            #                       that attempt did to it in memory; such tails cannot be re-run as they are
            g2.seq = g1.seq + 100
            # primary-key switches that are flushed successfully *before* the flush that
            # will fail (op 'pk' flushes at once); they head the tail and are redone by the rerun
            if rng.random() < 0.5:
                for _ in range(rng.randint(1, 2)):
                    op = g2.g_pk()
                    if op is not None and it.apply(op):
                        tail.append(op)
            # ... and so may ordinary work: add + flush, delete + flush, all undone by the rollback
            if rng.random() < 0.5:
                g2.w.update({"flush": 22, "del": 24, "new": 30})
                for _ in range(rng.randint(3, 8)):
                    op = g2.step()
                    if op is not None and it.apply(op):
                        tail.append(op)
                g2.w.update(TAIL_W)
            n2 = len(tail) + rng.randint(4, 14)
            cut = rng.randint(len(tail), n2 - 1) if nested else None
            for j in range(n2 * 2):
                if len(tail) >= n2:
                    break
                if nested and cut is not None and len(tail) == cut:
                    it.apply(["nest"])
                    tail.append(["nest"])
                    cut = None
                    continue
                op = g2.step()
                if op is not None and it.apply(op):
                    tail.append(op)
            mark = rig.spy.mark()
            h0 = rig.hooks_fired
            rig.session.flush()
            N = len(rig.dml_since(mark))
            M = rig.hooks_fired - h0
            rig.session.commit()
        except sa.exc.SQLAlchemyError:
            ctx.count("histories_unusable")
            return None
        if N == 0:
            ctx.count("histories_without_dml")
            return None
        d_gen = R.canon_dump(zoo, rig.dump(rig.read_committed))
    finally:
        rig.close()
    # the fault-free twin is a *replay* of the recorded ops on a fresh rig (the generating
    # run also executed guard-refused ops whose loads are not recorded); a history whose
    # replay does not reproduce the generating run is not used
    rig = R.Rig(zoo, tpl, ctx.tmppath(".db"), expire_on_commit=True)
    it = R.Interp(rig)
    try:
        try:
            replay(it, prefix)
            rig.session.autoflush = False
            replay(it, tail)
            mark = rig.spy.mark()
            h0 = rig.hooks_fired
            rig.session.flush()
            N = len(rig.dml_since(mark))
            M = rig.hooks_fired - h0
            rig.session.commit()
        except (Diverged, sa.exc.SQLAlchemyError):
            ctx.count("histories_not_reproducible")
            return None
        d_twin = R.canon_dump(zoo, rig.dump(rig.read_committed))
        if d_twin != d_gen or N == 0:
            ctx.count("histories_not_reproducible")
            return None
        return prefix, tail, N, M, d_twin
    finally:
        rig.close()


def replay(it, ops, on_nest=None):
    for op in ops:
        if not it.apply(op):
            raise Diverged(op)
        if op[0] == "nest" and on_nest is not None:
            on_nest()


def touch_all(R, rig):
    """Read every attribute of every persistent object the ordinary way."""
    import sqlalchemy as sa

    n = 0
    for o in list(rig.objs):
        st = sa.inspect(o)
        if not (st.persistent and st.session is rig.session):
            continue
        mi = rig.zoo.info(st.mapper)
        for key, _ in mi.col_attrs:
            getattr(o, key)
            n += 1
        for key, _ in mi.composites:
            getattr(o, key)
        for key, _ in mi.m2o:
            getattr(o, key)
        for key, _, _ in mi.colls:
            list(getattr(o, key))
    return n


LISTENERS = ("after_rollback", "after_soft_rollback", "after_transaction_end")
LIFECYCLE = ("pending_to_persistent", "persistent_to_deleted")


def run_point(ctx, R, zoo, tpl, kd, prefix, tail, D_ok, point, kind, commit_first, listener=None, ctxm=False):
    """One crash point.  point = ('stmt', i) | ('hook', j) | ('life', lifecycle event name).
    ``listener``: a session event listener that raises once while the failure is being handled;
    ``ctxm``: the tail and its flush run inside ``with session.begin():``."""
    import sqlalchemy as sa
    from sqlalchemy import event

    rig = R.Rig(zoo, tpl, ctx.tmppath(".db"), expire_on_commit=True)
    it = R.Interp(rig)
    desc = {"prefix": prefix, "tail": tail, "point": list(point), "kind": kind, "commit_first": commit_first,
            "listener": listener, "with_begin": ctxm, **kd}
    in_sp = ["nest"] in tail

    def vio(mech, summary, extra=None):
        ctx.violation(mech, f"fault {kind} at {point[0]} #{point[1]}{' inside SAVEPOINT' if in_sp else ''}: {summary}", {**desc, **(extra or {})})

    try:
        try:
            replay(it, prefix)
        except (Diverged, sa.exc.SQLAlchemyError):
            ctx.count("replays_diverged")
            return
        D0 = rig.dump(rig.read_committed)
        base = len(rig.objs)
        pre_kind = {}
        for o in rig.objs:
            st = sa.inspect(o)
            pre_kind[id(o)] = R.state_kind(st, rig.session)
        rig.session.autoflush = False
        sp_frame = {}
        pre_key = {id(o): sa.inspect(o).key for o in rig.objs}

        def on_nest():
            sp_frame["dump"] = rig.dump(rig.read_txn)
            sp_frame["nobjs"] = len(rig.objs)

        state = {"n": 0, "hit": False, "executed_before": 0, "armed": False, "listener_fired": False}
        info = {}

        def second_failure(*a):
            # a user listener that raises while the failed flush / rollback runs it (once)
            if state["armed"] and state["hit"] and not state["listener_fired"]:
                state["listener_fired"] = True
                raise RuntimeError("injected: listener failed")

        def lifecycle_failure(*a):
            if state["armed"] and not state["hit"]:
                state["hit"] = True
                state["executed_before"] = len(rig.dml_since(info["mark"]))
                raise RuntimeError("injected: lifecycle listener failed")

        if listener:
            event.listen(rig.session, listener, second_failure)
        if point[0] == "life":
            event.listen(rig.session, point[1], lifecycle_failure)

        def at_stmt(ev):
            if ev.kind in ("execute", "executemany") and R.is_dml(ev.sql):
                i = state["n"]
                state["n"] += 1
                if i == point[1] and not state["hit"]:
                    state["hit"] = True
                    state["executed_before"] = i + (1 if kind == "operational-after" else 0)
                    return make_exc(kind)
            return None

        def at_hook(name):
            j = state["n"]
            state["n"] += 1
            if j == point[1] and not state["hit"]:
                state["hit"] = True
                state["hook"] = name
                state["executed_before"] = len(rig.dml_since(info["mark"]))
                raise make_exc("runtime")

        def attempt():
            replay(it, tail, on_nest)
            info["tail_deleted"] = [o for o in rig.objs[:base] if o in rig.session.deleted]
            info["switched"] = [(o, pre_key[id(o)], sa.inspect(o).key) for o in rig.objs[:base]
                                if pre_key.get(id(o)) is not None and sa.inspect(o).key is not None and sa.inspect(o).key != pre_key[id(o)]]
            # S5: objects that left the session during the tail by the history's own doing (expunge
            # cascade from a pending owner that was released from a delete-orphan collection, ...)
            # make no claim: a rollback cannot bring back what is not in the session any more
            info["left"] = {id(o) for o in rig.objs[:base] if sa.inspect(o).session is not rig.session}
            info["mark"] = rig.spy.mark()
            if point[0] == "stmt":
                if kind == "operational-after":
                    rig.spy.after = at_stmt
                else:
                    rig.spy.fault = at_stmt
            elif point[0] == "hook":
                rig.hook_cb = at_hook
            state["armed"] = True
            try:
                rig.session.flush()
            finally:
                rig.spy.fault = rig.spy.after = None
                rig.hook_cb = None

        raised = None
        try:
            if ctxm:
                with rig.session.begin():
                    attempt()
            else:
                attempt()
        except Diverged:
            ctx.count("replays_diverged")
            return
        except Exception as e:   # the injected failure (possibly wrapped, or the listener's)
            if not state["armed"]:
                ctx.count("replays_diverged")
                return
            raised = e
        mark = info.get("mark", rig.spy.mark())
        tail_deleted = info.get("tail_deleted", [])
        switched = info.get("switched", [])
        if switched:
            ctx.count("points_with_flushed_pk_switch")
        if listener and state["listener_fired"]:
            ctx.count("listener_failures_during_failure_handling")
            ctx.seen("listeners_failed", listener)
        if ctxm:
            ctx.count("faults_inside_with_begin")
        if not state["hit"] or raised is None:
            ctx.count("fault_points_not_reached" if not state["hit"] else "fault_swallowed")
            if state["hit"] and raised is None:
                vio("flush-swallowed-injected-error", "flush returned normally although a statement/hook raised")
            return
        ctx.count("faults_injected")
        ctx.count({"stmt": "faults_at_statements", "hook": "faults_at_hooks", "life": "faults_at_lifecycle_listeners"}[point[0]])
        if in_sp:
            ctx.count("faults_inside_savepoint")
        ctx.seen("raised_types", type(raised).__name__)
        if point[0] == "hook":
            ctx.seen("hooks_faulted", state["hook"])
        # ---- (1) nothing committed
        ctx.count("observer_dumps_compared")
        d = rig.dump(rig.read_committed)
        if d != D0:
            vio("failed-flush-changed-committed-rows", diff(D0, d))
            return
        # ---- (S) inside a SAVEPOINT, alternate points recover the documented way: roll the
        # savepoint back and go on with the enclosing transaction, then commit it
        if in_sp and not commit_first and sp_frame and not listener:
            ctx.count("savepoint_recoveries")
            try:
                rig.sp.pop().rollback()
            except Exception as e:
                vio("savepoint-rollback-after-failed-flush-raised", f"{type(e).__name__}: {str(e)[:200]}")
                return
            d = rig.dump(rig.read_txn)
            if d != sp_frame["dump"]:
                vio("failed-flush-rows-survive-savepoint-rollback", diff(sp_frame["dump"], d))
                return
            for slot, o in enumerate(list(rig.objs)):
                if slot >= sp_frame["nobjs"]:
                    ctx.count("added_objects_checked_transient")
                    k = R.state_kind(sa.inspect(o), rig.session)
                    if k != "transient":
                        vio("added-object-not-transient-after-savepoint-rollback", f"{type(o).__name__} slot {slot} is {k}", {"slot": slot})
            try:
                rig.session.commit()
            except Exception as e:
                vio("commit-after-savepoint-recovery-raised", f"{type(e).__name__}: {str(e)[:200]}")
                return
            d = rig.dump(rig.read_committed)
            if d != sp_frame["dump"]:
                vio("partial-work-committed-after-savepoint-recovery", diff(sp_frame["dump"], d))
                return
            # S8: what unmodified objects loaded while the savepoint was open (the tail may flush
            # inside it) is stale by design after its rollback: start from the expired state
            rig.session.expire_all()
            try:
                touch_all(R, rig)
            except sa.exc.SQLAlchemyError as e:
                vio("attribute-access-after-savepoint-recovery-raised", f"{type(e).__name__}: {str(e)[:200]}")
                return
            cnt = {}
            for f in [x for x in R.relation(rig, R.snapshot(rig), rig.read_committed, cnt) if x.mechanism != DROPPED]:
                vio("after-savepoint-recovery-" + f.mechanism, f.summary, {"detail": f.detail})
            for k2, v in cnt.items():
                ctx.count(k2, v)
            ctx.case({"ops": prefix + tail, "point": list(point), "kind": kind, "recover": "savepoint"},
                     nontrivial=state["executed_before"] >= 1)
            return
        # ---- (1b) commit attempted before rollback must not commit a part of the work
        if commit_first:
            ctx.count("commit_before_rollback_attempts")
            try:
                rig.session.commit()
                ctx.count("commit_before_rollback_succeeded")
            except sa.exc.PendingRollbackError:
                ctx.count("pending_rollback_errors")
            except Exception as e:
                ctx.seen("commit_before_rollback_raised", type(e).__name__)
            d = rig.dump(rig.read_committed)
            if d != D0 and R.canon_dump(zoo, d) != D_ok:
                vio("partial-work-committed-after-failed-flush", diff(D0, d))
                return
            if d != D0:
                ctx.count("commit_before_rollback_completed_work")
                return   # legitimately finished (the failing hook ran before any flush work)
        # ---- (2) rollback
        try:
            rig.session.rollback()
            rig.sp = []
        except Exception as e:
            vio("rollback-after-failed-flush-raised", f"{type(e).__name__}: {str(e)[:200]}")
            return
        ctx.count("rollbacks_checked")
        d = rig.dump(rig.read_committed)
        if d != D0:
            vio("rollback-after-failed-flush-changed-committed-rows", diff(D0, d))
            return
        # ---- (3) object states
        for slot, o in enumerate(list(rig.objs)):
            st = sa.inspect(o)
            k = R.state_kind(st, rig.session)
            if slot >= base:
                ctx.count("added_objects_checked_transient")
                if k != "transient" or o in rig.session:
                    vio("added-object-not-transient-after-rollback", f"{type(o).__name__} slot {slot} added in the failed transaction is {k} after rollback", {"slot": slot})
                elif st._deleted:
                    # state predicates only (no lifecycle listener is registered on this session)
                    vio("transient-object-keeps-deleted-flag-after-rollback", f"{type(o).__name__} slot {slot} was INSERTed and DELETEd in the rolled-back transaction; it is transient but inspect().was_deleted is still True", {"slot": slot})
                elif any(s2 is st for s2 in rig.session.identity_map.all_states()):
                    # (an empty __dict__ alone proves nothing: an object INSERTed before a SAVEPOINT and
                    # modified inside it is expired by the savepoint rollback, then made transient)
                    vio("failed-lifecycle-listener-wipes-transient-object", f"{type(o).__name__} slot {slot} is transient after rollback but the identity map still holds its state (its attributes get expired through that stale entry)", {"slot": slot})
                    return   # everything below only repeats it
            elif pre_kind.get(id(o)) == "persistent" and id(o) not in info.get("left", ()):
                if any(o is x for x in tail_deleted):
                    ctx.count("deleted_objects_checked_persistent_again")
                if k != "persistent":
                    vio("deleted-object-not-persistent-after-rollback" if any(o is x for x in tail_deleted) else "persistent-object-lost-after-rollback",
                        f"{type(o).__name__} slot {slot} was persistent when the transaction began, is {k} after rollback", {"slot": slot})
        # ---- (3b) primary keys switched (and flushed) earlier in the rolled-back transaction:
        # the object has its old key again, nothing answers to the new key any more, and the
        # identity map holds every object under its own key only
        for o, oldkey, newkey in switched:
            ctx.count("pk_switches_checked_after_rollback")
            if sa.inspect(o).key != oldkey:
                vio("pk-switch-not-undone-by-rollback", f"{type(o).__name__} has key {sa.inspect(o).key[1]} after rollback, had {oldkey[1]} when the transaction began")
                continue
            got = rig.session.get(newkey[0], newkey[1])
            if got is not None:
                vio("get-answers-for-rolled-back-key", f"Session.get({newkey[0].__name__}, {newkey[1]}) returns {'the switched object itself' if got is o else 'an object'} after rollback; that row does not exist")
        try:
            entries = list(rig.session.identity_map.items())
        except AssertionError:
            vio("identity-map-holds-state-without-key", "identity_map.items() asserts: an entry belongs to a state whose key is None")
            return
        for key, obj in entries:
            ctx.count("identity_map_entries_audited")
            if sa.inspect(obj).key != key:
                vio("identity-map-entry-under-foreign-key", f"identity_map[{key[1]}] is a {type(obj).__name__} whose own key is {sa.inspect(obj).key[1]}")
        # ---- (4) attributes reload the committed values
        try:
            touch_all(R, rig)
        except sa.exc.SQLAlchemyError as e:
            vio("attribute-access-after-rollback-raised", f"{type(e).__name__}: {str(e)[:200]}")
            return
        cnt = {}
        for f in [x for x in R.relation(rig, R.snapshot(rig), rig.read_committed, cnt) if x.mechanism != DROPPED]:
            vio("after-rollback-" + f.mechanism, f.summary, {"detail": f.detail})
        for k2, v in cnt.items():
            ctx.count(k2, v)
        # ---- (5) rerun.  Step (4) loaded everything; the guards of the ops look at what is
        # loaded, so go back to the all-expired state a rollback leaves behind.
        rig.session.expire_all()
        it2 = R.Interp(rig)
        it2.txn_base = base
        try:
            replay(it2, tail)
            rig.session.flush()
            rig.session.commit()
        except Diverged as e:
            ctx.count("reruns_diverged")   # a guard refused an op: not judged
            return
        except Exception as e:
            vio("rerun-after-rollback-raised", f"{type(e).__name__}: {str(e)[:200]}")
            return
        ctx.count("reruns_compared")
        d = R.canon_dump(zoo, rig.dump(rig.read_committed))
        if d != D_ok:
            vio("rerun-state-differs-from-fault-free-run", diff(D_ok, d))
        ctx.case({"ops": prefix + tail, "point": list(point), "kind": kind},
                 nontrivial=state["executed_before"] >= 1)
    finally:
        rig.close()


def diff(a, b):
    out = []
    for t in sorted(set(a) | set(b)):
        ra, rb = a.get(t, []), b.get(t, [])
        if ra != rb:
            out.append(f"{t}: expected {ra[:6]} got {rb[:6]}")
    return "; ".join(out)[:600]


def run(ctx):
    import warnings

    warnings.simplefilter("ignore")
    from vf.gen import ormrig_gi as R

    rng = ctx.rng
    cache = {}

    def zoo_for(k):
        if k not in cache:
            z = R.Zoo(**KNOBS[k])
            cache[k] = (z, z.template(ctx.tmppath(".tpl.db")))
        return cache[k]

    nh = ctx.pick({"quick": 14, "thorough": 220})
    try:
        h = 0
        attempts = 0
        while h < nh and attempts < nh * 4 and ctx.budget_ok():
            attempts += 1
            k = (ctx.shard + attempts % 2) % len(KNOBS)
            zoo, tpl = zoo_for(k)
            fams = rng.sample(R.FAMILIES, rng.randint(1, 3))
            nested = attempts % 3 == 1   # the first history of every shard runs inside a SAVEPOINT
            g = generate(ctx, R, zoo, tpl, rng, fams, nested)
            if g is None:
                continue
            prefix, tail, N, M, D_ok = g
            h += 1
            ctx.count("histories")
            ctx.count("crash_points_statements", N)
            ctx.count("crash_points_hooks", M)
            ctx.maxi("max_statements_in_flush", N)
            kd = {"knobs": KNOBS[k], "families": fams}
            if h <= 2:
                ctx.sample({"prefix": prefix, "tail": tail, "N": N, "M": M, **kd})
            pn = 0
            for i in range(N):
                kinds = KINDS if ctx.thorough else (KINDS[(i + h) % 3],)
                for kind in kinds:
                    if not ctx.budget_ok():
                        break
                    pn += 1
                    run_point(ctx, R, zoo, tpl, kd, prefix, tail, D_ok, ("stmt", i), kind, commit_first=bool(pn % 2))
                    if (i + h) % 3 == 0:   # ... and a user listener fails while that failure is handled
                        run_point(ctx, R, zoo, tpl, kd, prefix, tail, D_ok, ("stmt", i), kind, commit_first=bool(pn % 2),
                                  listener=LISTENERS[(i + pn) % len(LISTENERS)])
                    elif (i + h) % 3 == 1 and ["nest"] not in tail:
                        run_point(ctx, R, zoo, tpl, kd, prefix, tail, D_ok, ("stmt", i), kind, commit_first=bool(pn % 2), ctxm=True,
                                  listener=LISTENERS[0] if pn % 2 else None)
            for name in LIFECYCLE:
                if ctx.budget_ok():
                    pn += 1
                    run_point(ctx, R, zoo, tpl, kd, prefix, tail, D_ok, ("life", name), "runtime", commit_first=bool(pn % 2))
            for j in range(M):
                if not ctx.budget_ok():
                    break
                pn += 1
                run_point(ctx, R, zoo, tpl, kd, prefix, tail, D_ok, ("hook", j), "runtime", commit_first=bool(pn % 2))
    finally:
        for z, _ in cache.values():
            z.dispose()
