"""C33 -- Session commit / rollback / savepoint keep the session consistent with the database.

Generated histories mix ``begin_nested`` (depth <= 3), savepoint commit / rollback, outer
commit / rollback / close with adds, modifications, deletes, primary-key switches, row
switches, collection edits and flushes, with ``expire_on_commit`` on and off and about a
third of the sessions created with ``autoflush=False`` (begin_nested() must flush pending
work into the enclosing transaction regardless of that flag).  A
*nested-transaction stack model lifted to rows* is the reference:

  frame 0            = dump of the committed rows + state kind of every tracked object
  begin_nested       -> push (dump of the in-transaction rows right after the savepoint
                        was created, state kinds, number of tracked objects)
  savepoint rollback -> pop; the in-transaction rows must equal the popped dump
  savepoint commit   -> pop; rows unchanged by the release itself
  rollback           -> all frames popped; in-transaction and committed rows = frame 0
  commit             -> committed rows afterwards = in-transaction rows observed at the
                        moment the DBAPI ``commit()`` was called (spy callback); frame 0 :=
  close              -> committed rows = frame 0 (implicit rollback)

Rows are read through the raw DBAPI connection / the observer connection, never through
the Session.  After every boundary the object side is judged without triggering loads:
  * every persistent object has its row in the surviving scope and its loaded attributes
    equal that row (C30 relation; catches a missing expire / key restore);
  * objects created after the frame that was rolled back are transient and outside the
    session; objects that were persistent when the frame was taken (including those
    deleted since) are persistent again (or detached if the history expunged them);
  * after ``close()`` no tracked object whose row exists is still attached to the session
    (an object whose DELETE was *committed* under expire_on_commit=False stays in the
    'deleted' state for ever; that does not contradict the database and is only counted);
  * a persistent object without a row whose key was switched more than once below the
    frame rolled back to is reported as ``nested-pk-switches-restore-intermediate-key``;
then a second pass reads every attribute the ordinary way and the relation must hold
again (what gets loaded is the in-scope row).

S8: a SAVEPOINT rollback expires only objects modified inside it (documented); what an
unmodified object loaded / refreshed while the savepoint was open is excluded from the
comparison after that rollback (instance load/refresh/expire events + the set of keys
loaded when the frame was taken decide which pairs).

Guards: the rig's S1-S7 (stale collections, expunged objects make no claim, ...); objects
are only expunged when they predate the transaction; the sqlite3 driver runs with the
documented "SQLAlchemy emits BEGIN" recipe so that SAVEPOINT is transactional.
"""
from __future__ import annotations

META = {
    "id": "C33",
    "level": "exploration",
    "technique": "nested-transaction stack model lifted to rows (frames of raw dumps + object state kinds) checked at every commit/rollback/savepoint boundary of generated Session histories; C30 relation on the object side",
    "level_text": "Seeded histories (<=30 ops quick / <=80 thorough) with savepoints to depth 3, outer commit/rollback/close, adds, deletes, PK switches, row switches, re-parenting, over the 21-class zoo, expire_on_commit on/off; at every boundary rows (raw DBAPI + observer connection) are compared with the frame model and every tracked object's state and loaded attributes with the rows of the surviving scope, then again after loading everything.",
    "level_note": "SQLite only (pysqlite with the documented BEGIN recipe). join_transaction_mode on an externally begun connection is exercised by one scripted probe per shard only. Unloaded attributes are judged in the second pass (after an ordinary attribute access). Trusted base: raw sqlite3 reads, mapper configuration facts.",
    "design_ref": "DESIGN.md section 4, C33",
    "rule": "case = one history; non-trivial = it contained a savepoint rollback or an outer rollback after at least one flushed change; distinct by op list + knobs",
    "shards": {"quick": 8, "thorough": 16},
    "soft_s": {"quick": 50, "thorough": 840},
    "exhaustive": {"quick": False, "thorough": False},
    "require": ["boundaries_judged", "savepoint_rollbacks_judged", "savepoint_commits_judged", "outer_rollbacks_judged",
                "commits_judged", "closes_judged", "frame_dumps_compared", "created_objects_checked_transient",
                "restored_objects_checked_persistent", "column_values_compared", "second_pass_values_loaded",
                "pk_switch_rolled_back", "deletes_rolled_back", "scripted_histories", "histories_with_autoflush_off"],
    "assumptions": ["raw reads on the session's DBAPI connection show the in-transaction rows; the observer connection shows committed rows"],
}

KNOBS = [
    dict(tree_cascade="default", m2m_set=False),
    dict(tree_cascade="all", m2m_set=True),
    dict(tree_cascade="all", m2m_set=False),
    dict(tree_cascade="default", m2m_set=True),
]
WEIGHTS = {"new": 24, "set": 12, "m2o": 9, "app": 6, "rem": 5, "repl": 2, "clr": 1, "pop": 1, "del": 10, "cycdel": 1,
           "exp": 1, "readd": 1, "merge": 2, "rowswitch": 2, "pk": 4, "flush": 6, "commit": 3, "rollback": 3,
           "nest": 8, "spc": 4, "spr": 7, "close": 1, "expire": 1, "expall": 1, "refresh": 1, "get": 1, "touch": 3}
BOUNDARY = ("commit", "rollback", "spc", "spr", "close")
DROPPED = "collection-member-dropped-from-session-not-inserted"   # judged by C30 only


def kinds_of(R, rig):
    import sqlalchemy as sa

    return {id(o): R.state_kind(sa.inspect(o), rig.session) for o in rig.objs}


class Model:
    """The frame stack."""

    def __init__(self, R, rig):
        self.R, self.rig = R, rig
        self.frames = [self.frame(rig.read_committed)]
        self.stale = {}   # (id(obj), key) -> reload-log length when it became stale (S8)

    def frame(self, reader):
        import sqlalchemy as sa

        self.rig.sync()
        return {"dump": self.rig.dump(reader), "kinds": kinds_of(self.R, self.rig), "nobjs": len(self.rig.objs),
                "created": set(self.rig.created),
                # S8 bookkeeping: what was loaded when the frame was taken, and where the
                # instance-event log stood
                "loaded": {id(o): set(sa.inspect(o).dict) for o in self.rig.objs},
                "reload_mark": len(self.rig.reload_log)}


def diff(a, b):
    out = []
    for t in sorted(set(a) | set(b)):
        if a.get(t) != b.get(t):
            out.append(f"{t}: model {a.get(t, [])[:6]} database {b.get(t, [])[:6]}")
    return "; ".join(out)[:600]


def touch_all(rig):
    import sqlalchemy as sa

    n = 0
    for o in list(rig.objs):
        st = sa.inspect(o)
        if not (st.persistent and st.session is rig.session):
            continue
        mi = rig.zoo.info(st.mapper)
        for key, _ in mi.col_attrs:
            getattr(o, key)
            n += 1
        for key, _ in mi.composites:
            getattr(o, key)
        for key, _ in mi.m2o:
            getattr(o, key)
        for key, _, _ in mi.colls:
            list(getattr(o, key))
    return n


def judge_boundary(ctx, R, rig, model, op, ops, kd, pre_commit_dump, stats, reload_mark=None):
    """Called right after a boundary op was applied.  ``reload_mark`` = length of the rig's
    instance-event log just before the op."""
    import sqlalchemy as sa

    kind = op[0]
    fresh_stale = set()
    if kind == "spr":
        # S8: attributes an object loaded while the savepoint was open (not loaded when the
        # frame was taken, or the object was loaded / refreshed / expired since) keep their
        # savepoint-era value unless the object was modified: documented, not judged
        fr = model.frames[-1]
        reloaded = set(rig.reload_log[fr["reload_mark"]:reload_mark])
        for o in rig.objs:
            was = fr["loaded"].get(id(o))
            for k in list(sa.inspect(o).dict):
                if was is None or id(o) in reloaded or k not in was:
                    fresh_stale.add((id(o), k))
    # S8 pairs stay stale until the object is expired / refreshed again
    now = len(rig.reload_log)
    for pair in fresh_stale:
        model.stale[pair] = now
    byid = {id(o): o for o in rig.objs}
    for (oid, k), idx in list(model.stale.items()):
        o = byid.get(oid)
        if o is None or k not in sa.inspect(o).dict or oid in rig.reload_log[idx:]:
            del model.stale[(oid, k)]
    exclude = set(model.stale)
    ctx.count("s8_pairs_excluded", len(exclude))
    ctx.count("boundaries_judged")

    def vio(mech, summary, extra=None):
        ctx.violation(mech, f"after {kind}: {summary}", {"ops": ops, **kd, **(extra or {})})

    rolled = None   # the frame whose snapshot the session should be back at
    if kind == "spr":
        rolled = model.frames.pop()
        ctx.count("savepoint_rollbacks_judged")
        d = rig.dump(rig.read_txn)
        ctx.count("frame_dumps_compared")
        if d != rolled["dump"]:
            vio("savepoint-rollback-rows-differ-from-model", diff(rolled["dump"], d))
    elif kind == "spc":
        model.frames.pop()
        ctx.count("savepoint_commits_judged")
    elif kind == "rollback":
        rolled = model.frames[0]
        ctx.count("outer_rollbacks_judged")
        for reader in (rig.read_txn, rig.read_committed):
            d = rig.dump(reader)
            ctx.count("frame_dumps_compared")
            if d != rolled["dump"]:
                vio("rollback-rows-differ-from-model", diff(rolled["dump"], d))
        model.frames = [model.frame(rig.read_committed)]
    elif kind == "commit":
        ctx.count("commits_judged")
        d = rig.dump(rig.read_committed)
        if pre_commit_dump is not None:
            ctx.count("frame_dumps_compared")
            if d != pre_commit_dump:
                vio("committed-rows-differ-from-rows-at-commit", diff(pre_commit_dump, d))
        model.frames = [model.frame(rig.read_committed)]
    elif kind == "close":
        ctx.count("closes_judged")
        d = rig.dump(rig.read_committed)
        ctx.count("frame_dumps_compared")
        if d != model.frames[0]["dump"]:
            vio("close-rows-differ-from-model", diff(model.frames[0]["dump"], d))
        for slot, o in enumerate(rig.objs):
            st = sa.inspect(o)
            if st.session is rig.session:
                k = R.state_kind(st, rig.session)
                mi = rig.zoo.info(st.mapper)
                t = mi.tables[0].name
                identd = dict(zip(mi.pk_keys, st.key[1])) if st.key else {}
                w = " AND ".join(f"{cn} = ?" for cn, _ in mi.table_pk_keys[t])
                has_row = bool(st.key) and bool(rig.read_committed(f"SELECT 1 FROM {t} WHERE {w}", tuple(identd[kk] for _, kk in mi.table_pk_keys[t]))[1])
                if has_row and k == "deleted":
                    # the row may belong to another object by now (row switch / rowid reuse)
                    for o2 in rig.objs:
                        st2 = sa.inspect(o2)
                        if o2 is not o and st2.key is not None and (
                                st2.key == st.key or st.key[1] in rig.idents_seen.get(id(o2), ())):
                            has_row = False
                if k == "deleted" and not has_row:
                    # with expire_on_commit=False an object whose DELETE was committed is never
                    # moved from 'deleted' to 'detached' (not even by close()).  Its state does
                    # not contradict the database (no row), so C33 only counts it; reported
                    # to the lifecycle property (C35) as a side observation.
                    ctx.count("committed_delete_still_deleted_state_after_close")
                    continue
                vio(f"close-leaves-{k}-object-attached",
                    f"{type(o).__name__} slot {slot} is still attached to the session in state '{k}' after Session.close()"
                    + (" although close() rolled its DELETE back and the row exists" if k == "deleted" else ""),
                    {"slot": slot})
        model.frames = [model.frame(rig.read_committed)]

    # ---- object states against the frame rolled back to
    if rolled is not None:
        for slot, o in enumerate(rig.objs):
            st = sa.inspect(o)
            k = R.state_kind(st, rig.session)
            was = rolled["kinds"].get(id(o))
            if id(o) in rig.created and id(o) not in rolled["created"]:
                ctx.count("created_objects_checked_transient")
                if k != "transient":
                    vio(f"created-object-{k}-after-rollback", f"{type(o).__name__} slot {slot} was created after the frame that was rolled back, is {k} (key {st.key})", {"slot": slot})
            elif was == "persistent":
                ctx.count("restored_objects_checked_persistent")
                if id(o) in stats["deleted_since"].get(len(model.frames) if kind == "spr" else 0, ()):
                    ctx.count("deletes_rolled_back")
                if k not in ("persistent", "detached"):
                    vio("persistent-object-not-restored-after-rollback", f"{type(o).__name__} slot {slot} was persistent at the frame, is {k}", {"slot": slot})
            elif was == "deleted" and kind == "spr":
                if k not in ("deleted", "detached"):   # detached: expunged (cascade) by the history, S5
                    vio("outer-delete-undone-by-savepoint-rollback", f"{type(o).__name__} slot {slot} was deleted before the savepoint, is {k}", {"slot": slot})
    # ---- relation, first without loading anything, then after loading everything
    reader = rig.read_committed if kind in ("commit", "rollback", "close") else rig.read_txn
    cnt = {}
    rowless = False
    found = [f for f in R.relation(rig, R.snapshot(rig), reader, cnt, exclude) if f.mechanism != DROPPED]
    if any(f.mechanism == "persistent-object-without-row" for f in found):
        # the row such an object should own is reported once, through the object
        found = [f for f in found if f.mechanism != "row-without-owner"]
    for f in found:
        mech = f.mechanism
        if mech == "persistent-object-without-row":
            rowless = True
            o = rig.objs[f.detail["slot"]]
            if kind in ("spr", "rollback") and len(rig.idents_seen.get(id(o), ())) >= 3:
                # the object's key was switched more than once below the frame rolled back
                # to and it now carries one of the intermediate keys
                mech = "nested-pk-switches-restore-intermediate-key"
        vio(mech, f.summary, {"detail": f.detail, "pass": 1})
    if rowless:
        return False    # loading such an object can only raise ObjectDeletedError: same defect
    try:
        n = touch_all(rig)
        ctx.count("second_pass_values_loaded", n)
    except sa.exc.SQLAlchemyError as e:
        vio("attribute-access-raised-after-boundary", f"{type(e).__name__}: {str(e)[:200]}")
        return False
    for f in R.relation(rig, R.snapshot(rig), reader, cnt, exclude):
        if f.mechanism != DROPPED:
            vio("second-pass-" + f.mechanism, f.summary, {"detail": f.detail, "pass": 2})
    for k2, v in cnt.items():
        ctx.count(k2, v)
    # S8 again: what stayed loaded from the rolled-back savepoint is stale by design and an
    # application that goes on after a savepoint rollback has to expire it itself; otherwise the
    # unit of work acts on it later (e.g. a primary-key change that does not find the dependents
    # a stale collection no longer lists).  The history does that right after the boundary.
    if kind == "spr":
        byid = {id(o): o for o in rig.objs}
        for (oid, k) in list(fresh_stale):
            o = byid.get(oid)
            if (o is not None and sa.inspect(o).persistent and sa.inspect(o).session is rig.session
                    and k in sa.inspect(o).dict and k in sa.inspect(o).manager):
                rig.session.expire(o, [k])
                ctx.count("s8_pairs_expired_by_history")
    return True


def run_history(ctx, R, zoo, tpl, knobs, rng, maxops, sample=False, fixed=None, eoc=None, autoflush=None):
    import sqlalchemy as sa

    if eoc is None:
        eoc = rng.random() < 0.5
    if autoflush is None:
        autoflush = rng.random() < 0.65
    fams = rng.sample(R.FAMILIES, rng.randint(1, 3))
    # autoflush=False: begin_nested() must still flush what is pending into the *enclosing*
    # transaction before the SAVEPOINT is created
    rig = R.Rig(zoo, tpl, ctx.tmppath(".db"), expire_on_commit=eoc, autoflush=autoflush)
    if not autoflush:
        ctx.count("histories_with_autoflush_off")
    it = R.Interp(rig)
    gen = R.Gen(rig, rng, fams, WEIGHTS)
    kd = {"knobs": knobs, "expire_on_commit": eoc, "autoflush": autoflush, "families": fams}
    model = Model(R, rig)
    ops = []
    stats = {"deleted_since": {}}   # frame depth -> ids of objects deleted while that frame was the top
    flushed_change = False
    nontrivial = False
    pre_commit = {"dump": None}

    def on_event(ev):
        if ev.kind == "commit" and ev.was_in_txn:
            pre_commit["dump"] = rig.dump(rig.read_txn)
        return None

    rig.spy.fault = on_event
    try:
        n = rng.randint(8, maxops) if fixed is None else len(fixed)
        tries = 0
        while len(ops) < n and tries < n * 3:
            tries += 1
            if fixed is not None:
                if tries > len(fixed):
                    break
                op = fixed[tries - 1]
            else:
                op = gen.step()
            if op is None:
                continue
            depth = len(rig.sp)
            mark = rig.spy.mark()
            keys_before = None
            if op[0] in ("spr", "rollback"):
                keys_before = {id(o): sa.inspect(o).key for o in rig.objs}
            pre_commit["dump"] = None
            reload_mark = len(rig.reload_log)
            try:
                ok = it.apply(op)
            except sa.exc.SQLAlchemyError as e:
                ctx.count("histories_aborted_by_exception")
                ctx.seen("abort_exceptions", type(e).__name__)
                break
            if not ok:
                if fixed is not None:
                    raise AssertionError(f"scripted history: op {op} was skipped by its guard")
                continue
            ops.append(op)
            ctx.seen("op_kinds", op[0])
            if rig.dml_since(mark):
                flushed_change = True
            if op[0] in ("del", "cycdel", "rowswitch"):
                for d in range(depth + 1):
                    stats["deleted_since"].setdefault(d, set()).add(id(rig.objs[op[1]]))
            if op[0] == "nest":
                # begin_nested() flushes pending work first: nothing may be pending now, and what
                # the frame records as the savepoint's starting rows includes that work
                if rig.session.new or rig.session.deleted or any(rig.session.is_modified(o) for o in rig.session.dirty):
                    ctx.violation("work-pending-after-begin-nested", "begin_nested() left unflushed changes pending (they would be flushed inside the SAVEPOINT)", {"ops": list(ops), **kd})
                model.frames.append(model.frame(rig.read_txn))
                flushed_change = False
            elif op[0] in BOUNDARY:
                if op[0] in ("spr", "rollback") and flushed_change:
                    nontrivial = True
                if keys_before is not None:
                    for o in rig.objs:
                        kb = keys_before.get(id(o))
                        if kb is not None and sa.inspect(o).key is not None and sa.inspect(o).key != kb:
                            ctx.count("pk_switch_rolled_back")
                if not judge_boundary(ctx, R, rig, model, op, list(ops), kd, pre_commit["dump"], stats, reload_mark):
                    break
                d = len(rig.sp)
                for k in list(stats["deleted_since"]):
                    if k > d or op[0] in ("commit", "rollback", "close"):
                        stats["deleted_since"].pop(k)
                if op[0] in ("commit", "rollback", "close"):
                    flushed_change = False
        ctx.count("ops_applied", len(ops))
        ctx.maxi("max_savepoint_depth", max([0] + [sum(1 for o in ops[:i + 1] if o[0] == "nest") - sum(1 for o in ops[:i + 1] if o[0] in ("spc", "spr")) for i in range(len(ops))]))
        ctx.case({"ops": ops, **kd}, nontrivial=nontrivial)
        if sample:
            ctx.sample({"ops": ops, **kd})
    finally:
        rig.spy.fault = None
        rig.close()


# scripted histories: the sequences the random generator reaches only now and then
SCRIPTED = [
    # PK switch inside a released savepoint, then outer rollback: the key must be restored
    [["new", "Vertex", 0, {"start": [1, 2], "end": [3, 4]}, {}], ["commit"], ["touch", 0, "start"], ["nest"], ["pk", 0, 500000], ["spc"], ["rollback"]],
    [["new", "NUser", 0, {"username": "u1", "fullname": "a"}, {}], ["new", "NAddr", 1, {"email": "e1", "note": "n"}, {"user": 0}], ["commit"],
     ["touch", 0, "addresses"], ["nest"], ["nest"], ["pk", 0, "u2"], ["spc"], ["spc"], ["set", 1, "note", "m"], ["flush"], ["rollback"]],
    # PK switch inside a savepoint that is rolled back
    [["new", "Child", 0, {"val": 1}, {"parent": None}], ["commit"], ["touch", 0, "val"], ["nest"], ["pk", 0, 500000], ["set", 0, "val", 2], ["flush"], ["spr"], ["commit"]],
    # two PK switches in nested savepoints, inner released, outer rolled back: the *original* key
    [["new", "Vertex", 0, {"start": [1, 2], "end": [3, 4]}, {}], ["commit"], ["touch", 0, "start"], ["nest"], ["pk", 0, 500000], ["nest"],
     ["pk", 0, 600000], ["spc"], ["spr"], ["commit"]],
    # delete inside a released savepoint, then outer rollback: persistent again
    [["new", "Parent", 0, {"name": "p", "n": 1}, {}], ["new", "Child", 1, {"val": 1}, {"parent": 0}], ["commit"], ["touch", 0, "children"],
     ["nest"], ["del", 1], ["flush"], ["spc"], ["rollback"]],
    # delete inside a savepoint that is rolled back; update flushed inside a savepoint that is rolled back
    [["new", "Parent", 0, {"name": "p", "n": 1}, {}], ["new", "Child", 1, {"val": 1}, {"parent": 0}], ["commit"], ["touch", 0, "name"], ["touch", 1, "val"],
     ["set", 0, "name", "q"], ["nest"], ["set", 0, "name", "r"], ["set", 1, "val", 2], ["flush"], ["del", 1], ["flush"], ["spr"], ["commit"]],
    # object added before the savepoint, modified inside, savepoint rolled back, outer committed
    [["new", "Owner", 0, {"name": "o"}, {}], ["nest"], ["new", "Item", 1, {"qty": 1}, {"owner": 0}], ["set", 0, "name", "x"], ["flush"], ["spr"], ["commit"]],
    # new object inside nested savepoints: inner released, outer rolled back
    [["new", "Left", 0, {"name": "l"}, {}], ["commit"], ["nest"], ["nest"], ["new", "Right", 1, {"name": "r"}, {}], ["app", 0, "rights", 1], ["spc"], ["spr"], ["commit"]],
    # rowid reuse: delete in the outer transaction, insert in a savepoint that gets the same id, roll the savepoint back
    [["new", "Art", 0, {"title": "a"}, {}], ["commit"], ["del", 0], ["flush"], ["nest"], ["new", "Art", 1, {"title": "b"}, {}], ["flush"], ["spr"], ["rollback"]],
    # work pending when the savepoint begins belongs to the enclosing transaction (decisive with autoflush off)
    [["new", "Parent", 0, {"name": "p", "n": 1}, {}], ["commit"], ["touch", 0, "name"], ["set", 0, "name", "q"], ["new", "Child", 1, {"val": 1}, {"parent": 0}],
     ["nest"], ["new", "Child", 2, {"val": 2}, {"parent": 0}], ["flush"], ["spr"], ["commit"]],
    # close with a flushed delete (the known close() finding is reported from here as well)
    [["new", "Tag", 0, {"word": "w"}, {}], ["commit"], ["del", 0], ["flush"], ["close"]],
]


def probe_join_external(ctx, R, zoo, tpl, knobs, rng):
    """A Session joined to an externally begun connection (create_savepoint mode): its
    commit must not reach the database file; rolling the outer transaction back removes
    everything."""
    import sqlalchemy as sa
    from sqlalchemy import orm

    rig = R.Rig(zoo, tpl, ctx.tmppath(".db"))
    try:
        D0 = rig.dump(rig.read_committed)
        conn = rig.engine.connect()
        trans = conn.begin()
        s = orm.Session(bind=conn, join_transaction_mode="create_savepoint")
        P, C = zoo.cls["Parent"], zoo.cls["Child"]
        p = P(name="x", children=[C(val=1), C(val=2)])
        s.add(p)
        s.commit()
        ctx.count("frame_dumps_compared")
        if rig.dump(rig.read_committed) != D0:
            ctx.violation("joined-session-commit-reached-database", "Session.commit() in create_savepoint mode committed the external transaction", {"knobs": knobs})
        p.name = "y"
        s.flush()
        s.rollback()
        if p.name != "x":
            ctx.violation("joined-session-rollback-kept-value", f"after rollback name={p.name!r}", {"knobs": knobs})
        s.close()
        trans.rollback()
        conn.close()
        ctx.count("frame_dumps_compared")
        if rig.dump(rig.read_committed) != D0:
            ctx.violation("external-rollback-left-rows", "rows remain after the external transaction was rolled back", {"knobs": knobs})
        ctx.count("external_transaction_probes")
    finally:
        rig.close()


def run(ctx):
    import warnings

    warnings.simplefilter("ignore")
    from vf.gen import ormrig_gi as R

    rng = ctx.rng
    cache = {}

    def zoo_for(k):
        if k not in cache:
            z = R.Zoo(**KNOBS[k])
            cache[k] = (z, z.template(ctx.tmppath(".tpl.db")))
        return cache[k]

    nh = ctx.pick({"quick": 160, "thorough": 2400})
    maxops = ctx.pick({"quick": 30, "thorough": 80})
    try:
        zoo, tpl = zoo_for(ctx.shard % len(KNOBS))
        probe_join_external(ctx, R, zoo, tpl, KNOBS[ctx.shard % len(KNOBS)], rng)
        for j, fixed in enumerate(SCRIPTED):
            if ctx.mine(j):
                for eoc in (True, False):
                    for af in (True, False):
                        run_history(ctx, R, zoo, tpl, KNOBS[ctx.shard % len(KNOBS)], rng, 99, fixed=fixed, eoc=eoc, autoflush=af)
                        ctx.count("scripted_histories")
        for h in range(nh):
            if not ctx.budget_ok():
                break
            k = (ctx.shard + h % 2) % len(KNOBS)
            zoo, tpl = zoo_for(k)
            run_history(ctx, R, zoo, tpl, KNOBS[k], rng, maxops, sample=h < 2 and ctx.shard < 2)
    finally:
        for z, _ in cache.values():
            z.dispose()
