"""C34 -- the identity map holds at most one object per row.

Runtime monitor over random bounded histories of one Session on a SQLite file database
(mappings: P --< C with autoincrement keys and four loader styles for the collection,
N with a natural string key, K with a composite key).

Shadow registry: the harness keeps a *strong* reference to every mapped object it ever
receives (results, ``get``/``merge`` returns, lazy loads, objects it created) and to
every instance announced by ``loaded_as_persistent`` / ``pending_to_persistent`` /
``detached_to_persistent``.  Because nothing is ever garbage collected, "a second object
for the same identity key" cannot be explained away by collection + reload.

Checked after every operation of a history:

* among all held objects that are *persistent in the session under test* no two share an
  identity key, and ``session.identity_map`` maps that key to exactly that object;
* every key of ``session.identity_map`` maps to an object whose own key is that key and
  whose session is this session;
* every entity returned by a query (plain, ordered, ``populate_existing``, ``yield_per``,
  joined/selectin/subquery eager children, ``from_statement``, legacy ``Query``,
  ``identity_token``), by ``get``/``merge``/lazy loads is the identity-map object of its
  own key and carries the requested primary key;
* ``merge()`` of a detached object whose key carries an identity token (row exists, identity
  not yet in the session) yields the identity-map object of *that* key, and a following
  ``get(..., identity_token=tok)`` returns it with zero statements;
* the identity-token part of an identity key never changes once assigned;
* the bulk variants (``merge_all`` with >= 2 given objects sharing a new or existing key,
  directly or through the merge cascade; ``add_all`` / ``delete_all`` with the same object
  twice) behave like the loop of single calls: one session object per identity, and the
  following flush succeeds;
* ``Session.get`` of an identity that is present and whose ``InstanceState.expired`` is
  False returns that object and the M-spy DBAPI log shows **zero** statements
  (``populate_existing`` / ``with_for_update`` variants are exempt from the SQL clause,
  not from the identity clause).

Guards (documented behaviour, not violations): objects in the *deleted* state are not in
the identity map, so a new object may take their key until a rollback restores them;
``identity_token`` is part of the key, so the same row may be loaded once per token;
detached objects are re-attached (``add``, ``merge(load=False)``) only while the row they
claim still exists for the session's transaction - attaching a stale twin whose row was
deleted / re-keyed / rolled back is an application error the Session cannot see (when a
later rollback restores the real owner of the key the stale twin is displaced but stays
attached; observed, reported as a robustness remark, not asserted);
``add()`` of a detached object whose key is occupied raises ``InvalidRequestError`` and
a flush of a new object whose key is occupied raises ``FlushError``/``IntegrityError`` -
refusals keep the property.  Library exceptions of those documented kinds end the step
(the session is rolled back when it asks for it); anything else crashes the shard.
Objects INSERTed in the still open transaction are not expunged, keys claimed by an
attached object whose row is gone are not re-used, and P/C get explicit never re-used
ids: each of these would let a *second* object legitimately claim a key of a row that
never was committed (the library answers the flush with its "Identity map already had an
identity" warning).  A history ends at its first violation.

Fires on the tree as of this writing (candidate genuine defect, see the group report):
``detached-object-in-identity-map-after-pk-switch`` - a persistent object whose primary
key was changed + flushed and which is then expunged is put back into
``identity_map`` by ``rollback()`` (``SessionTransaction._restore_snapshot`` walks
``_key_switches`` without checking that the state still belongs to the session).
"""
from __future__ import annotations

import warnings

META = {
    "id": "C34",
    "level": "exploration",
    "technique": "shadow identity registry (strong refs + lifecycle events) checked after every op of random session histories; DBAPI statement count around Session.get",
    "level_text": "Seeded random histories (12-30 ops) over query styles, get, merge, refresh, expire, expunge/re-add, primary-key change, delete/re-insert of a key, savepoints, commit and rollback on four mappings; invariant evaluated after every operation.",
    "level_note": "SQLite only. 'Expired' is read from InstanceState.expired. Primary-key *swaps* between two live rows are not generated (SQLite checks uniqueness per statement). Garbage collection is deliberately excluded (all objects are held) - weak referencing is C48's subject. No inheritance mappings, so the class-mismatch branch of get() is not exercised.",
    "design_ref": "DESIGN.md section 4, C34",
    "rule": "case = one history; non-trivial = the history produced >= 2 identity-returning results for an identity that was already held (i.e. the map was really consulted); distinct by op-name sequence + mapping variant",
    "shards": {"quick": 8, "thorough": 16},
    "modes": ["cext"],
    "soft_s": {"quick": 50, "thorough": 800},
    "exhaustive": {"quick": False, "thorough": False},
    "require": ["invariant_checks", "returned_checked", "returned_already_held", "get_no_sql_checked",
                "pk_switch_flushed", "readd_refused_or_done", "key_reused_after_delete", "merge_token_loaded_checked", "merge_token_noload_flushed", "bulk_merge_dup_checked"],
    "assumptions": ["the harness holds every object it receives, so identity comparisons are never confused by id() reuse"],
}

LAZY = ["select", "joined", "selectin", "subquery"]


class Hist:
    def __init__(self, ctx, rig, s, rng, variant):
        from sqlalchemy import inspect

        self.ctx, self.rig, self.s, self.rng = ctx, rig, s, rng
        self.variant = variant
        self.inspect = inspect
        self.held = {}
        self.trace = []
        self.nested = []
        self.fresh = 0
        self.hits = 0
        self.pre = set()  # ids held when the current op started
        self.was_deleted = set()   # ids of objects seen entering the deleted state
        self.violated = False
        self.new_in_txn = set()   # ids of objects added as new since the last full commit / rollback
        self.block_n = False      # see pick_cls()
        self.keys = {}            # id(obj) -> identity key last seen (key stability)
        self.life = {}   # id(obj) -> [(op index, lifecycle event)]
        self.pk_switched = set()   # ids of objects whose primary key the harness changed

    # ---- registry ------------------------------------------------------
    def see(self, o):
        if o is not None:
            self.held[id(o)] = o
        return o

    def viol(self, mech, summary, witness=None):
        # the first violation ends the history: later ones would be consequences
        self.violated = True
        self.ctx.violation(mech, summary, witness)

    def last_is_rollback(self):
        last = self.trace[-1] if self.trace else None
        name = last[0] if isinstance(last, (tuple, list)) else last
        return name in ("rollback", "nested_rollback", "rollback-after-error", "final_sweep")

    def mech_detached(self, o):
        return "detached-object-in-identity-map" + ("-after-pk-switch" if id(o) in self.pk_switched else "")

    def persistent_for(self, key):
        out = []
        for o in self.held.values():
            st = self.inspect(o)
            if st.key == key and st.persistent and st.session is self.s:
                out.append(o)
        return out

    def of(self, cls, pred):
        out = []
        for o in self.held.values():
            if type(o) is cls:
                st = self.inspect(o)
                if pred(st):
                    out.append(o)
        return out

    def wit(self, extra=None):
        w = {"variant": self.variant, "ops": self.trace[-40:]}
        if extra:
            w.update(extra)
        return w

    def check(self):
        s = self.s
        self.ctx.count("invariant_checks")
        for key in list(s.identity_map.keys()):
            o = s.identity_map.get(key)
            if o is None:
                continue
            self.see(o)
            st = self.inspect(o)
            if st.key != key:
                self.viol("identity-map-key-differs-from-object-key",
                                   f"map key {key[1:]} holds object whose key is {st.key and st.key[1:]}",
                                   self.wit({"map_key": repr(key), "obj_key": repr(st.key)}))
            if st.session is not s:
                self.viol(self.mech_detached(o),
                                   f"identity_map[{key[0].__name__}{key[1:]}] is an object that is {'detached' if st.detached else 'not in this session'}",
                                   self.wit({"map_key": repr(key)}))
        if self.violated:
            return     # a detached object in the map also displaces fresh loads: one report
        # an identity key, once assigned, changes only through a primary key switch
        for o in list(self.held.values()):
            st = self.inspect(o)
            prev = self.keys.get(id(o))
            if st.key is not None:
                # (a changed primary key part may also come from merging a source whose key
                # attributes differ - only the token part can never legitimately change)
                if prev is not None and prev[1] == st.key[1] and prev[2] != st.key[2]:
                    self.viol("identity-token-dropped-from-key" if st.key[2] is None
                              else "identity-token-changed-in-key",
                              f"{type(o).__name__} key {prev[1:]} became {st.key[1:]} after {self.trace[-1]} "
                              f"(state.identity_token={st.identity_token!r})",
                              self.wit({"before": repr(prev[1:]), "after": repr(st.key[1:]), "life": self.life.get(id(o))}))
                    return
                self.keys[id(o)] = st.key
            else:
                self.keys.pop(id(o), None)
        groups = {}
        for o in list(self.held.values()):
            st = self.inspect(o)
            if st.persistent and st.session is s:
                groups.setdefault(st.key, []).append(o)
        for key, objs in groups.items():
            got = s.identity_map.get(key)
            out = [o for o in objs if o is not got]
            if out:
                # one mechanism for "a second object claims the key": the object(s) that
                # are persistent by their own flags but are not identity_map[key]
                o = out[0]
                self.viol("persistent-object-not-in-identity-map" + ("-after-rollback" if self.last_is_rollback() else ""),
                          f"{len(objs)} persistent object(s) for {key[0].__name__}{key[1:]} after {self.trace[-1]}; "
                          f"identity_map[key] is {'another object' if got is not None else 'absent'}",
                          self.wit({"key": repr(key), "map_has": repr(got), "n_persistent": len(objs),
                                    "displaced_life": self.life.get(id(o)),
                                    "displaced_was_deleted_once": id(o) in self.was_deleted,
                                    "displaced_pk_switched": id(o) in self.pk_switched,
                                    "owner_life": self.life.get(id(got)) if got is not None else None}))
                return

    def returned(self, o, cls=None, pk=None, token=None, how=""):
        """An entity handed out by the session."""
        if o is None:
            return None
        known = id(o) in self.pre
        self.see(o)
        self.ctx.count("returned_checked")
        st = self.inspect(o)
        if known:
            self.ctx.count("returned_already_held")
            self.hits += 1
        if st.detached and self.s.identity_map.get(st.key) is o:
            self.viol(self.mech_detached(o), f"{how}: returned a detached object that sits in identity_map",
                               self.wit({"how": how}))
            return o
        if st.session is not self.s or not st.persistent:
            self.viol("result-object-not-persistent-in-session",
                               f"{how}: returned object is {[n for n in ('transient','pending','persistent','deleted','detached') if getattr(st, n)]}",
                               self.wit({"how": how}))
            return o
        if self.s.identity_map.get(st.key) is not o:
            self.viol("result-object-not-the-identity-map-entry",
                               f"{how}: returned object for {st.key[1:]} is not identity_map[key]", self.wit({"how": how}))
        if cls is not None and pk is not None:
            if st.key[0] is not cls or tuple(st.key[1]) != tuple(pk) or st.key[2] != token:
                self.viol("result-object-has-other-key",
                                   f"{how}: asked {cls.__name__}{tuple(pk)} token={token} got key {st.key[1:]}",
                                   self.wit({"how": how}))
        return o

    # ---- helpers -------------------------------------------------------
    def pkcols(self, cls):
        return [c.key for c in self.inspect(cls).primary_key]

    def known_pks(self, cls):
        tab = self.inspect(cls).local_table.name
        cols = ", ".join(self.pkcols(cls))
        return [tuple(r) for r in self.rig.truth(f"SELECT {cols} FROM {tab}")]

    def graph_rows_exist(self, o):
        """row_exists for o and for every object reachable through *loaded* relationship
        attributes (add() / merge() cascade along them)."""
        seen, todo = set(), [o]
        while todo:
            x = todo.pop()
            if id(x) in seen:
                continue
            seen.add(id(x))
            st = self.inspect(x)
            if st.key is None:
                continue
            if st.deleted or (st.session is not self.s and not self.row_exists(x)):
                return False
            par = x.__dict__.get("parent")
            if par is not None:
                todo.append(par)
            todo.extend(x.__dict__.get("children") or ())
        return True

    def row_exists(self, o):
        """Does the row a detached object claims to represent exist for the session's
        transaction?  Attaching a detached object whose row is gone (rolled back, deleted,
        re-keyed) is an application error the Session cannot detect; it is not generated."""
        st = self.inspect(o)
        cls = type(o)
        return tuple(st.key[1]) in self.known_pks(cls)

    def uniq(self, tag):
        self.fresh += 1
        return f"{tag}{self.fresh}"


def build_ops(h):
    """Return the op table: name -> callable(h) -> descriptor (or None when not applicable)."""
    sa, orm = h.rig.sa, h.rig.orm
    from sqlalchemy import select, text

    P, C, N, K = (h.rig.cls[n] for n in "PCNK")
    rng, s = h.rng, h.s
    classes = [P, C, N, K]

    def pick_cls():
        # while block_n is set (a primary-key-switched N object was expunged inside the open
        # transaction) rows of N are not loaded again: a second object for such a row is
        # displaced when rollback restores the first one's key - the application detached the
        # owner of a row it had modified, outside the property
        return rng.choice([P, P, C, K] if h.block_n else [P, P, C, N, N, K])

    def persistent(cls=None, tokens=False):
        # objects loaded under an identity token alias rows of the *same* database here
        # (tokens are meant for distinct shards): they are only read, never mutated,
        # otherwise deleting the alias and re-using its rowid fabricates a conflict
        out = []
        for o in h.held.values():
            if cls is None or type(o) is cls:
                st = h.inspect(o)
                if st.persistent and st.session is s and (tokens or st.key[2] is None):
                    out.append(o)
        return out

    def q_all():
        cls = pick_cls()
        style = rng.choice(["plain", "desc", "populate_existing", "yield_per", "eager", "from_statement",
                            "legacy_query", "token", "partitions"])
        pk0 = h.inspect(cls).primary_key[0]
        if style == "plain":
            res = s.scalars(select(cls)).all()
        elif style == "desc":
            res = s.scalars(select(cls).order_by(pk0.desc())).all()
        elif style == "populate_existing":
            res = s.scalars(select(cls).execution_options(populate_existing=True)).all()
        elif style == "yield_per":
            res = list(s.scalars(select(cls).execution_options(yield_per=2)))
        elif style == "partitions":
            res = [o for part in s.scalars(select(cls).execution_options(yield_per=2)).partitions() for o in part]
        elif style == "eager":
            cls = P
            ld = rng.choice([orm.joinedload, orm.selectinload, orm.subqueryload])
            # a collection that was already loaded is not re-populated and may
            # legitimately still list an object deleted in a flush
            had = {id(p) for p in persistent(P) if "children" in p.__dict__}
            res = s.scalars(select(P).options(ld(P.children))).unique().all()
            for p in res:
                if "children" in p.__dict__ and id(p) not in had:
                    for c in p.__dict__["children"]:
                        h.returned(c, how="eager child")
        elif style == "from_statement":
            tab = h.inspect(cls).local_table.name
            res = s.scalars(select(cls).from_statement(text(f"SELECT * FROM {tab}"))).all()
        elif style == "legacy_query":
            res = s.query(cls).all()
        else:
            res = s.scalars(select(cls).execution_options(identity_token="tok")).all()
            for o in res:
                h.returned(o, how="q_all token")
                if h.inspect(o).key[2] != "tok":
                    h.viol("identity-token-not-in-key", "identity_token execution option ignored", h.wit())
            return ("q_all", cls.__name__, style, len(res))
        keys = [h.inspect(o).key for o in res]
        if len(set(keys)) != len(keys):
            h.viol("query-returns-two-objects-one-key", f"{style}: duplicate identity keys in one result", h.wit())
        for o in res:
            h.returned(o, how=f"q_all {style}")
        return ("q_all", cls.__name__, style, len(res))

    def q_pk():
        cls = pick_cls()
        pks = h.known_pks(cls)
        if not pks:
            return None
        pk = rng.choice(pks)
        cols = h.inspect(cls).primary_key
        stmt = select(cls)
        for c, v in zip(cols, pk):
            stmt = stmt.where(c == v)
        o = s.scalars(stmt).one_or_none()
        h.returned(o, cls, pk, how="q_pk")
        return ("q_pk", cls.__name__, len(pk))

    def get():
        cls = pick_cls()
        pks = h.known_pks(cls)
        kind = rng.choice(["plain", "plain", "plain", "populate_existing", "for_update", "token", "absent", "get_one"])
        here = persistent(cls)
        if kind == "absent" or not pks:
            pk = (987654,) if cls is not N and cls is not K else (("zz-none",) if cls is N else (987, 654))
        elif here and rng.random() < 0.7:
            dirty = [o for o in here if h.inspect(o).modified]
            pk = tuple(h.inspect(rng.choice(dirty if dirty and rng.random() < 0.5 else here)).key[1])
        else:
            pk = rng.choice(pks)
        token = "tok" if kind == "token" else None
        key = h.inspect(cls).identity_key_from_primary_key(pk, identity_token=token)
        present = h.persistent_for(key)
        expired = bool(present) and h.inspect(present[0]).expired
        ident = pk[0] if len(pk) == 1 else pk
        mark = h.rig.spy.mark()
        kw = {}
        if kind == "populate_existing":
            kw["populate_existing"] = True
        elif kind == "for_update":
            kw["with_for_update"] = True
        elif kind == "token":
            kw["identity_token"] = "tok"
        if kind == "get_one" and present:
            got = s.get_one(cls, ident)
        else:
            got = s.get(cls, ident, **kw)
        stmts = h.rig.nstatements(mark)
        h.returned(got, cls, pk, token, how=f"get {kind}")
        if len(present) == 1:
            if got is not None and got is not present[0]:
                h.viol("get-returns-other-object-than-present-identity",
                                f"get({cls.__name__}, {pk}) [{kind}] returned a different object than the persistent one",
                                h.wit())
            if kind in ("plain", "token", "get_one") and not expired:
                h.ctx.count("get_no_sql_checked")
                if h.inspect(present[0]).modified:
                    h.ctx.count("get_no_sql_checked_dirty")
                if got is not present[0]:
                    h.viol("get-present-unexpired-not-returned",
                                    f"get({cls.__name__}, {pk}) of a present unexpired identity returned {got!r}", h.wit())
                if stmts:
                    h.viol("get-emits-sql-for-present-unexpired-identity",
                                    f"get({cls.__name__}, {pk}) emitted {len(stmts)} statement(s): {stmts[0].sql[:80]!r}",
                                    h.wit({"sql": [e.sql for e in stmts][:3], "modified": h.inspect(present[0]).modified}))
        return ("get", cls.__name__, kind, bool(present), expired)

    def lazy():
        cs = persistent(C)
        ps = persistent(P)
        # only a real load consults the identity map; a value already in __dict__ may
        # legitimately be stale (e.g. reference to an object deleted in a flush)
        cs = [c for c in cs if "parent" not in c.__dict__]
        ps = [p for p in ps if "children" not in p.__dict__]
        if cs and (not ps or rng.random() < 0.6):
            c = rng.choice(cs)
            p = c.parent
            h.returned(p, how="lazy m2o")
            return ("lazy_m2o", p is not None)
        if ps:
            p = rng.choice(ps)
            for c in list(p.children):
                h.returned(c, how="lazy o2m")
            return ("lazy_o2m",)
        return None

    def merge():
        cls = rng.choice([P, K, C] if h.block_n else [P, N, K, C])
        kind = rng.choice(["transient_existing", "transient_new", "detached", "detached_noload", "detached_token",
                           "detached_token"])
        anytok = [o for o in h.held.values() if h.inspect(o).detached and h.inspect(o).key[2] is not None
                  and not h.inspect(o).modified and not (h.block_n and type(o) is N)]
        if anytok and rng.random() < 0.5:
            kind, cls = rng.choice(["detached_token", "detached_token", "detached_token_noload"]), type(rng.choice(anytok))
        if kind.startswith("detached"):
            cands = h.of(cls, lambda st: st.detached and not st.modified)
            if kind == "detached_token":
                # input class: the source's identity key carries an identity token, its row
                # exists and that (row, token) identity is not in the session yet, so merge()
                # has to load it - under the same token
                cands = [o for o in cands if h.inspect(o).key[2] is not None and h.row_exists(o)]
                absent = [o for o in cands if not h.persistent_for(h.inspect(o).key)]
                cands = absent or cands
            if kind == "detached_token_noload":
                cands = [o for o in cands if h.inspect(o).key[2] is not None]
            if kind.endswith("noload"):
                cands = [o for o in cands if h.graph_rows_exist(o)]
            if not cands:
                return None
            src = rng.choice(cands)
            was_present = bool(h.persistent_for(h.inspect(src).key))
            got = s.merge(src, load=not kind.endswith("noload"))
            st = h.inspect(src)
            h.see(got)
            if h.inspect(got).persistent:  # (row gone from the database -> merged copy is pending)
                h.returned(got, cls, st.key[1], st.key[2], how=f"merge {kind}")
                if st.key[2] is not None and not h.violated:
                    # the merged identity is present and unexpired now: get() under the
                    # source's token must hand it out without SQL
                    h.ctx.count("merge_token_checked")
                    if not was_present:
                        h.ctx.count("merge_token_loaded_checked")
                    ident = st.key[1][0] if len(st.key[1]) == 1 else tuple(st.key[1])
                    expired_before = h.inspect(got).expired     # (merge onto a present, expired instance)
                    mark = h.rig.spy.mark()
                    again = s.get(cls, ident, identity_token=st.key[2])
                    stmts = h.rig.nstatements(mark)
                    if again is not got:
                        h.viol("get-after-merge-returns-other-object-for-token-identity",
                               f"merge of {cls.__name__}{tuple(st.key[1])} token={st.key[2]!r} gave one object, "
                               f"get(..., identity_token=...) another", h.wit())
                    elif stmts and not expired_before:
                        h.viol("get-emits-sql-for-present-unexpired-identity",
                               f"get after merge emitted {len(stmts)} statement(s) for a token identity",
                               h.wit({"sql": [e.sql for e in stmts][:3], "kind": kind, "cls": cls.__name__}))
            if got is src:
                h.viol(h.mech_detached(src) if s.identity_map.get(st.key) is src else "merge-returns-foreign-object",
                       "merge returned the detached source itself", h.wit())
            if kind == "detached_token_noload" and not h.violated and h.inspect(got).persistent:
                # input class: the copy made without a load takes part in a flush (its key is
                # re-derived from the state there) - the invariant check after the op judges it
                h.keys[id(got)] = h.inspect(got).key
                if cls is P:
                    got.name = h.uniq("tn")
                else:
                    got.v = h.uniq("tn")
                s.flush()
                h.ctx.count("merge_token_noload_flushed")
            return ("merge", cls.__name__, kind)
        pks = h.known_pks(cls)
        if kind == "transient_existing" and pks:
            pk = rng.choice(pks)
        else:
            if cls is N:
                pk = (h.uniq("m"),)
            elif cls is K:
                h.fresh += 1
                pk = (50, h.fresh)
            else:
                h.fresh += 1
                pk = (2000 + h.fresh,)
        src = cls()
        for name, v in zip(h.pkcols(cls), pk):
            setattr(src, name, v)
        if cls is P:
            src.name = h.uniq("mn")
        else:
            src.v = h.uniq("mv")
        h.see(src)
        got = s.merge(src)
        h.see(got)
        st = h.inspect(got)
        if st.persistent:
            h.returned(got, cls, pk, how=f"merge {kind}")
        return ("merge", cls.__name__, kind, "persistent" if st.persistent else "pending")

    def refresh():
        objs = persistent()
        if not objs:
            return None
        o = rng.choice(objs)
        s.refresh(o)
        h.returned(o, how="refresh")
        return ("refresh", type(o).__name__)

    def expire():
        objs = persistent()
        kind = rng.choice(["one", "attr", "all"])
        if kind == "all" or not objs:
            s.expire_all()
            return ("expire_all",)
        o = rng.choice(objs)
        if kind == "attr":
            s.expire(o, ["v" if type(o) is not P else "name"])
        else:
            s.expire(o)
        return ("expire", kind, type(o).__name__)

    def expunge():
        # an object INSERTed in the still open transaction is not expunged: its row would
        # stay visible, could be loaded into a second object the session cannot know to be
        # "new", and a rollback then leaves that one attached for a row that never existed
        # (and displaced if the key's former owner is restored) - outside the property
        objs = [o for o in persistent(tokens=True) if id(o) not in h.new_in_txn]
        if not objs:
            return None
        tok = [o for o in objs if h.inspect(o).key[2] is not None]
        o = rng.choice(tok if tok and rng.random() < 0.4 else objs)
        s.expunge(o)
        if id(o) in h.pk_switched:
            h.block_n = True
        return ("expunge", type(o).__name__)

    def readd():
        cands = [o for o in h.held.values() if h.inspect(o).detached and h.graph_rows_exist(o)]
        if not cands:
            return None
        o = rng.choice(cands)
        occupied = bool(h.persistent_for(h.inspect(o).key))
        try:
            s.add(o)
        finally:
            h.ctx.count("readd_refused_or_done")
        return ("readd", type(o).__name__, occupied)

    def new():
        cls = pick_cls()
        o = cls()
        reuse = False
        if cls is N:
            # a key is re-used only when no row has it *and* no attached object still claims
            # it (an object loaded for a row whose INSERT was later rolled back stays in the
            # map, expired; flushing a new row under its key makes the library warn and
            # replace it - expected, not generated)
            gone = [pk for pk in [("a",), ("b",), ("c",), ("d",)] if pk not in h.known_pks(N)
                    and not h.persistent_for(h.inspect(N).identity_key_from_primary_key(pk))]
            if gone and rng.random() < 0.7:
                o.code = rng.choice(gone)[0]
                reuse = True
            else:
                o.code = h.uniq("n")
            o.v = h.uniq("v")
        elif cls is K:
            o.k1, o.k2 = rng.randint(1, 3), rng.randint(1, 3)
            if (o.k1, o.k2) not in h.known_pks(K) and h.persistent_for(
                    h.inspect(K).identity_key_from_primary_key((o.k1, o.k2))):
                return None   # key claimed by an attached object whose row is gone (see above)
            o.v = h.uniq("v")
        elif cls is P:
            # explicit never-reused ids: SQLite would hand a rolled-back rowid out again
            o.name = h.uniq("p")
            o.id = 1000 + h.fresh
        else:
            o.v = h.uniq("c")
            o.id = 1000 + h.fresh
            ps = persistent(P)
            if ps:
                o.parent = rng.choice(ps)
        h.see(o)
        s.add(o)
        s.flush()
        if reuse:
            h.ctx.count("key_reused_after_delete")
        return ("new", cls.__name__, reuse)

    def pk_switch():
        ns = persistent(N)
        if not ns:
            return None
        n = rng.choice(ns)
        taken = {pk[0] for pk in h.known_pks(N)}
        cand = [c for c in "abcdefg" if c not in taken
                and not h.persistent_for(h.inspect(N).identity_key_from_primary_key((c,)))]
        n.code = rng.choice(cand) if cand and rng.random() < 0.6 else h.uniq("s")
        h.pk_switched.add(id(n))
        s.flush()
        h.ctx.count("pk_switch_flushed")
        return ("pk_switch",)

    def delete():
        objs = persistent(rng.choice([N, N, K, C, P]))
        if not objs:
            return None
        o = rng.choice(objs)
        if type(o) is P:
            for c in list(o.children):
                h.see(c)
        s.delete(o)
        if rng.random() < 0.8:
            s.flush()
        return ("delete", type(o).__name__)

    def modify():
        objs = persistent()
        if not objs:
            return None
        o = rng.choice(objs)
        if type(o) is P:
            o.name = h.uniq("mod")
        else:
            o.v = h.uniq("mod")
        return ("modify", type(o).__name__)

    def commit():
        s.commit()
        h.new_in_txn.clear(); h.block_n = False
        h.nested.clear()
        return ("commit",)

    def rollback():
        s.rollback()
        h.new_in_txn.clear(); h.block_n = False
        h.nested.clear()
        return ("rollback",)

    def begin_nested():
        if len(h.nested) >= 2:
            return None
        h.nested.append(s.begin_nested())
        return ("begin_nested",)

    def end_nested():
        if not h.nested:
            return None
        t = h.nested.pop()
        if rng.random() < 0.6:
            t.rollback()
            return ("nested_rollback",)
        t.commit()
        return ("nested_commit",)

    def expunge_all():
        if rng.random() < 0.5:
            if any(id(o) in h.new_in_txn for o in persistent(tokens=True)):
                return None
            if any(id(o) in h.pk_switched for o in persistent(N)):
                h.block_n = True
            s.expunge_all()
            return ("expunge_all",)
        s.close()
        h.nested.clear()
        h.new_in_txn.clear(); h.block_n = False
        return ("close",)

    def bulk():
        """Input class: the bulk variants of the session API given duplicate / aliasing inputs
        must behave like the equivalent loop of single calls: one session object per identity,
        and the following flush succeeds."""
        import sqlalchemy.exc as sa_exc

        kind = rng.choice(["merge_all_dup", "merge_all_dup", "merge_all_cascade_dup", "merge_all_existing_dup",
                           "add_all_dup", "delete_all_dup"])
        if kind.startswith("merge_all"):
            if not s.autoflush:
                return None     # without autoflush a loop of merge() calls makes two pending objects as well
            h.fresh += 1
            if kind == "merge_all_cascade_dup":
                # two different new parents whose collections each hold a new child with the same key
                cid = 3000 + h.fresh
                srcs = []
                for j in range(2):
                    h.fresh += 1
                    p = P()
                    p.id, p.name = 3000 + h.fresh, h.uniq("bp")
                    c = C()
                    c.id, c.v = cid, h.uniq("bc")
                    p.children.append(c) if not isinstance(p.children, (set, dict)) else None
                    srcs.append(p)
                dup_cls, dup_pk = C, (cid,)
            else:
                cls = rng.choice([P, K, C] if h.block_n else [P, N, K, C])
                if kind == "merge_all_existing_dup":
                    pks = h.known_pks(cls)
                    if not pks:
                        return None
                    pk = rng.choice(pks)
                elif cls is N:
                    pk = (h.uniq("bn"),)
                elif cls is K:
                    pk = (60, h.fresh)
                else:
                    pk = (3000 + h.fresh,)
                srcs = []
                for j in range(rng.choice([2, 2, 3])):
                    o = cls()
                    for nm_, v in zip(h.pkcols(cls), pk):
                        setattr(o, nm_, v)
                    if cls is P:
                        o.name = h.uniq("bm")
                    else:
                        o.v = h.uniq("bm")
                    srcs.append(o)
                dup_cls, dup_pk = cls, tuple(pk)
            for o in srcs:
                h.see(o)
            got = s.merge_all(srcs)
            for g in got:
                h.see(g)
            h.ctx.count("bulk_merge_dup_checked")
            if kind != "merge_all_cascade_dup" and any(g is not got[0] for g in got):
                h.viol("merge_all-returns-several-objects-for-one-identity",
                       f"merge_all of {len(srcs)} objects with key {dup_cls.__name__}{dup_pk} returned "
                       f"{len({id(g) for g in got})} distinct session objects", h.wit({"kind": kind}))
                return ("bulk", kind)
            try:
                s.flush()
            except sa_exc.IntegrityError as e:
                h.viol("flush-after-merge_all-raises-integrity-error",
                       f"merge_all([...same key {dup_cls.__name__}{dup_pk} ...]) then flush: {str(e)[:100]}",
                       h.wit({"kind": kind}))
                return ("bulk", kind)
            # exactly one attached object claims the duplicated identity
            pkc = h.pkcols(dup_cls)
            key = h.inspect(dup_cls).identity_key_from_primary_key(dup_pk)
            claim = h.persistent_for(key) + [
                o for o in h.held.values() if type(o) is dup_cls and h.inspect(o).pending and h.inspect(o).session is s
                and tuple(o.__dict__.get(c_) for c_ in pkc) == dup_pk]
            if len(claim) != 1:
                h.viol("merge_all-leaves-several-attached-objects-for-one-identity",
                       f"{len(claim)} attached {dup_cls.__name__} objects with primary key {dup_pk} after merge_all + flush",
                       h.wit({"kind": kind}))
            elif claim:
                h.returned(claim[0], dup_cls, dup_pk, how=f"bulk {kind}")
            return ("bulk", kind)
        if kind == "add_all_dup":
            h.fresh += 1
            o = P()
            o.id, o.name = 3000 + h.fresh, h.uniq("ba")
            h.see(o)
            s.add_all([o, o])
            s.flush()
            h.returned(o, P, (o.id,), how="bulk add_all")
            return ("bulk", kind)
        objs = [o for o in persistent(K) if id(o) not in h.new_in_txn]
        if not objs or not hasattr(s, "delete_all"):
            return None
        o = rng.choice(objs)
        s.delete_all([o, o])
        s.flush()
        return ("bulk", kind)

    table = [
        (bulk, 5),
        (q_all, 10), (q_pk, 6), (get, 14), (lazy, 5), (merge, 6), (refresh, 4), (expire, 5),
        (expunge, 5), (readd, 5), (new, 6), (pk_switch, 5), (delete, 6), (modify, 5),
        (commit, 3), (rollback, 4), (begin_nested, 3), (end_nested, 3), (expunge_all, 1),
    ]
    return table


def seed_rows(rig):
    con = rig.obs
    con.execute("INSERT INTO p (id, name, n) VALUES (1,'p1',1),(2,'p2',2),(3,'p3',3)")
    con.execute("INSERT INTO c (id, p_id, v, k) VALUES (1,1,'c1','k1'),(2,1,'c2','k2'),(3,2,'c3','k3'),(4,NULL,'c4','k4')")
    con.execute("INSERT INTO n (code, v) VALUES ('a','na'),('b','nb'),('c','nc')")
    con.execute("INSERT INTO k (k1, k2, v) VALUES (1,1,'k11'),(1,2,'k12'),(2,1,'k21')")


def one_history(ctx, rig, variant, length, expected_exc):
    from sqlalchemy import event

    rng = ctx.rng
    rig.wipe()
    seed_rows(rig)
    s = rig.session(autoflush=rng.random() < 0.8, expire_on_commit=rng.random() < 0.7)
    h = Hist(ctx, rig, s, rng, variant)
    from vf.gen.ormrig_gj import LIFECYCLE_EVENTS

    def on_life(name):
        def fn(sess, inst):
            h.see(inst)
            h.life.setdefault(id(inst), []).append((len(h.trace), name))
            if name == "persistent_to_deleted":
                h.was_deleted.add(id(inst))
            elif name == "transient_to_pending":
                h.new_in_txn.add(id(inst))
        return fn

    for name in LIFECYCLE_EVENTS:
        event.listen(s, name, on_life(name))
    table = build_ops(h)
    fns = [f for f, w in table]
    weights = [w for f, w in table]
    names = []
    try:
        for step in range(length):
            fn = rng.choices(fns, weights)[0]
            h.trace.append(fn.__name__)
            h.pre = set(h.held)
            try:
                d = fn()
                if d is None:
                    h.trace[-1] = fn.__name__ + ":n/a"
                    continue
                h.trace[-1] = d
                names.append(d[0])
                ctx.seen("ops", d[0])
            except expected_exc as e:
                ctx.count("expected_exceptions")
                ctx.seen("exceptions", type(e).__name__)
                h.trace[-1] = (fn.__name__, "raised", type(e).__name__)
                names.append(fn.__name__ + "!")
                if not s.is_active:
                    s.rollback()
                    h.new_in_txn.clear(); h.block_n = False
                    h.nested.clear()
                    h.trace.append(("rollback-after-error",))
            h.check()
            if h.violated:
                break
        # closing sweep: everything the map holds must be what a query returns
        try:
            if h.violated:
                raise expected_exc[0]("history ended by a violation")
            s.rollback()
            h.trace.append(("final_sweep",))
            h.nested.clear()
            h.pre = set(h.held)
            for cls in rig.cls.values():
                from sqlalchemy import select

                for o in s.scalars(select(cls)).all():
                    h.returned(o, how="final sweep")
            h.check()
        except expected_exc:
            ctx.count("expected_exceptions")
    finally:
        s.close()
        rig.sessions.remove(s)
    ctx.case({"variant": variant, "ops": names}, nontrivial=h.hits >= 2)
    return h


def run(ctx):
    import sqlalchemy.exc as sa_exc
    import sqlalchemy.orm.exc as orm_exc

    from vf.gen import ormrig_gj as R

    warnings.simplefilter("ignore")
    expected_exc = (sa_exc.InvalidRequestError, sa_exc.IntegrityError, orm_exc.FlushError,
                    orm_exc.ObjectDeletedError, orm_exc.DetachedInstanceError, orm_exc.StaleDataError,
                    sa_exc.NoResultFound,
                    # a queued back-reference removal merged into a lazily loaded list that does
                    # not hold the child (token aliases of one row): list.remove -> ValueError
                    ValueError)
    per_variant = ctx.pick({"quick": 60, "thorough": 1200})
    sampled = 0
    for vi, lazy in enumerate(LAZY):
        rig = R.Rig(ctx, [lambda sa, orm, reg, lazy=lazy: R.zoo_pc(sa, orm, reg, child_lazy=lazy), R.zoo_natural])
        try:
            for k in range(per_variant):
                if not ctx.budget_ok():
                    break
                length = ctx.rng.randint(12, 30)
                h = one_history(ctx, rig, f"children-{lazy}", length, expected_exc)
                if sampled < 2 and h.hits >= 2:
                    ctx.sample({"variant": f"children-{lazy}", "ops": h.trace[:30]})
                    sampled += 1
        finally:
            rig.close()
