"""C35 -- object lifecycle states and events follow the documented state machine.

Online trace checker.  Per mapped instance a *shadow state* is driven **only** by the ten
session lifecycle events (M-life, ``vf.gen.ormrig_gj.LifeRecorder``) plus the two
documented event-less functions the harness itself calls (``make_transient``: detached ->
transient after the expunge events; ``make_transient_to_detached``: transient ->
detached).  The transition table is transcribed from doc/build/orm/session_events.rst
("Object Lifecycle Events") and session_state_management.rst:

    transient_to_pending      transient  -> pending       add / cascade
    pending_to_transient      pending    -> transient     rollback, expunge
    pending_to_persistent     pending    -> persistent    flush (INSERT)
    loaded_as_persistent      (new)      -> persistent    load
    persistent_to_transient   persistent -> transient     rollback of the INSERT
    persistent_to_deleted     persistent -> deleted       flush (DELETE)
    persistent_to_detached    persistent -> detached      expunge / expunge_all / close
    detached_to_persistent    detached   -> persistent    add / delete of a detached object
    deleted_to_persistent     deleted    -> persistent    rollback
    deleted_to_detached       deleted    -> detached      commit (also expunge / close)

Judged at every event: the instance's shadow equals the event's source state (unknown
instances may only appear through ``loaded_as_persistent`` or, for instances the library
itself builds in ``merge``, ``transient_to_pending`` / ``detached_to_persistent``), and
``inspect(obj)`` shows exactly the destination state while the listener runs.  Judged
after every operation: every tracked instance shows exactly one of the five state flags
and it is the shadow state (a state change without event, a missing or doubled event all
end here); a persistent instance is its session's ``identity_map[key]`` and no instance in
any other state is; ``persistent_to_detached`` / ``deleted_to_detached`` fire only inside
operations documented to detach; no instance's event chain inside one operation visits a state twice; after a
successful commit / rollback nothing of the session is left pending or deleted, after a
flush nothing pending, after close / expunge_all nothing attached (documented end states:
this is what exposes a transition that silently did not happen).

Workload: exhaustive sequences (<=3 ops quick, <=4 thorough) over a 17-op alphabet on two
linked objects (P parent, C child) from three start configurations (new / loaded /
solo = loaded but unlinked; from length 3 on the configuration alternates), all
sequences of length 4-5 (6 thorough) over {add, delete+flush, flush, rollback, commit,
expunge} on one new object, the *leave-and-return* product (10 + 7 ways to reach a state x
5 ways to leave the session or not x add / merge / nothing x 32 (72 thorough) ways to finish
the unit of work), plus
seeded random histories (6-16 ops) on up to four objects with a second session (SQL-free
ops only), SAVEPOINTs, cascades ``save-update, merge`` and ``all, delete-orphan``.

Session configuration axis: every part runs with ``autoflush`` on and off and
``expire_on_commit`` on and off, and SAVEPOINTs are also begun inside ``no_autoflush`` blocks;
``begin_nested()`` flushes unconditionally, so after it nothing of the session may be pending
(what was added before the SAVEPOINT belongs to the enclosing transaction and a SAVEPOINT
rollback must not touch it).

Listener presence: the library specialises on it (``session.dispatch.<event> or None``), so a
share of all histories (exhaustive, deep, leave-and-return, random) is run a second time in a
session with NO lifecycle listener, or only a subset: the executed operations of the fully
instrumented run (which the event-driven shadow has judged) are replayed, and after every
operation the five state predicates, ``was_deleted``, the owning session, identity-map
membership, ``obj in session`` and which operations raise must be identical; the registered
subset must see exactly its part of the reference event stream.

Guards: operations may raise the documented refusals (InvalidRequestError & co,
IntegrityError for a re-INSERT of an existing key, StaleDataError / ObjectDeletedError for
objects made detached without a row); the state check runs regardless.  After a violation
the instance concerned is *tainted* (not judged again in that history) so one defect is not
reported as a chain; the mechanism is ``<symptom>:in-<operation class>``.
``delete()`` is not called on an instance that already is / was deleted (the library
re-attaches it on purpose, pinned by its own test suite).

Fires on the tree as of this writing (candidate genuine defects, see the group report):
``event-destination-mismatch:deleted_to_detached:actual-transient:in-rollback`` (INSERT +
DELETE rolled back: the object goes deleted -> transient, the ``_deleted`` flag stays),
``event-source-mismatch:deleted_to_persistent:shadow-persistent:in-rollback`` (event for
objects only marked by ``delete()``), ``instance-still-deleted-after-commit:
expire_on_commit-False``,
``event-source-mismatch:{pending_to_transient,persistent_to_transient,persistent_to_detached,
deleted_to_detached}:shadow-{transient,detached}:in-{rollback,expunge,commit}`` (events for
instances that already left the session: snapshot collections keep expunged states;
``expunge()`` cascades onto non-members, even of another session).
"""
from __future__ import annotations

import itertools
import warnings

META = {
    "id": "C35",
    "level": "exploration",
    "technique": "online trace checker: per-object shadow state driven only by the ten session lifecycle events, compared with inspect() flags at every event and after every operation",
    "level_text": "Exhaustive op sequences up to length 3 (quick) / 4 (thorough) over 17 operations on two linked objects from two start configurations, plus seeded random histories with savepoints, cascades and a second session; every event and every post-operation state of every tracked instance is judged against the documented transition table.",
    "level_note": "SQLite only. A spurious event pair that returns to the same state inside one operation is caught only through the 'no state visited twice per operation' rule. Implicit detachment by garbage collection of the Session (documented as event-less) is not generated.",
    "design_ref": "DESIGN.md section 4, C35",
    "rule": "case = one op sequence from one start configuration; non-trivial = at least 2 lifecycle events were observed; distinct by (configuration, op sequence)",
    "shards": {"quick": 8, "thorough": 16},
    "modes": ["cext"],
    "soft_s": {"quick": 50, "thorough": 800},
    "exhaustive": {"quick": True, "thorough": True},
    "require": ["events_judged", "state_checks", "exhaustive_sequences", "random_histories",
                "ev_transient_to_pending", "ev_pending_to_transient", "ev_persistent_to_transient",
                "ev_pending_to_persistent", "ev_detached_to_persistent", "ev_loaded_as_persistent",
                "ev_persistent_to_deleted", "ev_deleted_to_persistent", "ev_deleted_to_detached",
                "ev_persistent_to_detached", "eventless_make_transient", "eventless_make_transient_to_detached",
                "post_op_state_checks", "leave_and_return_sequences", "identity_map_membership_checks",
                "no_listener_histories", "listener_subset_histories", "partial_listener_ops_compared"],
    "assumptions": ["transition table transcribed correctly from the two documentation files named above"],
}

TABLE = {
    "transient_to_pending": ("transient", "pending"),
    "pending_to_transient": ("pending", "transient"),
    "pending_to_persistent": ("pending", "persistent"),
    "loaded_as_persistent": (None, "persistent"),
    "persistent_to_transient": ("persistent", "transient"),
    "persistent_to_deleted": ("persistent", "deleted"),
    "persistent_to_detached": ("persistent", "detached"),
    "detached_to_persistent": ("detached", "persistent"),
    "deleted_to_persistent": ("deleted", "persistent"),
    "deleted_to_detached": ("deleted", "detached"),
}
LIBRARY_BUILT_FIRST_EVENTS = ("transient_to_pending", "detached_to_persistent")
DETACHING_EVENT_OPS = {
    "persistent_to_detached": {"expunge", "expunge_all", "close", "make_transient", "rollback"},
    "deleted_to_detached": {"commit", "expunge", "expunge_all", "close", "make_transient"},
}


class Tracker:
    def __init__(self, ctx, desc):
        from vf.gen.ormrig_gj import state_flags

        from sqlalchemy import inspect as _inspect

        self.ctx = ctx
        self.flags = state_flags
        self.inspect = _inspect
        self.sessions = []          # the sessions of the case (for the identity-map guarantees)
        self.desc = desc            # witness base (config, ops so far)
        self.objs = {}              # id -> obj (strong: no id reuse)
        self.names = {}             # id -> short name for witnesses
        self.shadow = {}            # id -> state
        self.chain = {}             # id -> states visited in the current op
        self.nevents = 0
        self.nviol = 0
        self.passive = False        # True in a listener-less / partial-listener world: events only logged
        self.evlog = []             # (event, instance name) of the operation in progress
        self.op = "setup"           # class of the operation in progress (part of the mechanism)
        self.tainted = set()        # ids of instances already reported: judged no further
        self.was_deleted = set()    # ids that entered 'deleted' and were not restored / made transient

    def track(self, o, name, state="transient"):
        self.objs[id(o)] = o
        self.names[id(o)] = name
        self.shadow[id(o)] = state

    def nm(self, o):
        return self.names.get(id(o), type(o).__name__.lower() + "?")

    def viol(self, mech, summary, o=None, **kw):
        self.nviol += 1
        if o is not None:
            self.tainted.add(id(o))
        # the operation class is part of the mechanism, but events that only a snapshot
        # restore / release or an expunge emit are attributed to that, whatever public
        # operation (a failed autoflush inside add / merge / refresh ...) triggered it
        ev = kw.get("event")
        op = self.op
        if ev in ("deleted_to_persistent", "persistent_to_transient"):
            op = "rollback"
        elif ev in ("pending_to_transient", "deleted_to_detached", "persistent_to_detached") and op not in (
                "expunge", "expunge_all", "close", "commit"):
            op = "rollback"
        mech = f"{mech}:in-{op}"
        if mech == "persistent_to_detached-fired-by-commit:in-commit" and any(
                (o_[0] if isinstance(o_, (list, tuple)) else o_) in ("begin_nested", "begin_nested_noaf")
                for o_ in (self.desc.get("ops") or ())):
            # the stale transaction-snapshot entry was made inside a SAVEPOINT (delete + flush in
            # begin_nested(), the object leaves in the deleted state and comes back): a separate,
            # registered mechanism
            mech += ":delete-was-in-savepoint"
        w = dict(self.desc)
        w["ops"] = list(self.desc["ops"])
        w.update(kw)
        self.ctx.violation(mech, summary, w)

    # called from the listeners
    def on_event(self, name, o, session):
        self.evlog.append((name, self.nm(o)))
        if self.passive:
            return
        self.nevents += 1
        self.ctx.count("events_judged")
        self.ctx.count("ev_" + name)
        src, dst = TABLE[name]
        cur = self.shadow.get(id(o))
        if name == "persistent_to_deleted":
            self.was_deleted.add(id(o))
        elif name == "deleted_to_persistent":
            self.was_deleted.discard(id(o))
        if id(o) in self.tainted:
            self.shadow[id(o)] = dst
            return
        if cur is None:
            self.objs[id(o)] = o
            self.names[id(o)] = type(o).__name__.lower() + "*"
            if name != "loaded_as_persistent" and name not in LIBRARY_BUILT_FIRST_EVENTS:
                self.viol(f"event-for-unknown-instance:{name}", f"{name} for an instance never seen before", o, event=name)
        elif src is None:
            self.viol("loaded_as_persistent-for-known-instance",
                      f"loaded_as_persistent for {self.nm(o)} whose shadow state is {cur}", o, event=name, shadow=cur)
        elif cur != src:
            self.viol(f"event-source-mismatch:{name}:shadow-{cur}",
                      f"{name} fired for {self.nm(o)} whose event-driven state is {cur}", o, event=name, shadow=cur,
                      obj=self.nm(o))
        self.shadow[id(o)] = dst
        if id(o) in self.tainted:
            return
        ch = self.chain.setdefault(id(o), [cur] if cur is not None else [])
        if dst in ch:
            self.viol(f"event-chain-revisits-state:{dst}",
                      f"{self.nm(o)} visits {dst} twice inside one operation: {ch + [dst]}", o, obj=self.nm(o), chain=ch + [dst])
            return
        ch.append(dst)
        allowed = DETACHING_EVENT_OPS.get(name)
        if allowed is not None and self.op not in allowed:
            # documented: an instance leaves a session for the detached state only through
            # expunge / expunge_all / close (make_transient expunges; rollback is named by
            # the persistent_to_detached docstring), a deleted one also through commit
            self.viol(f"{name}-fired-by-{self.op}",
                      f"{name} for {self.nm(o)} during {self.op}(), which is not an operation that detaches "
                      f"{'deleted' if src == 'deleted' else 'persistent'} instances", o, event=name, obj=self.nm(o))
            return
        actual = self.flags(o)
        if actual != (dst,):
            self.viol(f"event-destination-mismatch:{name}:actual-{'+'.join(actual) or 'none'}",
                      f"inside {name} listener {self.nm(o)} shows {actual}, documented destination is {dst}",
                      o, event=name, actual=list(actual), obj=self.nm(o))

    def eventless(self, o, frm, to):
        if self.shadow.get(id(o)) == frm:
            self.shadow[id(o)] = to

    def after_op(self):
        if self.passive:
            return
        self.chain.clear()
        for i, o in self.objs.items():
            if i in self.tainted:
                continue
            self.ctx.count("state_checks")
            actual = self.flags(o)
            sh = self.shadow[i]
            if len(actual) != 1:
                self.viol(f"not-exactly-one-state:{'+'.join(actual) or 'none'}",
                          f"{self.nm(o)} shows flags {actual} after {(self.desc['ops'] or ['setup'])[-1]}", o, obj=self.nm(o))
                continue
            if actual[0] != sh:
                self.viol(f"state-differs-from-event-shadow:events-say-{sh}:inspect-says-{actual[0]}",
                          f"{self.nm(o)}: lifecycle events lead to {sh}, inspect() says {actual[0]} after {(self.desc['ops'] or ['setup'])[-1]}",
                          o, obj=self.nm(o), shadow=sh, actual=actual[0])
                continue
            # documented guarantees of the state predicates w.r.t. Session.identity_map
            st = self.inspect(o)
            self.ctx.count("identity_map_membership_checks")
            for sess in self.sessions:
                mapped = st.key is not None and sess.identity_map.get(st.key) is o
                owner = st.session is sess
                if actual[0] == "persistent" and owner and not mapped:
                    self.viol("persistent-instance-not-in-identity-map",
                              f"{self.nm(o)} is persistent but not identity_map[key] of its session after "
                              f"{(self.desc['ops'] or ['setup'])[-1]}", o, obj=self.nm(o))
                    break
                if mapped and not (owner and actual[0] == "persistent"):
                    self.viol(f"{actual[0]}-instance-in-identity-map",
                              f"{self.nm(o)} is {actual[0]}{'' if owner else ' / not owned by that session'} but is "
                              f"identity_map[key] after {(self.desc['ops'] or ['setup'])[-1]}", o, obj=self.nm(o))
                    break


class World:
    """One case: sessions, recorder, tracker, named objects."""

    def __init__(self, ctx, rig, config, cascade, expire_on_commit=True, listen=None):
        from sqlalchemy import inspect

        from vf.gen.ormrig_gj import LifeRecorder

        self.ctx, self.rig = ctx, rig
        self.P, self.C = rig.cls["P"], rig.cls["C"]
        self.inspect = inspect
        # session configuration axis: expire_on_commit alone, or (expire_on_commit, autoflush)
        autoflush = True
        if isinstance(expire_on_commit, tuple):
            expire_on_commit, autoflush = expire_on_commit
        self.desc = {"config": config, "cascade": cascade, "expire_on_commit": expire_on_commit,
                     "autoflush": autoflush, "ops": []}
        self.tr = Tracker(ctx, self.desc)
        self.rec = LifeRecorder(on_event=self.tr.on_event)
        self.listen = listen        # None: all ten events; else the subset (possibly empty) that gets a listener
        if listen is not None:
            self.tr.passive = True
            self.rec.only = set(listen)
        self.record = []            # per executed op: [name, obj, raised, rolled_back, snapshot, events]
        self.s = rig.session(expire_on_commit=expire_on_commit, autoflush=autoflush)
        self.s2 = None
        self.tr.sessions.append(self.s)
        self.rec.attach(self.s)
        self.nested = []
        self.o = {}
        self.keep = []              # strong references (listener-less worlds)

    def snapshot(self):
        """State predicates of the named objects (what an application can see without events)."""
        out = {}
        for name, o in self.o.items():
            st = self.inspect(o)
            owner = "s" if st.session is self.s else ("s2" if self.s2 is not None and st.session is self.s2 else None)
            sess = self.s if owner == "s" else self.s2 if owner == "s2" else None
            mapped = [nm for nm, ss in (("s", self.s), ("s2", self.s2)) if ss is not None and st.key is not None
                      and ss.identity_map.get(st.key) is o]
            out[name] = [list(self.tr.flags(o)), bool(st.was_deleted), owner, mapped,
                         bool(sess is not None and o in sess)]
        return out

    def second_session(self):
        if self.s2 is None:
            self.s2 = self.rig.session()
            self.tr.sessions.append(self.s2)
            self.rec.attach(self.s2)
        return self.s2

    def finish(self):
        self.rec.detach_all()      # the clean-up close() below is not part of the history
        for s in (self.s, self.s2):
            if s is not None:
                try:
                    s.close()
                except Exception:
                    pass
                self.rig.sessions.remove(s)
        self.rec.detach_all()


def seed(rig):
    con = rig.obs
    con.execute("INSERT INTO p (id, name, n) VALUES (1,'p1',1),(2,'p2',2)")
    con.execute("INSERT INTO c (id, p_id, v, k) VALUES (1,1,'c1','k1'),(2,NULL,'c2','k2')")


def setup(w, config):
    """Start configurations.  'new': o1 = P(id=11), o2 = C(id=11) child of o1, transient.
    'loaded': o1 = P(1), o2 = C(1) loaded (persistent, o2.parent is o1)."""
    P, C = w.P, w.C
    if config in ("new", "single"):
        o1, o2 = P(), C()
        o1.id, o1.name = 11, "n11"
        o2.id, o2.v = 11, "v11"
        if config == "new":
            o2.parent = o1
        w.tr.track(o1, "o1")
        w.tr.track(o2, "o2")
    elif config == "solo":
        # loaded, row exists, not linked to each other (P(2) has no children, C(2) no parent)
        o1 = w.s.get(P, 2)
        o2 = w.s.get(C, 2)
        w.tr.objs[id(o1)], w.tr.objs[id(o2)] = o1, o2
        w.tr.names[id(o1)] = "o1"
        w.tr.names[id(o2)] = "o2"
    else:
        o1 = w.s.get(P, 1)
        o2 = w.s.get(C, 1)
        o2.parent
        w.s.commit() if config == "loaded-expired" else None
        w.tr.objs[id(o1)], w.tr.objs[id(o2)] = o1, o2
        w.tr.names[id(o1)] = "o1"
        w.tr.names[id(o2)] = "o2"
    w.o = {"o1": o1, "o2": o2}
    w.tr.chain.clear()


def apply_op(w, op, expected_exc):
    """op = (name, objname | None).  Returns None; exceptions of documented kinds are swallowed."""
    from sqlalchemy import select
    from sqlalchemy.orm import make_transient, make_transient_to_detached

    s, tr = w.s, w.tr
    name, on = op
    o = w.o.get(on) if on else None
    if name in ("make_transient", "mttd") and o is not None:
        # the two "advanced use" functions are applied to *unlinked* objects whose row exists
        # (mttd) only: an object that other tracked objects still refer to keeps being
        # flushed / orphan-checked through them, and a manufactured identity without a row
        # can be both merged and added - neither is a lifecycle question
        linked = (o.__dict__.get("parent") is not None) or bool(o.__dict__.get("children")) or any(
            x is not o and (x.__dict__.get("parent") is o or o in (x.__dict__.get("children") or ()))
            for x in tr.objs.values())
        if linked:
            return
        if name == "mttd":
            tab = "p" if type(o) is w.P else "c"
            if o.__dict__.get("id") is None or not w.rig.truth(f"SELECT 1 FROM {tab} WHERE id=?", (o.__dict__["id"],)):
                return
    w.desc["ops"].append(list(op))
    tr.op = {"nested_rollback": "rollback", "delete_flush": "delete", "s2_add": "add", "s2_expunge": "expunge",
             "s2_close": "close", "begin_nested_noaf": "begin_nested"}.get(name, name)
    del tr.evlog[:]
    raised = rolled = None
    began = False
    try:
        if name in ("add", "delete", "delete_flush", "s2_add") and o is not None:
            st_o = w.inspect(o)
            if st_o.detached and not w.rig.truth(
                    f"SELECT 1 FROM {'p' if type(o) is w.P else 'c'} WHERE id=?", (st_o.key[1][0],)):
                # a detached object whose row does not exist (its INSERT was rolled back by
                # close(), or it was deleted): re-attaching it is an application error the
                # session cannot see - a later INSERT of a merged copy then takes its key
                w.desc["ops"].pop()
                w.ctx.count("attach_of_rowless_detached_skipped")
                return
            if st_o.detached and any(x is not o and w.inspect(x).key == st_o.key for x in tr.objs.values()):
                # a detached twin: the history made the library build / load a second
                # instance for the same row (merge, delete cascade).  Attaching the detached
                # one as well is an application error the session cannot see (a later
                # rollback restores the other one over it); not generated
                w.desc["ops"].pop()
                return
        if name == "add":
            st_o = w.inspect(o)
            if w.desc["cascade"] == "orphan" and type(o) is w.C and o.__dict__.get("parent") is None and not st_o.persistent:
                # explicitly adding an orphan under delete-orphan: refused / deleted at flush
                # by the orphan rules, not a lifecycle path of its own
                w.desc["ops"].pop()
                return
            s.add(o)
        elif name in ("delete", "delete_flush"):
            if id(o) in tr.was_deleted:
                # Session.delete() documents its argument as persistent or detached-not-yet-
                # deleted; calling it again on an instance that already is / was deleted
                # re-attaches it on purpose (test_session.py
                # test_deleted_adds_to_imap_unconditionally) - not generated
                w.desc["ops"].pop()
                w.ctx.count("delete_of_already_deleted_skipped")
                return
            s.delete(o)
            if name == "delete_flush":
                s.flush()
        elif name == "expunge":
            s.expunge(o)
        elif name == "merge":
            m = s.merge(o)
            if id(m) not in tr.objs:
                pass   # announced through its first event
        elif name == "make_transient":
            make_transient(o)
            tr.was_deleted.discard(id(o))
            tr.eventless(o, "detached", "transient")
            w.ctx.count("eventless_make_transient")
        elif name == "mttd":
            make_transient_to_detached(o)
            tr.eventless(o, "transient", "detached")
            w.ctx.count("eventless_make_transient_to_detached")
        elif name == "modify":
            if type(o) is w.P:
                o.name = "m%d" % len(w.desc["ops"])
            else:
                o.v = "m%d" % len(w.desc["ops"])
        elif name == "unlink":
            if type(o) is w.C:
                o.parent = None
        elif name == "refresh":
            s.refresh(o)
        elif name == "expire":
            s.expire(o)
        elif name == "flush":
            s.flush()
        elif name == "commit":
            s.commit()
            w.nested.clear()
        elif name == "rollback":
            w.nested.clear()
            try:
                s.rollback()
            except expected_exc as e2:
                tr.viol("rollback-raises:" + type(e2).__name__,
                        f"Session.rollback() raised {type(e2).__name__}: {str(e2)[:100]}")
                s.rollback()
        elif name == "close":
            s.close()
            w.nested.clear()
        elif name == "expunge_all":
            s.expunge_all()
        elif name == "begin_nested":
            if len(w.nested) < 2:
                w.nested.append(s.begin_nested())
                began = True
        elif name == "begin_nested_noaf":
            if len(w.nested) < 2:
                with s.no_autoflush:
                    w.nested.append(s.begin_nested())
                began = True
        elif name == "nested_rollback":
            if w.nested:
                w.nested.pop().rollback()
        elif name == "nested_commit":
            if w.nested:
                w.nested.pop().commit()
        elif name == "query":
            for x in s.scalars(select(w.P)).all():
                pass
            for x in s.scalars(select(w.C)).all():
                pass
        elif name == "s2_add":
            w.second_session().add(o)
        elif name == "s2_expunge":
            w.second_session().expunge(o)
        elif name == "s2_close":
            w.second_session().close()
        else:
            raise RuntimeError("unknown op " + name)
    except expected_exc as e:
        w.ctx.count("expected_exceptions")
        w.ctx.seen("exceptions", type(e).__name__)
        w.desc["ops"][-1] = list(op) + ["raised " + type(e).__name__]
        raised = type(e).__name__
        if not s.is_active:
            rolled = True
            tr.chain.clear()
            tr.op = "rollback"
            w.desc["ops"].append(["rollback-after-error", None])
            w.nested.clear()
            try:
                s.rollback()
            except expected_exc as e2:
                tr.viol("rollback-raises:" + type(e2).__name__,
                        f"Session.rollback() raised {type(e2).__name__}: {str(e2)[:100]}")
    else:
        # documented end states of the operations that finish a unit of work (only when the
        # operation did not raise): commit -> nothing pending or deleted is left in the
        # session; rollback -> neither; flush -> nothing pending; close / expunge_all ->
        # nothing attached
        forbidden = {"commit": ("pending", "deleted"), "rollback": ("pending", "deleted"), "flush": ("pending",),
                     "close": ("pending", "persistent", "deleted"),
                     "expunge_all": ("pending", "persistent", "deleted"),
                     # begin_nested() flushes unconditionally (whatever autoflush / no_autoflush
                     # say): what was pending belongs to the enclosing transaction
                     "begin_nested": ("pending",), "begin_nested_noaf": ("pending",)}.get(name)
        if forbidden and name.startswith("begin_nested") and not began:
            forbidden = None
        if forbidden:
            for i, x in tr.objs.items():
                if i in tr.tainted:
                    continue
                st = w.inspect(x)
                if st.session is s:
                    fl = tr.flags(x)
                    if len(fl) == 1 and fl[0] in forbidden and tr.shadow.get(i) == fl[0]:
                        w.ctx.count("post_op_state_checks_hit")
                        cfg = (f"autoflush-{s.autoflush}" if name.startswith("begin_nested")
                               else f"expire_on_commit-{s.expire_on_commit}")
                        tr.viol(f"instance-still-{fl[0]}-after-{tr.op}:{cfg}",
                                f"{tr.nm(x)} is still {fl[0]} in the session after a successful {name}() "
                                f"(no lifecycle event moved it on)", x, obj=tr.nm(x))
                        break
            w.ctx.count("post_op_state_checks")
    tr.after_op()
    w.record.append([name, on, raised, rolled, w.snapshot(), list(tr.evlog)])


def raw_apply(w, name, on, expected_exc):
    """The same operations without the generator's guards (they were applied when the
    reference world ran): used to replay the *executed* ops of a reference history in a world
    with no / only some lifecycle listeners."""
    from sqlalchemy import select
    from sqlalchemy.orm import make_transient, make_transient_to_detached

    s = w.s
    o = w.o.get(on) if on else None
    del w.tr.evlog[:]
    raised = rolled = None
    began = False
    try:
        if name == "add":
            s.add(o)
        elif name == "delete":
            s.delete(o)
        elif name == "delete_flush":
            s.delete(o)
            s.flush()
        elif name == "expunge":
            s.expunge(o)
        elif name == "merge":
            w.keep.append(s.merge(o))
        elif name == "make_transient":
            make_transient(o)
        elif name == "mttd":
            make_transient_to_detached(o)
        elif name == "modify":
            if type(o) is w.P:
                o.name = "m%d" % (len(w.record) + 1)
            else:
                o.v = "m%d" % (len(w.record) + 1)
        elif name == "unlink":
            if type(o) is w.C:
                o.parent = None
        elif name == "refresh":
            s.refresh(o)
        elif name == "expire":
            s.expire(o)
        elif name == "flush":
            s.flush()
        elif name == "commit":
            s.commit()
            w.nested.clear()
        elif name == "rollback":
            w.nested.clear()
            s.rollback()
        elif name == "close":
            s.close()
            w.nested.clear()
        elif name == "expunge_all":
            s.expunge_all()
        elif name == "begin_nested":
            if len(w.nested) < 2:
                w.nested.append(s.begin_nested())
                began = True
        elif name == "begin_nested_noaf":
            if len(w.nested) < 2:
                with s.no_autoflush:
                    w.nested.append(s.begin_nested())
                began = True
        elif name == "nested_rollback":
            if w.nested:
                w.nested.pop().rollback()
        elif name == "nested_commit":
            if w.nested:
                w.nested.pop().commit()
        elif name == "query":
            w.keep.extend(s.scalars(select(w.P)).all())
            w.keep.extend(s.scalars(select(w.C)).all())
        elif name == "s2_add":
            w.second_session().add(o)
        elif name == "s2_expunge":
            w.second_session().expunge(o)
        elif name == "s2_close":
            w.second_session().close()
        else:
            raise RuntimeError("unknown op " + name)
    except expected_exc as e:
        raised = type(e).__name__
        if not s.is_active:
            rolled = True
            w.nested.clear()
            try:
                s.rollback()
            except expected_exc:
                raised += "+rollback-raised"
    # the instrumented world keeps every instance it is told about alive (the tracker holds
    # them); do the same here, otherwise the weak identity map alone makes the worlds differ
    for ss in (w.s, w.s2):
        if ss is not None:
            w.keep.extend(ss.identity_map.values())
    w.record.append([name, on, raised, rolled, w.snapshot(), list(w.tr.evlog)])


def run_partial_listeners(ctx, rig, ref, config, cascade, expected_exc, listen, extra_objs, link4, expire_on_commit):
    """Input class: a session with NO lifecycle listener, or only some.  The library
    specialises on listener presence (``session.dispatch.<event> or None``); what an
    application can observe without events - the five state predicates, ``was_deleted``, session
    membership, identity-map membership, which operations raise - must be the same as in the
    fully instrumented reference world (which the event-driven shadow has judged), and the
    registered subset must see exactly its part of the reference event stream."""
    rig.wipe()
    seed(rig)
    w = World(ctx, rig, config, cascade, expire_on_commit, listen=listen)
    sub = set(listen)
    try:
        setup(w, config)
        make_extra(w, extra_objs, link4)
        for k, (name, on, raised, rolled, snap, events) in enumerate(ref.record):
            raw_apply(w, name, on, expected_exc)
            got = w.record[-1]
            ctx.count("partial_listener_ops_compared")
            where = {"config": config, "cascade": cascade, "expire_on_commit": expire_on_commit,
                     "listeners": sorted(sub), "ops": [r[:3] for r in ref.record[:k + 1]]}
            kind = "no-listeners" if not sub else "listener-subset"
            if got[2] != raised:
                ctx.violation(f"{kind}:operation-outcome-differs:{name}",
                              f"{name}({on}) {'raised ' + str(raised) if raised else 'succeeded'} with all listeners, "
                              f"{'raised ' + str(got[2]) if got[2] else 'succeeded'} with listeners {sorted(sub)}", where)
                break
            diff = [(n, snap[n], got[4].get(n)) for n in snap if snap[n] != got[4].get(n)]
            if diff:
                n, a, b = diff[0]
                part = ("flags", "was_deleted", "session", "identity-map", "in-session")[
                    next(i for i in range(5) if a[i] != b[i])]
                ctx.violation(f"{kind}:{part}-differs-from-instrumented-run:after-{name}",
                              f"{n} after {name}({on}): all listeners -> {a}, listeners {sorted(sub)} -> {b} "
                              f"[flags, was_deleted, session, identity_map, in session]",
                              dict(where, obj=n, reference=a, observed=b))
                break
            # (order inside one flush follows set iteration and is not documented; only the named
            # objects are compared: whether an instance the library loaded itself is loaded
            # again depends on garbage collection of the weakly referencing identity map)
            norm = lambda evs: sorted((e, n) for e, n in evs if n in ("o1", "o2", "o3", "o4"))
            want = norm(e for e in events if e[0] in sub)
            if norm(got[5]) != want:
                ctx.violation(f"{kind}:event-stream-differs-from-instrumented-run:{name}",
                              f"{name}({on}): registered subset saw {got[5]}, the reference stream restricted to it is {want}",
                              dict(where, reference=want, observed=got[5]))
                break
        ctx.count("partial_listener_histories")
        ctx.count("no_listener_histories" if not sub else "listener_subset_histories")
        ctx.case({"config": config, "cascade": cascade, "listen": sorted(sub), "ops": [r[:2] for r in ref.record]},
                 nontrivial=len(ref.record) >= 2)
    finally:
        w.finish()


def make_extra(w, extra_objs, link4):
    for k in range(extra_objs):
        if k == 0:
            x = w.P()
            x.id, x.name = 12, "n12"
        else:
            x = w.C()
            x.id, x.v = 12, "v12"
            x.parent = w.o["o1"] if link4 else None
        w.tr.track(x, f"o{3 + k}")
        w.o[f"o{3 + k}"] = x


EXH_ALPHABET = [
    ("add", "o1"), ("add", "o2"), ("delete", "o1"), ("delete", "o2"), ("expunge", "o1"), ("expunge", "o2"),
    ("make_transient", "o1"), ("mttd", "o1"), ("merge", "o1"), ("delete_flush", "o2"),
    ("flush", None), ("commit", None), ("rollback", None), ("close", None), ("begin_nested", None),
    ("nested_rollback", None), ("query", None),
]

RANDOM_OPS = [
    ("add", 10), ("delete", 6), ("delete_flush", 6), ("expunge", 6), ("merge", 4), ("make_transient", 4), ("mttd", 3),
    ("modify", 4), ("unlink", 2), ("refresh", 2), ("expire", 2), ("flush", 10), ("commit", 6), ("rollback", 8),
    ("close", 2), ("expunge_all", 2), ("begin_nested", 4), ("begin_nested_noaf", 2), ("nested_rollback", 5), ("nested_commit", 3), ("query", 4),
    ("s2_add", 2), ("s2_expunge", 2), ("s2_close", 1),
]
NO_OBJ = {"flush", "commit", "rollback", "close", "expunge_all", "begin_nested", "begin_nested_noaf", "nested_rollback",
          "nested_commit",
          "query", "s2_close"}


def run_case(ctx, rig, config, cascade, ops, expected_exc, extra_objs=0, kind="exh", expire_on_commit=True,
             listen=None):
    """listen: None -> only the fully instrumented world; a collection of event names (may be
    empty) -> afterwards the executed ops are replayed in a world that registers just those."""
    rig.wipe()
    seed(rig)
    w = World(ctx, rig, config, cascade, expire_on_commit)
    link4 = ctx.rng.random() < 0.5 if extra_objs > 1 else False
    try:
        setup(w, config)
        make_extra(w, extra_objs, link4)
        w.tr.after_op() if config not in ("new", "single") else None
        for op in ops:
            apply_op(w, op, expected_exc)
            if w.tr.nviol:
                break      # the session may be inconsistent from here on: one report per history
        ctx.case({"config": config, "cascade": cascade, "ops": [list(o) for o in ops]}, nontrivial=w.tr.nevents >= 2)
    finally:
        w.finish()
    if listen is not None and not w.tr.nviol and w.record:
        run_partial_listeners(ctx, rig, w, config, cascade, expected_exc, listen, extra_objs, link4, expire_on_commit)
    return w


def run(ctx):
    import sqlalchemy.exc as sa_exc
    import sqlalchemy.orm.exc as orm_exc

    from vf.gen import ormrig_gj as R

    warnings.simplefilter("ignore")
    # DBAPIError: IntegrityError for a re-INSERT, and statements built from objects the
    # history left without a usable primary key (make_transient'ed parents etc.)
    # AssertionError: the unit of work's own "Failed to add object to the flush context"
    # for manufactured detached objects (make_transient_to_detached without a row) that are
    # merged and deleted in one flush - an internal refusal, not a lifecycle matter;
    # ValueError: a queued back-reference removal merged into a collection loaded during
    # the flush that no longer lists the child (list.remove) - same remark
    expected_exc = (sa_exc.InvalidRequestError, sa_exc.DBAPIError, orm_exc.FlushError,
                    orm_exc.ObjectDeletedError, orm_exc.DetachedInstanceError, orm_exc.StaleDataError,
                    AssertionError, ValueError)
    rng = ctx.rng
    cascades = {"plain": "save-update, merge", "orphan": "all, delete-orphan"}
    rigs = {}
    try:
        for cname, casc in cascades.items():
            rigs[cname] = R.Rig(ctx, [lambda sa, orm, reg, casc=casc: R.zoo_pc(sa, orm, reg, cascade=casc)])
        # ---- part A: exhaustive short sequences --------------------------------
        maxlen = ctx.pick({"quick": 3, "thorough": 4})
        idx = 0
        sampled = 0
        for L in range(1, maxlen + 1):
            for seq in itertools.product(EXH_ALPHABET, repeat=L):
                for config in (("new", "loaded", "solo") if L < 3 else (("new", "loaded", "solo")[(idx // 2) % 3],)):
                    idx += 1
                    if not ctx.mine(idx):
                        continue
                    if not ctx.budget_ok():
                        break
                    cname = "plain" if idx % 3 else "orphan"
                    w = run_case(ctx, rigs[cname], config, cname, seq, expected_exc,
                                 expire_on_commit=(True, bool((idx // ctx.nshards) % 2)),
                                 listen=() if (idx // ctx.nshards) % 6 == 0 else None)
                    ctx.count("exhaustive_sequences")
                    if sampled < 2 and w.tr.nevents >= 4:
                        ctx.sample({"config": config, "cascade": cname, "ops": [list(o) for o in seq]})
                        sampled += 1
        # ---- part B: random histories --------------------------------------------
        nrand = ctx.pick({"quick": 120, "thorough": 2000})
        names = [n for n, _ in RANDOM_OPS]
        weights = [wt for _, wt in RANDOM_OPS]
        for k in range(nrand):
            if not ctx.budget_ok():
                break
            config = rng.choice(["new", "loaded", "loaded-expired", "solo"])
            cname = rng.choice(["plain", "orphan"])
            extra = rng.choice([0, 1, 2])
            onames = ["o1", "o2"] + [f"o{3 + i}" for i in range(extra)]
            ops = []
            for _ in range(rng.randint(6, 16)):
                n = rng.choices(names, weights)[0]
                ops.append((n, None if n in NO_OBJ else rng.choice(onames)))
            lk = rng.random()
            listen = None if lk < 0.34 else () if lk < 0.6 else tuple(
                e for e in R.LIFECYCLE_EVENTS if rng.random() < 0.5)
            w = run_case(ctx, rigs[cname], config, cname, ops, expected_exc, extra_objs=extra, kind="rand",
                         expire_on_commit=(rng.random() < 0.6, rng.random() < 0.6), listen=listen)
            ctx.count("random_histories")
            if sampled < 4 and w.tr.nevents >= 6:
                ctx.sample({"config": config, "cascade": cname, "ops": [list(o) for o in ops]})
                sampled += 1
        # ---- part A2: deeper exhaustive sequences on one object ------------------
        deep = [("add", "o1"), ("delete_flush", "o1"), ("flush", None), ("rollback", None), ("commit", None),
                ("expunge", "o1")]
        for L in range(4, ctx.pick({"quick": 5, "thorough": 6}) + 1):
            for seq in itertools.product(deep, repeat=L):
                idx += 1
                if not ctx.mine(idx):
                    continue
                if not ctx.budget_ok():
                    break
                if seq[0][0] != "add":
                    continue      # every other first op is a refusal on a transient object
                run_case(ctx, rigs["plain"], "single", "plain", seq, expected_exc,
                         expire_on_commit=(bool(idx // 8 % 2), bool(idx // 16 % 2)),
                         listen=() if (idx // ctx.nshards) % 3 == 0 else None)
                ctx.count("exhaustive_sequences")
                ctx.count("deep_sequences")
        # ---- part A3: leave-and-return histories --------------------------------------
        # input class: an object reaches a state, LEAVES the session (expunge / make_transient
        # [+ make_transient_to_detached]) or not, comes BACK to the same session (add / merge)
        # or not, and the unit of work is then finished in every way.
        F = ["flush", "commit", "rollback", "begin_nested", "begin_nested_noaf", "nested_rollback", "close", "delete_flush",
             "query"]
        firsts = ["flush", "commit", "rollback"] if ctx.quick else F
        finishes = [(f,) for f in F] + [(a, b) for a in firsts for b in F]
        leaves = [(), ("expunge",), ("make_transient",), ("make_transient", "mttd"), ("expunge", "make_transient")]
        backs = [("add",), ("merge",), ()]
        prefixes = {
            "single": [("add", "commit"), ("add", "flush"), ("add",), ("add", "commit", "delete_flush"),
                       ("add", "flush", "delete_flush"), ("add", "commit", "delete_flush", "commit"),
                       ("add", "commit", "delete"), ("add", "commit", "begin_nested", "delete_flush"),
                       ("add", "commit", "expunge"), ("add", "commit", "begin_nested")],
            "solo": [(), ("delete_flush",), ("delete_flush", "commit"), ("delete",), ("begin_nested", "delete_flush"),
                     ("expunge",), ("begin_nested",)],
        }
        for config, pres in prefixes.items():
            for pre in pres:
                for lv in leaves:
                    for bk in backs:
                        for fin in finishes:
                            idx += 1
                            if not ctx.mine(idx):
                                continue
                            if not ctx.budget_ok():
                                break
                            seq = [(n, None if n in NO_OBJ else "o1") for n in pre + lv + bk + fin]
                            k3 = (idx // ctx.nshards) % 6
                            run_case(ctx, rigs["plain"], config, "plain", seq, expected_exc,
                                     expire_on_commit=(bool(idx // 16 % 2), bool(idx // 32 % 2)),
                                     listen=() if k3 == 0 else R.LIFECYCLE_EVENTS[k3::3] if k3 == 1 else None)
                            ctx.count("exhaustive_sequences")
                            ctx.count("leave_and_return_sequences")
    finally:
        for r in rigs.values():
            r.close()
